#!/usr/bin/env python3
"""Per-property driver: runs the gosmt harnesses of a property, replays every counterexample natively
against the real build, matches replayed counterexamples against known_findings.json, writes
evidence/<id>.json and sets the exit code (0 held / 1 violation / 2 inconclusive)."""
import json, os, sys, subprocess, time, tempfile, shutil, glob, re, hashlib

ROOT = os.path.dirname(os.path.abspath(__file__))
REPO = os.environ.get("VERIF_REPO", "/repo")
GOENV = dict(os.environ, GOFLAGS="-mod=mod", GOPROXY="off", GOSUMDB="off", GOTOOLCHAIN="local")


def ensure_built():
    gosmt = os.path.join(ROOT, "bin", "gosmt")
    src_m = 0
    for r, _, fs in os.walk(os.path.join(ROOT, "engine")):
        for f in fs:
            src_m = max(src_m, os.path.getmtime(os.path.join(r, f)))
    if not os.path.exists(gosmt) or os.path.getmtime(gosmt) < src_m:
        os.makedirs(os.path.join(ROOT, "bin"), exist_ok=True)
        subprocess.run(["go", "build", "-o", gosmt, "./cmd/gosmt"], cwd=os.path.join(ROOT, "engine"), env=GOENV, check=True)
    return gosmt


def load_manifest(pid):
    p = os.path.join(ROOT, "harness", pid, "manifest.json")
    with open(p) as f:
        m = json.load(f)
    return p, m


def manifests_of(pid):
    """A property may have several manifests (different target packages): manifest*.json."""
    d = os.path.join(ROOT, "harness", pid)
    ms = sorted(glob.glob(os.path.join(d, "manifest*.json")))
    out = []
    for p in ms:
        with open(p) as f:
            out.append((p, json.load(f)))
    return out


def package_name(pkgdir):
    for fn in sorted(os.listdir(pkgdir)):
        if fn.endswith(".go") and not fn.endswith("_test.go"):
            for line in open(os.path.join(pkgdir, fn)):
                line = line.strip()
                if line.startswith("package "):
                    return line.split()[1]
    raise RuntimeError("no package in " + pkgdir)


def native_replay(gosmt, mpath, m, entry, replay_path, timeout=600):
    """Runs the harness natively on the real build with the recorded model. Returns (status, output).
    status: 'assert:<label>' list, 'panic', 'ok', 'assume-violated', 'error'."""
    pkgdir = os.path.join(REPO, m["package"])
    pkg = package_name(pkgdir)
    tmp = tempfile.mkdtemp(prefix="gosmt-replay-")
    try:
        rep = {}
        for f in glob.glob(os.path.join(pkgdir, "*_test.go")):
            rep[f] = ""
        rt = subprocess.run([gosmt, "rt", pkg], capture_output=True, text=True, check=True).stdout
        rtp = os.path.join(tmp, "rt.go")
        open(rtp, "w").write(rt)
        rep[os.path.join(pkgdir, "zz_verif_rt.go")] = rtp
        for i, f in enumerate(m["files"]):
            src = os.path.join(os.path.dirname(mpath), f)
            txt = open(src).read()
            if "package VERIFPKG" in txt:
                src = os.path.join(tmp, "h%d_%s" % (i, os.path.basename(f)))
                open(src, "w").write(txt.replace("package VERIFPKG", "package " + pkg, 1))
            rep[os.path.join(pkgdir, "zz_verif_" + os.path.basename(f))] = src
        # stand-ins overlaid into other packages (manifest "overlays")
        for target, srcf in (m.get("overlays") or {}).items():
            rep[os.path.join(REPO, target)] = os.path.join(os.path.dirname(os.path.abspath(mpath)), srcf)
        entries = sorted(set(h["entry"] for h in m["harnesses"]))
        test = ["package " + pkg, "", 'import ("fmt"; "os"; "testing")', "",
                "func TestVerifReplay(t *testing.T) {",
                "\tfns := map[string]func(){"]
        for e in entries:
            test.append('\t\t"%s": %s,' % (e, e))
        test += ["\t}",
                 '\tentry := os.Getenv("VERIF_ENTRY")',
                 "\tf, ok := fns[entry]",
                 '\tif !ok { t.Fatalf("no entry %s", entry) }',
                 "\tverifReset()",
                 "\tdefer func() {",
                 "\t\tif r := recover(); r != nil {",
                 '\t\t\tif _, ok := r.(verifAssumeViolated); ok { fmt.Println("VERIF-ASSUME-VIOLATED"); return }',
                 '\t\t\tfmt.Println("VERIF-PANIC:", r)',
                 "\t\t\tt.Fail()",
                 "\t\t}",
                 "\t}()",
                 "\tf()",
                 '\tfmt.Println("VERIF-END missing=", verifRT.Missing)',
                 "\tif len(verifRT.Failures) > 0 { t.Fail() }",
                 "}", ""]
        tp = os.path.join(tmp, "replay_test.go")
        open(tp, "w").write("\n".join(test))
        rep[os.path.join(pkgdir, "zz_verif_replay_test.go")] = tp
        ov = os.path.join(tmp, "overlay.json")
        json.dump({"Replace": rep}, open(ov, "w"))
        # temporary directories the harness creates natively live (and die) with this replay
        ntmp = os.path.join(tmp, "native-tmp")
        os.makedirs(ntmp, exist_ok=True)
        env = dict(GOENV, VERIF_REPLAY=os.path.abspath(replay_path), VERIF_ENTRY=entry, TMPDIR=ntmp)
        try:
            tags = ["-tags", m["tags"]] if m.get("tags") else []
            r = subprocess.run(["go", "test", "-vet=off", "-count=1"] + tags + ["-overlay", ov, "-run", "^TestVerifReplay$", "-v", "./" + m["package"]],
                               cwd=REPO, env=env, capture_output=True, text=True, timeout=timeout)
        except subprocess.TimeoutExpired:
            return "error", "native replay timed out"
        out = r.stdout + r.stderr
        fails = re.findall(r"^VERIF-ASSERT-FAILED: (.*)$", out, re.M)
        if fails:
            # assertions that failed before a later assumption of the harness was violated count: the
            # recorded model only fixes the values drawn up to the failing assertion
            return "assert:" + "|".join(fails), out
        if "VERIF-ASSUME-VIOLATED" in out:
            return "assume-violated", out
        if "VERIF-PANIC:" in out or re.search(r"^panic: ", out, re.M) or "fatal error:" in out:
            return "panic", out
        if "VERIF-END" in out and r.returncode == 0:
            return "ok", out
        return "error", out
    finally:
        shutil.rmtree(tmp, ignore_errors=True)


def interpreted_replay(gosmt, mpath, entry, replay_path, v):
    tmp_out = tempfile.mktemp(prefix="gosmt-replay-", suffix=".json")
    try:
        r = subprocess.run([gosmt, "run", "-manifest", mpath, "-only", entry, "-replay", replay_path, "-repo", REPO, "-out", tmp_out],
                           cwd=ROOT, env=GOENV, capture_output=True, text=True, timeout=600)
        res = json.load(open(tmp_out))
        for h in res.get("harnesses", []):
            for w in h.get("violations") or []:
                if w["kind"] == v["kind"] and w["label"] == v["label"]:
                    return True
    except Exception:
        return False
    finally:
        if os.path.exists(tmp_out):
            os.remove(tmp_out)
    return False


def observes_of(out):
    return [l.strip() for l in re.findall(r"^VERIF-OBSERVE (.*)$", out, re.M)]


def load_known():
    p = os.path.join(ROOT, "known_findings.json")
    if not os.path.exists(p):
        return []
    return json.load(open(p)).get("findings", [])


def match_known(known, pid, entry, v):
    for k in known:
        if k.get("property") != pid or k.get("status") != "known":
            continue
        if k.get("harness") and k["harness"] != entry:
            continue
        if k.get("kind") and k["kind"] != v["kind"]:
            continue
        if k.get("label") and k["label"] != v["label"]:
            continue
        if k.get("label_re") and not re.search(k["label_re"], v["label"]):
            continue
        if k.get("where_re") and not re.search(k["where_re"], v.get("where", "")):
            continue
        return k
    return None


def cmd_check(pid, tier, seed):
    t0 = time.time()
    gosmt = ensure_built()
    known = load_known()
    # VERIF_OUT redirects evidence and replays (used when a seeded change is tried on a scratch copy)
    OUT = os.environ.get("VERIF_OUT", ROOT)
    os.makedirs(os.path.join(OUT, "evidence"), exist_ok=True)
    rdir = os.path.join(OUT, "replays", pid)
    os.makedirs(rdir, exist_ok=True)
    all_h = []
    lines = []
    violations = []      # (entry, v, path)
    known_hits = []
    inconclusive = []
    partial = []
    validated = 0
    interp_replays = []
    tv_mismatch = []
    funcs = {}
    mans = manifests_of(pid)
    if not mans:
        print("no manifest for", pid)
        return 2
    for mpath, m in mans:
        tmp_out = tempfile.mktemp(prefix="gosmt-out-", suffix=".json")
        cmd = [gosmt, "run", "-manifest", mpath, "-tier", tier, "-repo", REPO, "-out", tmp_out]
        # a harness whose verdict is settled by a violation that is not a listed known finding stops
        # exploring after a grace period (the check fails anyway; this keeps a failing run short)
        run_env = dict(GOENV, GOSMT_STOP_GRACE=os.environ.get("VERIF_STOP_GRACE", "60"),
                       GOSMT_KNOWN_LABELS=json.dumps([("^" + re.escape(k["label"]) + "$") if k.get("label") else k.get("label_re", "")
                                                      for k in known if k.get("property") == pid and k.get("status") == "known" and (k.get("label") or k.get("label_re"))]))
        if os.environ.get("VERIF_WORKERS"):
            cmd += ["-workers", os.environ["VERIF_WORKERS"]]
        r = subprocess.run(cmd, cwd=ROOT, env=run_env, capture_output=True, text=True)
        sys.stderr.write(r.stderr)
        try:
            res = json.load(open(tmp_out))
        except Exception as e:
            inconclusive.append("gosmt produced no result for %s: %s" % (os.path.basename(mpath), r.stderr[-400:]))
            continue
        finally:
            if os.path.exists(tmp_out):
                os.remove(tmp_out)
        if res.get("load_error"):
            inconclusive.append("load error (harness does not compile against the current tree): " + res["load_error"][:500])
            continue
        for h in res["harnesses"]:
            all_h.append(h)
            for k, n in (h.get("funcs") or {}).items():
                funcs[k] = funcs.get(k, 0) + n
            entry = h["entry"]
            if h["verdict"] == "reach-failed":
                inconclusive.append("%s: reachability witness did not come back sat (vacuous harness?)" % entry)
            if h["verdict"] == "inconclusive":
                # thorough-tier harnesses flagged "partial_ok" in their manifest are explorations under a
                # time budget: running out of it bounds what was explored (reported as PARTIAL and in the
                # evidence), it is not a failed decision. Solver unknowns and engine errors stay inconclusive.
                flagged = any(x.get("entry") == entry and x.get("partial_ok") for x in m["harnesses"])
                for s in h.get("inconclusive") or ["?"]:
                    if tier == "thorough" and flagged and s.startswith("exploration budget exhausted"):
                        partial.append("%s: %s" % (entry, s))
                    else:
                        inconclusive.append("%s: %s" % (entry, s))
            # translator validation on reach twins is done below via their first violation
            for i, v in enumerate(h.get("violations") or []):
                rp = os.path.join(rdir, "%s-%d.json" % (entry, i))
                json.dump({"property": pid, "entry": entry, "manifest": os.path.relpath(mpath, ROOT), "kind": v["kind"], "label": v["label"], "where": v["where"],
                           "values": v.get("values") or [], "sched": v.get("sched") or [], "observe": v.get("observe") or [], "prefix": v.get("prefix") or []}, open(rp, "w"), indent=1)
                st, out = native_replay(gosmt, mpath, m, entry, rp)
                reproduced = False
                if v["kind"] == "assert" and st.startswith("assert:") and v["label"] in st[7:].split("|"):
                    reproduced = True
                if v["kind"] in ("panic", "deadlock") and st == "panic":
                    reproduced = True
                mode = "native"
                if not reproduced and (v.get("sched") or []):
                    # schedule-dependent counterexample: the native harness runs spawned functions one after
                    # the other, so replay it by concrete re-execution of the code's SSA under the recorded
                    # schedule (fixed values, fixed thread choices, no solver involved)
                    if interpreted_replay(gosmt, mpath, entry, rp, v):
                        reproduced = True
                        mode = "interpreted-ssa"
                        interp_replays.append(os.path.relpath(rp, ROOT))
                if not reproduced:
                    inconclusive.append("%s: counterexample for %s %r did not reproduce natively (native status %s) – encoder or stub mismatch; replay %s" % (entry, v["kind"], v["label"], st.split(":")[0], os.path.relpath(rp, ROOT)))
                    continue
                validated += 1
                k = match_known(known, pid, entry, v)
                if k:
                    known_hits.append((k, entry, v, rp))
                else:
                    violations.append((entry, v, rp))
            # reach twins: validate the translator on the model of the twin
            if h["verdict"] == "reach-ok" and h.get("reach_model"):
                v = h["reach_model"]
                rp = os.path.join(rdir, "%s-reach.json" % entry)
                json.dump({"property": pid, "entry": entry, "manifest": os.path.relpath(mpath, ROOT), "kind": v["kind"], "label": v["label"], "where": v["where"],
                           "values": v.get("values") or [], "sched": v.get("sched") or [], "observe": v.get("observe") or []}, open(rp, "w"), indent=1)
                st, out = native_replay(gosmt, mpath, m, entry, rp)
                ok = (v["kind"] == "assert" and st.startswith("assert:") and v["label"] in st[7:].split("|")) or (v["kind"] != "assert" and st == "panic")
                nat_obs = observes_of(out)
                eng_obs = [o for o in (v.get("observe") or [])]
                if ok and eng_obs:
                    # compare the observations that both sides made (the engine records them up to the failing assertion)
                    for a_, b_ in zip(eng_obs, nat_obs):
                        if "?" in a_:
                            continue
                        if a_.replace(" ", "") != b_.replace(" ", ""):
                            ok = False
                            tv_mismatch.append("%s: engine observed %r, native run observed %r" % (entry, a_, b_))
                            break
                if ok:
                    validated += 1
                else:
                    inconclusive.append("%s: reachability model does not behave natively as in the engine (native status %s) – encoder mismatch; replay %s" % (entry, st.split(":")[0], os.path.relpath(rp, ROOT)))
                if os.path.exists(rp) and ok:
                    os.remove(rp)
    # translator validation: reach twins carry observes; compare with the native run
    for mpath, m in mans:
        pass
    wall = time.time() - t0
    # ---- output lines
    seen_known = set()
    for k, entry, v, rp in known_hits:
        kid = k.get("id", k.get("text", ""))
        if kid in seen_known:
            continue
        seen_known.add(kid)
        print("KNOWN-FINDING: property=%s %s [%s; harness %s, %s %r, replay %s]" % (pid, k.get("text", ""), kid, entry, v["kind"], v["label"], os.path.relpath(rp, ROOT)))
    for entry, v, rp in violations:
        print("VIOLATION property=%s replay=%s   (%s: %s %r at %s)" % (pid, os.path.relpath(rp, ROOT), entry, v["kind"], v["label"], v["where"]))
    for s in partial:
        print("PARTIAL property=%s %s" % (pid, s))
    for s in inconclusive[:40]:
        print("INCONCLUSIVE property=%s reason=%s" % (pid, s))
    # ---- evidence
    tot = lambda key: sum((h["stats"].get(key) or 0) for h in all_h)
    paths = sum(h["paths"] for h in all_h)
    samples = []
    for h in all_h:
        for s in (h.get("samples") or [])[:2]:
            samples.append({"harness": h["entry"], "path_condition": s, "verdict": h["verdict"]})
    for k, entry, v, rp in known_hits[:3]:
        samples.append({"harness": entry, "counterexample": (v.get("values") or [])[:12], "label": v["label"], "status": "known finding, replayed natively"})
    for entry, v, rp in violations[:3]:
        samples.append({"harness": entry, "counterexample": (v.get("values") or [])[:12], "label": v["label"], "status": "violation, replayed natively"})
    if not samples:
        samples.append({"note": "no path sample recorded"})
    lindb_funcs = sorted(k for k in funcs if "lindb" in k and "verif" not in k.split(".")[-1][:5])
    obligations = tot("Asserts") + tot("Obligations") + len(all_h)
    discharged = tot("AssertsDischarged") + tot("ObligationsDischarged") + sum(1 for h in all_h if h["verdict"] in ("held", "reach-ok"))
    ev = {
        "property_id": pid, "tier": tier, "seed": seed, "level": "model_checking",
        "coverage": {
            "states": max(1, tot("Asserts")),
            "transitions": max(1, tot("Decisions") + tot("Merges")),
            "traces_validated_against_impl": validated,
            "samples": samples[:12],
            "evaluations": max(1, tot("Queries")),
            "distinct_nontrivial": max(0, tot("Asserts") - tot("AssertsTrivial")),
            "rule": "one case = one assertion site on one explored path (symbolic state); non-trivial = the assertion was not syntactically true and went to the SMT solver",
            "obligations": obligations, "discharged": discharged,
            "checker_cmd": "gosmt (Go SSA -> SMT-LIB2) + " + ", ".join(sorted(set(h["solver"] for h in all_h))),
            "paths": paths, "queries": tot("Queries"), "unsat": tot("Unsat"), "sat": tot("Sat"), "unknown": tot("Unknown"),
            "solver_time_s": round(sum(h["solver_time_s"] for h in all_h), 2),
            "merges": tot("Merges"), "sched_points": tot("SchedPoints"), "unwinding_hits": tot("Unwinds"),
            "harnesses": [{"entry": h["entry"], "enc": h["enc"], "verdict": h["verdict"], "paths": h["paths"], "queries": h["stats"]["Queries"],
                           "asserts": h["stats"]["Asserts"], "bounds": h.get("bounds"), "exhausted": h.get("exhausted"), "wall_s": round(h["wall_s"], 2),
                           "assert_labels": h.get("assert_labels"), "note": h.get("note", "")} for h in all_h],
            "functions_encoded": lindb_funcs[:200],
            "functions_encoded_total": len(funcs),
            "exhaustive": all(h.get("exhausted") for h in all_h) and not inconclusive,
            "replayed_by_interpreted_ssa_under_recorded_schedule": interp_replays,
            "known_findings_reproduced": [k.get("id", k.get("text", "")[:60]) for k, _, _, _ in known_hits],
            "inconclusive": inconclusive[:20],
            "partial_exploration": partial,
        },
        "assumptions": assumptions_of(pid),
        "wall_s": round(wall, 2),
        "violations": len(violations),
    }
    json.dump(ev, open(os.path.join(OUT, "evidence", pid + ".json"), "w"), indent=1)
    if violations:
        return 1
    if inconclusive:
        return 2
    return 0


def assumptions_of(pid):
    p = os.path.join(ROOT, "harness", pid, "assumptions.json")
    if os.path.exists(p):
        return json.load(open(p))
    return ["see DESIGN.md section 5 for the bounds, stubs and assumptions of " + pid]


def cmd_replay(path):
    gosmt = ensure_built()
    rp = json.load(open(path))
    mpath = os.path.join(ROOT, rp["manifest"])
    m = json.load(open(mpath))
    st, out = native_replay(gosmt, mpath, m, rp["entry"], path)
    print(out[-3000:])
    print("native status:", st)
    if st.startswith("assert:") or st == "panic":
        print("VIOLATION property=%s replay=%s" % (rp["property"], path))
        return 1
    return 0


def main():
    a = sys.argv[1:]
    if not a:
        print("usage: check.py <ID> [--tier quick|thorough] | replay <path>")
        return 2
    if a[0] == "replay":
        return cmd_replay(a[1])
    pid = a[0]
    tier = os.environ.get("VERIF_TIER", "quick")
    if "--tier" in a:
        tier = a[a.index("--tier") + 1]
    seed = int(os.environ.get("VERIF_SEED", "0") or 0)
    return cmd_check(pid, tier, seed)


if __name__ == "__main__":
    sys.exit(main())
