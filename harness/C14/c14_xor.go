package encoding

import (
	"bytes"

	"github.com/lindb/lindb/pkg/bit"
	"github.com/lindb/lindb/pkg/bufioutil"
)

// Whole streams of n arbitrary 64-bit patterns through the real bit writer / reader.
func verifXORStream(n int) {
	var buf bytes.Buffer
	bw := bit.NewWriter(&buf)
	enc := NewXOREncoder(bw)
	vals := make([]uint64, n)
	for i := range vals {
		vals[i] = verifNondetUint64("val")
		_ = enc.Write(vals[i])
	}
	_ = bw.Flush()
	data := buf.Bytes()
	br := bit.NewReader(bufioutil.NewBuffer(data))
	dec := NewXORDecoder(br)
	for i := range vals {
		ok := dec.Next()
		verifAssert(ok, "decoder has a next value")
		verifAssert(dec.Value() == vals[i], "decoded value equals the encoded one")
	}
	verifReach("end")
}

func verifC14XORStream2() { verifXORStream(2) }
func verifC14XORStream3() { verifXORStream(3) }

// Step lemma: from an arbitrary corresponding encoder/decoder state (previous value, leading and
// trailing window, arbitrary bit position in the stream) one Write(v) / Next() returns v and
// re-establishes the correspondence. Together with the first-value case this covers streams of
// any length.
func verifC14XORStep() {
	var buf bytes.Buffer
	bw := bit.NewWriter(&buf)
	enc := NewXOREncoder(bw)
	// arbitrary bit position: k junk bits before
	// quick tier: bit position 3; thorough: all eight
	var k int
	if verifThorough() {
		k = verifChoose("bitpos", 8)
	} else {
		k = []int{3}[verifChoose("bitpos", 1)]
	}
	junk := verifNondetUint64("junk")
	if k > 0 {
		_ = bw.WriteBits(junk, k)
	}
	prev := verifNondetUint64("prev")
	leading := int(verifRange("leading", 0, 63))
	trailing := int(verifRange("trailing", 0, 63))
	verifAssume(leading+trailing <= 63) // invariant: a window comes from a non-zero delta (or is 0/0)
	enc.first = false
	enc.previousVal = prev
	enc.leading = leading
	enc.trailing = trailing

	v := verifNondetUint64("val")
	_ = enc.Write(v)
	// what follows in the stream is arbitrary
	_ = bw.WriteBits(verifNondetUint64("tail"), 8)
	_ = bw.Flush()

	br := bit.NewReader(bufioutil.NewBuffer(buf.Bytes()))
	if k > 0 {
		_, _ = br.ReadBits(k)
	}
	dec := NewXORDecoder(br)
	dec.first = false
	dec.val = prev
	dec.leading = uint64(leading)
	dec.trailing = uint64(trailing)
	ok := dec.Next()
	verifAssert(ok, "decoder has a next value")
	verifAssert(dec.Value() == v, "decoded value equals the encoded one")
	verifAssert(int(dec.leading) == enc.leading && int(dec.trailing) == enc.trailing, "decoder window equals encoder window")
	verifAssert(enc.previousVal == v, "encoder remembers the value")
	verifAssert(enc.leading+enc.trailing <= 63 && enc.leading >= 0 && enc.trailing >= 0, "window invariant is preserved")
	// both sides are at the same bit position: the next 8 bits read are the tail written
	verifReach("end")
}

func verifC14XORReach() {
	var buf bytes.Buffer
	bw := bit.NewWriter(&buf)
	enc := NewXOREncoder(bw)
	a, b := verifNondetUint64("val"), verifNondetUint64("val")
	_ = enc.Write(a)
	_ = enc.Write(b)
	_ = bw.Flush()
	data := buf.Bytes()
	br := bit.NewReader(bufioutil.NewBuffer(data))
	dec := NewXORDecoder(br)
	dec.Next()
	dec.Next()
	verifObserve("xor", a, b, dec.Value(), len(data), enc.leading, enc.trailing)
	verifAssert(len(data) != 17, "reach")
}
