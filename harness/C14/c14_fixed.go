package encoding

// FixedOffset: every offset list of up to 3 values < 2^32 round-trips; width flag minimal; GetBlock
// slices exactly [off_i, off_{i+1}).
func verifC14FixedOffset() {
	n := verifChoose("n", 4)
	inc := verifNondetBool("ensureIncreasing")
	enc := NewFixedOffsetEncoder(inc)
	vals := make([]int, n)
	max := 0
	for i := range vals {
		v := int(verifRange("v", 0, 1<<32-1))
		if inc && i > 0 {
			verifAssume(v >= vals[i-1])
		}
		vals[i] = v
		if v > max {
			max = v
		}
		enc.Add(v)
	}
	verifAssert(enc.Size() == n, "encoder size")
	data := enc.MarshalBinary()
	if n == 0 {
		verifAssert(len(data) == 0, "empty encoder writes nothing")
		verifReach("end")
		return
	}
	verifAssert(len(data) == enc.MarshalSize(), "MarshalSize is the written size")
	dec := NewFixedOffsetDecoder()
	left, err := dec.Unmarshal(data)
	verifAssert(err == nil, "unmarshal succeeds")
	verifAssert(len(left) == 0, "nothing left")
	verifAssert(dec.Size() == n, "decoder size")
	for i := range vals {
		got, ok := dec.Get(i)
		verifAssert(ok && got == vals[i], "Get(i) returns value i")
	}
	_, ok := dec.Get(n)
	verifAssert(!ok, "Get past the end fails")
	_, ok = dec.Get(-1)
	verifAssert(!ok, "Get(-1) fails")
	w := dec.ValueWidth()
	wantW := 1
	switch {
	case max >= 1<<24:
		wantW = 4
	case max >= 1<<16:
		wantW = 3
	case max >= 1<<8:
		wantW = 2
	}
	verifAssert(w == wantW, "width flag is minimal")
	verifReach("end")
}

func verifC14FixedOffsetReach() {
	enc := NewFixedOffsetEncoder(false)
	a := int(verifRange("v", 0, 1<<32-1))
	b := int(verifRange("v", 0, 1<<32-1))
	enc.Add(a)
	enc.Add(b)
	data := enc.MarshalBinary()
	dec := NewFixedOffsetDecoder()
	_, _ = dec.Unmarshal(data)
	got, _ := dec.Get(1)
	verifObserve("fixed", a, b, got, dec.ValueWidth(), len(data))
	verifAssert(got != 70000, "reach")
}
