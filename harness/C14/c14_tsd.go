package encoding

import (
	"math"

	"github.com/lindb/lindb/pkg/bit"
)

type verifBlock struct {
	start   uint16
	present []bool
	vals    []uint64
}

func verifMakeBlock(tag string, k int) verifBlock {
	b := verifBlock{present: make([]bool, k), vals: make([]uint64, k)}
	b.start = uint16(verifRange(tag+".start", 0, 65536-int64(k))) // the last slot may be 65535
	for i := 0; i < k; i++ {
		b.present[i] = verifNondetBool(tag + ".present")
		b.vals[i] = verifNondetUint64(tag + ".val")
	}
	return b
}

func verifEncodeBlock(e *TSDEncoder, b verifBlock) []byte {
	for i := range b.present {
		if b.present[i] {
			e.AppendTime(bit.One)
			e.AppendValue(b.vals[i])
		} else {
			e.AppendTime(bit.Zero)
		}
	}
	data, err := e.Bytes()
	verifAssert(err == nil, "encoder reports no error")
	return data
}

// sequential read of a block equals what was written
func verifCheckSequential(d *TSDDecoder, b verifBlock) {
	k := len(b.present)
	verifAssert(d.Error() == nil, "decoder accepts the block")
	verifAssert(d.StartTime() == b.start && d.EndTime() == b.start+uint16(k)-1, "slot range survives")
	for i := 0; i < k; i++ {
		verifAssert(d.Next(), "decoder has the slot")
		has := d.HasValue()
		verifAssert(has == b.present[i], "presence bit survives")
		if has {
			verifAssert(d.Slot() == b.start+uint16(i), "slot number")
			verifAssert(d.Value() == b.vals[i], "value bits survive")
		}
	}
	verifAssert(!d.Next(), "no slot after the end")
}

// slot-addressed read (GetValue in slot order) agrees with the written block
func verifCheckAddressed(d *TSDDecoder, b verifBlock) {
	k := len(b.present)
	_, ok := d.GetValue(b.start + uint16(k))
	verifAssert(!ok, "slot after the range has no value")
	for i := 0; i < k; i++ {
		f, ok := d.GetValue(b.start + uint16(i))
		verifAssert(ok == b.present[i], "GetValue presence")
		if ok {
			verifAssert(math.Float64bits(f) == b.vals[i], "GetValue bits")
		}
	}
}

func verifTSD(k int) {
	b := verifMakeBlock("b1", k)
	enc := NewTSDEncoder(b.start)
	data := verifEncodeBlock(enc, b)
	verifCheckSequential(NewTSDDecoder(data), b)
	verifCheckAddressed(NewTSDDecoder(data), b)
	verifReach("end")
}

func verifC14TSD2() { verifTSD(2) }
func verifC14TSD3() { verifTSD(3) }
func verifC14TSD4() { verifTSD(4) }

// pooled reuse: a second block written with a reused encoder and read with a reused decoder
// behaves like on fresh objects.
func verifC14TSDReuse() {
	b1 := verifMakeBlock("b1", 2)
	b2 := verifMakeBlock("b2", 2)
	enc := GetTSDEncoder(b1.start)
	d1 := append([]byte{}, verifEncodeBlock(enc, b1)...)
	ReleaseTSDEncoder(enc)
	enc2 := GetTSDEncoder(b2.start) // comes from the pool: the same object, reset
	d2 := verifEncodeBlock(enc2, b2)
	dec := GetTSDDecoder()
	dec.Reset(d1)
	verifCheckSequential(dec, b1)
	ReleaseTSDDecoder(dec)
	dec2 := GetTSDDecoder()
	dec2.Reset(d2)
	verifCheckSequential(dec2, b2)
	dec2.Reset(d2)
	verifCheckAddressed(dec2, b2)
	verifReach("end")
}

// pooled reuse after an abandoned use: slots and values were appended to an encoder but Bytes() was
// never called (an early return or a panic with the release deferred, as in the memory database's
// compaction); the encoder goes back to the pool - or is reset in place - with unflushed bits. The
// next block written with it is byte-identical to the one a fresh encoder writes, and decodes.
func verifC14TSDReuseAbandoned() {
	b1 := verifMakeBlock("b1", 2)
	b2 := verifMakeBlock("b2", 2)
	enc := GetTSDEncoder(b1.start)
	for i := range b1.present {
		if b1.present[i] {
			enc.AppendTime(bit.One)
			enc.AppendValue(b1.vals[i])
		} else {
			enc.AppendTime(bit.Zero)
		}
	}
	if verifChoose("howReused", 2) == 0 {
		ReleaseTSDEncoder(enc)
		enc = GetTSDEncoder(b2.start) // comes from the pool: the same object, reset
	} else {
		enc.RestWithStartTime(b2.start)
	}
	d2 := append([]byte{}, verifEncodeBlock(enc, b2)...)
	fresh := verifEncodeBlock(NewTSDEncoder(b2.start), b2)
	verifAssert(len(d2) == len(fresh), "a reused encoder writes what a fresh one writes (length)")
	if len(d2) == len(fresh) {
		same := true
		for i := range d2 {
			if d2[i] != fresh[i] {
				same = false
			}
		}
		verifAssert(same, "a reused encoder writes what a fresh one writes (bytes)")
	}
	dec := GetTSDDecoder()
	dec.Reset(d2)
	verifCheckSequential(dec, b2)
	verifReach("end")
}

func verifC14TSDReach() {
	b := verifMakeBlock("b1", 2)
	enc := NewTSDEncoder(b.start)
	data := verifEncodeBlock(enc, b)
	d := NewTSDDecoder(data)
	f, ok := d.GetValue(b.start)
	verifObserve("tsd", b.start, b.present[0], b.present[1], b.vals[0], b.vals[1], len(data), ok, math.Float64bits(f))
	verifAssert(len(data) != 21, "reach")
}

// multi-field stream: two field blocks (without their own time header) behind one slot range; the
// stream reader hands out each field id with a decoder positioned on that field's block, also when
// the previous field was read only partially (the reader reuses one pooled decoder).
func verifC14TSDStream() {
	b1 := verifMakeBlock("b1", 2)
	b2 := verifMakeBlock("b2", 2)
	b2.start = b1.start
	f1 := uint16(verifNondetUint64("f1"))
	f2 := uint16(verifNondetUint64("f2"))
	partial := verifNondetBool("partialReadOfFirstField")
	enc := GetTSDEncoder(b1.start)
	verifEncodeBlock(enc, b1)
	d1, err := enc.BytesWithoutTime()
	verifAssert(err == nil, "encoder reports no error")
	d1 = append([]byte{}, d1...)
	enc.RestWithStartTime(b2.start)
	verifEncodeBlock(enc, b2)
	d2, err := enc.BytesWithoutTime()
	verifAssert(err == nil, "encoder reports no error")
	d2 = append([]byte{}, d2...)
	ReleaseTSDEncoder(enc)
	w := NewTSDStreamWriter(b1.start, b1.start+1)
	w.WriteField(f1, d1)
	w.WriteField(f2, d2)
	data, err := w.Bytes()
	verifAssert(err == nil, "stream writer reports no error")
	r := NewTSDStreamReader(data)
	s, e := r.TimeRange()
	verifAssert(s == b1.start && e == b1.start+1, "stream slot range survives")
	verifAssert(r.HasNext(), "first field present")
	id, dec := r.Next()
	verifAssert(id == f1, "first field id survives")
	if partial {
		verifAssert(dec.Next(), "decoder has the slot")
		has := dec.HasValue()
		verifAssert(has == b1.present[0], "presence bit survives")
		if has {
			verifAssert(dec.Value() == b1.vals[0], "value bits survive")
		}
	} else {
		verifCheckSequential(dec, b1)
	}
	verifAssert(r.HasNext(), "second field present")
	id, dec = r.Next()
	verifAssert(id == f2, "second field id survives")
	if verifNondetBool("addressed") {
		verifCheckAddressed(dec, b2)
	} else {
		verifCheckSequential(dec, b2)
	}
	verifAssert(!r.HasNext(), "no third field")
	r.Close()
	verifReach("end")
}
