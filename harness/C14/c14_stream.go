package stream

import "bytes"

// The varint / fixed-width helpers every codec and file format of lindb is written with: what the
// writer puts is what the reader gets, for every value of every width, in a mixed sequence.
func verifC14StreamRoundTrip() {
	a := verifNondetUint64("a")
	b := verifNondetInt64("b")
	e := uint16(verifNondetUint64("e"))
	f := verifNondetUint64("f")
	g := verifNondetInt64("g")
	h := int16(verifNondetInt64("h"))
	p := verifSymBytes("p", 2)
	var buf bytes.Buffer
	w := NewBufferWriter(&buf)
	w.PutUvarint64(a)
	w.PutVarint64(b)
	w.PutUInt16(e)
	w.PutUint64(f)
	w.PutInt64(g)
	w.PutInt16(h)
	w.PutBytes(p)
	w.PutByte(p[1])
	data, err := w.Bytes()
	verifAssert(err == nil, "writer reports no error")
	verifAssert(len(data) == UvariantSize(a)+VariantSize(b)+2+8+8+2+2+1, "written length is the sum of the sizes")
	verifAssert(w.Len() == len(data), "Len is the written length")
	r := NewReader(data)
	verifAssert(r.ReadUvarint64() == a && r.Error() == nil, "uvarint64 survives")
	verifAssert(r.ReadVarint64() == b && r.Error() == nil, "varint64 survives")
	verifAssert(r.ReadUint16() == e && r.Error() == nil, "uint16 survives")
	verifAssert(r.ReadUint64() == f && r.Error() == nil, "uint64 survives")
	verifAssert(r.ReadInt64() == g && r.Error() == nil, "int64 survives")
	verifAssert(r.ReadInt16() == h && r.Error() == nil, "int16 survives")
	pos := r.Position()
	verifAssert(pos == len(data)-3, "position after the numbers")
	q := r.ReadSlice(2)
	verifAssert(len(q) == 2 && q[0] == p[0] && q[1] == p[1], "bytes survive")
	verifAssert(!r.Empty(), "one byte left")
	verifAssert(r.ReadByte() == p[1] && r.Error() == nil, "byte survives")
	verifAssert(r.Empty(), "nothing left")
	// seek back and read the tail as a copy
	r.ReadAt(pos)
	q2 := r.ReadBytes(3)
	verifAssert(r.Error() == nil && len(q2) == 3 && q2[0] == p[0] && q2[1] == p[1] && q2[2] == p[1], "ReadAt + ReadBytes")
	_ = r.ReadByte()
	verifAssert(r.Error() != nil, "reading past the end is an error")
	verifReach("end")
}

func verifC14StreamRoundTrip32() {
	c := uint32(verifNondetUint64("c"))
	d := int32(verifNondetInt64("d"))
	var buf bytes.Buffer
	w := NewBufferWriter(&buf)
	w.PutUvarint32(c)
	w.PutVarint32(d)
	w.PutUint32(c)
	w.PutInt32(d)
	data, err := w.Bytes()
	verifAssert(err == nil, "writer reports no error")
	verifAssert(len(data) == UvariantSize(uint64(c))+VariantSize(int64(d))+4+4, "written length is the sum of the sizes")
	r := NewReader(data)
	verifAssert(r.ReadUvarint32() == c && r.Error() == nil, "uvarint32 survives")
	verifAssert(r.ReadVarint32() == d && r.Error() == nil, "varint32 survives")
	verifAssert(r.ReadUint32() == c && r.Error() == nil, "uint32 survives")
	verifAssert(r.ReadInt32() == d && r.Error() == nil, "int32 survives")
	verifAssert(r.Empty(), "nothing left")
	verifReach("end")
}

// The backward-readable varint (written behind a block, decoded from the tail) and the offset-based
// decoder.
func verifC14StreamTailVarint() {
	x := verifNondetUint64("x")
	pre := verifSymBytes("pre", 2)
	var scratch [12]byte
	n := PutUvariantLittleEndian(scratch[:], x)
	verifAssert(n == UvariantSize(x), "tail varint length")
	buf := append(append([]byte{}, pre...), scratch[:n]...)
	// the decoder stops at the first byte (from the tail) without the continuation bit: the block before
	// the varint may hold anything
	got, s := UvarintLittleEndian(buf)
	verifAssert(got == x, "tail varint value survives")
	verifAssert(s == n, "tail varint reports its length")
	// forward decoder at an offset
	var buf2 bytes.Buffer
	w := NewBufferWriter(&buf2)
	w.PutBytes(pre)
	w.PutUvarint64(x)
	w.PutBytes(pre)
	data, _ := w.Bytes()
	v, l, err := ReadUvarint(data, 2)
	verifAssert(err == nil && v == x && l == UvariantSize(x), "ReadUvarint at an offset")
	verifAssert(ReadUint16(data, 2+l) == uint16(pre[0])|uint16(pre[1])<<8, "ReadUint16 little endian")
	var b8 [11]byte
	PutUint64(b8[:], 3, x)
	verifAssert(ReadUint64(b8[:], 3) == x, "PutUint64/ReadUint64")
	PutUint32(b8[:], 1, uint32(x))
	verifAssert(ReadUint32(b8[:], 1) == uint32(x), "PutUint32/ReadUint32")
	PutUint16(b8[:], 9, uint16(x))
	verifAssert(ReadUint16(b8[:], 9) == uint16(x), "PutUint16/ReadUint16")
	verifReach("end")
}

// A slice writer over a fixed buffer reports overflow instead of silently truncating.
func verifC14StreamSliceWriter() {
	x := verifNondetUint64("x")
	backing := make([]byte, 4)
	w := NewSliceWriter(backing)
	w.PutUvarint64(x)
	data, err := w.Bytes()
	if UvariantSize(x) <= 4 {
		verifAssert(err == nil, "fits: no error")
		r := NewReader(data)
		verifAssert(r.ReadUvarint64() == x, "slice writer value survives")
	} else {
		verifAssert(err != nil, "overflow of the fixed buffer is reported")
	}
	verifReach("end")
}

func verifC14StreamReach() {
	a := verifNondetUint64("a")
	var buf bytes.Buffer
	w := NewBufferWriter(&buf)
	w.PutUvarint64(a)
	w.PutVarint64(int64(a))
	data, _ := w.Bytes()
	r := NewReader(data)
	g := r.ReadUvarint64()
	verifObserve("stream", a, len(data), g, UvariantSize(a), VariantSize(int64(a)))
	verifAssert(len(data) != 5, "reach")
}
