package compress

import "bytes"

// C14 (snappy chunk codec): what the chunk writer compressed is what the chunk reader returns, for
// chunks produced one after the other by ONE reused writer (replica/channel_family.go hands a chunk
// to a channel and goes on collecting rows with the same writer) and read by one reused reader: a
// chunk handed out earlier still decodes to its own rows after the writer produced the next chunk.
func verifC14SnappyChunks() {
	w := NewSnappyWriter()
	r := NewSnappyReader()
	a := verifSymBytes("rowsA", 3)
	b := verifSymBytes("rowsB", 3)
	_, err := w.Write(a)
	verifAssert(err == nil, "write A")
	verifAssert(w.Close() == nil, "close A")
	chunkA := w.Bytes()
	_, err = w.Write(b)
	verifAssert(err == nil, "write B")
	verifAssert(w.Close() == nil, "close B")
	chunkB := w.Bytes()
	gotA, err := r.Uncompress(chunkA)
	verifAssert(err == nil, "chunk A decodes")
	gotA = append([]byte{}, gotA...)
	gotB, err := r.Uncompress(chunkB)
	verifAssert(err == nil, "chunk B decodes")
	verifAssert(bytes.Equal(gotA, a), "a chunk handed out before the writer was reused still decodes to its own rows")
	verifAssert(bytes.Equal(gotB, b), "the next chunk of a reused writer decodes to its own rows")
	verifReach("end")
}

// a reused reader after a damaged chunk (a message whose bytes were damaged on the way; the local
// replicator skips it and goes on with the same reader): the damaged chunk is rejected, and the next
// chunk the writer produced decodes to exactly its rows.
func verifC14SnappyAfterDamage() {
	w := NewSnappyWriter()
	r := NewSnappyReader()
	a := verifSymBytes("rowsA", 3)
	b := verifSymBytes("rowsB", 3)
	_, _ = w.Write(a)
	verifAssert(w.Close() == nil, "close A")
	chunkA := w.Bytes()
	_, _ = w.Write(b)
	verifAssert(w.Close() == nil, "close B")
	chunkB := w.Bytes()
	bad := append([]byte{}, chunkA...)
	switch verifChoose("damage", 3) {
	case 0: // the stream identifier
		bad[0] ^= 0xFF
	case 1: // a byte of the identifier's magic body
		bad[5] ^= 0x01
	case 2: // cut in the middle
		bad = bad[:len(bad)-2]
	}
	if verifChoose("goodChunkFirst", 2) == 1 {
		got, err := r.Uncompress(chunkA)
		verifAssert(err == nil && bytes.Equal(got, a), "a chunk decodes to its own rows")
	}
	got, err := r.Uncompress(bad)
	verifAssert(err != nil || bytes.Equal(got, a), "a damaged chunk is rejected (or still decodes to its rows)")
	got, err = r.Uncompress(chunkB)
	verifAssert(err == nil, "the chunk after a damaged one decodes")
	if err == nil {
		verifAssert(bytes.Equal(got, b), "the chunk after a damaged one decodes to its own rows")
	}
	verifReach("end")
}

func verifC14SnappyReach() {
	w := NewSnappyWriter()
	r := NewSnappyReader()
	a := verifSymBytes("rowsA", 2)
	_, _ = w.Write(a)
	_ = w.Close()
	c := w.Bytes()
	got, _ := r.Uncompress(c)
	verifObserve("snappy", a[0], a[1], len(c), len(got))
	verifAssert(a[0] != 'q', "reach")
}
