package encoding

// DeltaBitPacking: arbitrary int32 values round-trip (also on a reused encoder).
func verifDelta(n int) {
	enc := NewDeltaBitPackingEncoder()
	enc.Reset()
	vals := make([]int32, n)
	for i := range vals {
		vals[i] = verifNondetInt32("v")
		enc.Add(vals[i])
	}
	data := enc.Bytes()
	dec := NewDeltaBitPackingDecoder(data)
	for i := range vals {
		verifAssert(dec.HasNext(), "decoder has next")
		verifAssert(dec.Next() == vals[i], "delta-packed value survives")
	}
	verifAssert(!dec.HasNext(), "decoder ends")
	verifReach("end")
}

func verifC14Delta2() { verifDelta(2) }
func verifC14Delta3() { verifDelta(3) }

func verifC14DeltaReach() {
	enc := NewDeltaBitPackingEncoder()
	enc.Reset()
	a, b := verifNondetInt32("v"), verifNondetInt32("v")
	enc.Add(a)
	enc.Add(b)
	data := enc.Bytes()
	dec := NewDeltaBitPackingDecoder(data)
	x := dec.Next()
	y := dec.Next()
	verifObserve("delta", a, b, x, y, len(data))
	verifAssert(len(data) != 7, "reach")
}
