package encoding

// DeltaBitPacking: arbitrary int32 values round-trip (also on a reused encoder).
func verifDelta(n int) {
	enc := NewDeltaBitPackingEncoder()
	enc.Reset()
	vals := make([]int32, n)
	for i := range vals {
		vals[i] = verifNondetInt32("v")
		enc.Add(vals[i])
	}
	data := enc.Bytes()
	dec := NewDeltaBitPackingDecoder(data)
	for i := range vals {
		verifAssert(dec.HasNext(), "decoder has next")
		verifAssert(dec.Next() == vals[i], "delta-packed value survives")
	}
	verifAssert(!dec.HasNext(), "decoder ends")
	verifReach("end")
}

func verifC14Delta2() { verifDelta(2) }
func verifC14Delta3() { verifDelta(3) }

func verifC14DeltaReach() {
	enc := NewDeltaBitPackingEncoder()
	enc.Reset()
	a, b := verifNondetInt32("v"), verifNondetInt32("v")
	enc.Add(a)
	enc.Add(b)
	data := enc.Bytes()
	dec := NewDeltaBitPackingDecoder(data)
	x := dec.Next()
	y := dec.Next()
	verifObserve("delta", a, b, x, y, len(data))
	verifAssert(len(data) != 7, "reach")
}

// every bit width of the packed part: three values whose two deltas differ by a number of exactly w
// significant bits (w = 0..32, a case split: the width steers the bit writer / reader loops), the
// smaller delta and the first value arbitrary within one varint length class each.
func verifC14DeltaWidths() {
	// quick: the widths around the byte boundaries; thorough: every width
	w := []int{0, 1, 7, 8, 9, 15, 16, 17, 24, 31, 32}[verifChoose("widthCase", 11)]
	if verifThorough() {
		w = verifChoose("width", 33)
	}
	v0 := int32(verifRange("first", -64, 63))
	m := verifRange("minDelta", -64, 63)
	var x int64
	if w > 0 {
		x = verifRange("deltaOfDelta", int64(1)<<uint(w-1), (int64(1)<<uint(w))-1)
	}
	d1, d2 := m, m+x
	if verifNondetBool("largerDeltaFirst") {
		d1, d2 = d2, d1
	}
	v1 := int64(v0) - d1
	v2 := v1 - d2
	verifAssume(v1 >= -(1<<31) && v1 < 1<<31 && v2 >= -(1<<31) && v2 < 1<<31 && d1 >= -(1<<31) && d1 < 1<<31 && d2 >= -(1<<31) && d2 < 1<<31)
	vals := []int32{v0, int32(v1), int32(v2)}
	enc := NewDeltaBitPackingEncoder()
	enc.Reset()
	for _, v := range vals {
		enc.Add(v)
	}
	data := enc.Bytes()
	dec := NewDeltaBitPackingDecoder(data)
	for i := range vals {
		verifAssert(dec.HasNext(), "decoder has next")
		verifAssert(dec.Next() == vals[i], "delta-packed value survives")
	}
	verifAssert(!dec.HasNext(), "decoder ends")
	verifReach("end")
}
