package encoding

import "github.com/lindb/roaring"

// bitmap codec: a bitmap of up to 3 values (any 32-bit values, so one to three containers) survives
// marshal + unmarshal: same cardinality, same members, non-members stay out.
func verifC14Bitmap() {
	n := verifChoose("n", 4)
	bm := roaring.New()
	vals := make([]uint32, n)
	for i := range vals {
		vals[i] = uint32(verifNondetUint64("v"))
		bm.Add(vals[i])
	}
	probe := uint32(verifNondetUint64("probe"))
	data, err := BitmapMarshal(bm)
	verifAssert(err == nil, "marshal succeeds")
	got := roaring.New()
	_, err = BitmapUnmarshal(got, data)
	verifAssert(err == nil, "unmarshal succeeds")
	verifAssert(got.GetCardinality() == bm.GetCardinality(), "cardinality survives")
	in := false
	for i := range vals {
		verifAssert(got.Contains(vals[i]), "member survives")
		if vals[i] == probe {
			in = true
		}
	}
	verifAssert(got.Contains(probe) == in, "non-member stays out")
	verifReach("end")
}

func verifC14BitmapReach() {
	bm := roaring.New()
	a := uint32(verifNondetUint64("v"))
	b := uint32(verifNondetUint64("v"))
	bm.Add(a)
	bm.Add(b)
	data, _ := BitmapMarshal(bm)
	got := roaring.New()
	_, _ = BitmapUnmarshal(got, data)
	verifObserve("bitmap", a, b, len(data), got.GetCardinality())
	verifAssert(len(data) != 20, "reach")
}
