package version

import (
	"github.com/lindb/lindb/kv/table"
	"github.com/lindb/lindb/pkg/timeutil"
)

// C04 (exactly-once bookkeeping of a rollup): the real rollup / reference-file records (built by
// the Create... constructors, sent through Encode and Decode as the manifest does, applied to real
// versions that are cloned per commit) for one source file registered for two target intervals.
// The rollup protocol of kv/family_rollup.go is driven step by step - target commit (reference
// file + data), source commit (rollup entry of that interval removed), target commit (reference
// removed) - with the process dying after any step and the rollup starting over, the "already
// rolled up" test being the one doRollupWork makes (the file is among the target's reference files
// of the source store and family). Whatever the crash point: each target receives the file's data
// exactly once, a finished interval never removes the other interval's entry, and at the end
// nothing is left registered. (What an older version shows after a later commit is not asserted:
// Clone shares the inner maps, and nothing reads the bookkeeping of a version that is not current.)


func verifWire(l Log) Log {
	// the manifest round trip of a record
	data, err := l.Encode()
	verifAssume(err == nil)
	var out Log
	switch l.(type) {
	case *newRollupFile:
		out = &newRollupFile{}
	case *deleteRollupFile:
		out = &deleteRollupFile{}
	case *newReferenceFile:
		out = &newReferenceFile{}
	case *deleteReferenceFile:
		out = &deleteReferenceFile{}
	}
	verifAssert(out.Decode(data) == nil, "a rollup record decodes")
	return out
}

type verifBookFV struct {
	FamilyVersion
	vs StoreVersionSet
}

func (f *verifBookFV) GetVersionSet() StoreVersionSet { return f.vs }
func (f *verifBookFV) removeVersion(Version)          {}

type verifBookVS struct {
	StoreVersionSet
	next int64
}

func (v *verifBookVS) numberOfLevels() int { return 2 }
func (v *verifBookVS) newVersionID() int64 { v.next++; return v.next }

// commit = clone the current version and apply the records (as CommitFamilyEditLog does)
func verifCommit(cur Version, logs ...Log) Version {
	nv := cur.Clone()
	for _, l := range logs {
		verifWire(l).apply(nv)
	}
	return nv
}

func verifHasRef(v Version, store string, fam FamilyID, file table.FileNumber) bool {
	for _, f := range v.GetReferenceFiles(store)[fam] {
		if f == file {
			return true
		}
	}
	return false
}

func verifC04Bookkeeping() {
	vs := &verifBookVS{}
	fv := &verifBookFV{vs: vs}
	const store = "20190703"
	const srcFamily = FamilyID(3)
	file := table.FileNumber(verifRange("fileNumber", 2, 1<<40))
	intervals := []timeutil.Interval{300000, 3600000}
	source := newVersion(vs.newVersionID(), fv)
	targets := []Version{newVersion(vs.newVersionID(), fv), newVersion(vs.newVersionID(), fv)}
	received := []int{0, 0}
	// flush commit of the source family: the file is registered for every target interval
	source = verifCommit(source, CreateNewRollupFile(file, intervals[0]), CreateNewRollupFile(file, intervals[1]))
	verifAssert(len(source.GetRollupFiles()[file]) == 2, "a flushed file is registered for both target intervals")

	// one attempt of the rollup job; dies after `crashAfter` durable steps (or runs to the end)
	attempt := func(crashAfter int) bool {
		steps := 0
		rollupFiles := source.GetRollupFiles()
		for ti, interval := range intervals {
			registered := false
			for _, iv := range rollupFiles[file] {
				if iv == interval {
					registered = true
				}
			}
			if !registered {
				continue
			}
			// doRollupWork on the target family: skip what it already holds a reference for
			if !verifHasRef(targets[ti], store, srcFamily, file) {
				if steps == crashAfter {
					return false
				}
				targets[ti] = verifCommit(targets[ti], CreateNewReferenceFile(store, srcFamily, file))
				received[ti]++
				steps++
			}
		}
		// source commit: the finished intervals are removed from the registration
		if steps == crashAfter {
			return false
		}
		var logs []Log
		for _, interval := range intervals {
			for _, iv := range rollupFiles[file] {
				if iv == interval {
					logs = append(logs, CreateDeleteRollupFile(file, interval))
				}
			}
		}
		source = verifCommit(source, logs...)
		steps++
		// clean the references in the targets
		for ti := range intervals {
			if verifHasRef(targets[ti], store, srcFamily, file) {
				if steps == crashAfter {
					return false
				}
				targets[ti] = verifCommit(targets[ti], CreateDeleteReferenceFile(store, srcFamily, file))
				steps++
			}
		}
		return true
	}
	// up to two attempts die somewhere, the last one runs to the end
	for i := 0; i < 2; i++ {
		k := verifChoose("crashAfterSteps", 6)
		if k == 5 {
			break
		}
		if attempt(k) {
			break
		}
	}
	attempt(-1)
	attempt(-1) // a further trigger of the rollup finds nothing to do
	for ti := range intervals {
		verifAssert(received[ti] == 1, "every target receives the source file exactly once")
		verifAssert(!verifHasRef(targets[ti], store, srcFamily, file), "no reference is left behind")
	}
	verifAssert(len(source.GetRollupFiles()) == 0, "nothing is left registered for rollup")
	verifReach("end")
}

// a rollup of only one interval leaves the other interval registered
func verifC04BookkeepingPartial() {
	vs := &verifBookVS{}
	fv := &verifBookFV{vs: vs}
	file := table.FileNumber(verifRange("fileNumber", 2, 1<<40))
	other := table.FileNumber(verifRange("otherFile", 2, 1<<40))
	verifAssume(file != other)
	i1, i2 := timeutil.Interval(300000), timeutil.Interval(3600000)
	v := newVersion(vs.newVersionID(), fv)
	v = verifCommit(v, CreateNewRollupFile(file, i1), CreateNewRollupFile(file, i2), CreateNewRollupFile(other, i1))
	which := verifChoose("finishedInterval", 2)
	done, left := i1, i2
	if which == 1 {
		done, left = i2, i1
	}
	v2 := verifCommit(v, CreateDeleteRollupFile(file, done))
	rf := v2.GetRollupFiles()
	verifAssert(len(rf[file]) == 1 && rf[file][0] == left, "finishing one interval keeps the file registered for the other")
	verifAssert(len(rf[other]) == 1 && rf[other][0] == i1, "other files stay registered")
	// references of two source families and two stores do not mix
	t := newVersion(vs.newVersionID(), fv)
	t = verifCommit(t, CreateNewReferenceFile("20190703", 3, file), CreateNewReferenceFile("20190703", 4, other), CreateNewReferenceFile("20190704", 3, other))
	verifAssert(verifHasRef(t, "20190703", 3, file) && !verifHasRef(t, "20190703", 3, other), "references are kept per source family")
	verifAssert(verifHasRef(t, "20190703", 4, other) && verifHasRef(t, "20190704", 3, other) && !verifHasRef(t, "20190704", 3, file), "references are kept per source store")
	t2 := verifCommit(t, CreateDeleteReferenceFile("20190703", 3, file))
	verifAssert(!verifHasRef(t2, "20190703", 3, file) && verifHasRef(t2, "20190703", 4, other) && verifHasRef(t2, "20190704", 3, other), "removing one reference keeps the others")
	verifReach("end")
}
