package metricsdata

import (
	"github.com/lindb/roaring"

	"github.com/lindb/lindb/kv"
	"github.com/lindb/lindb/pkg/timeutil"
	"github.com/lindb/lindb/series/field"
)

// C04 (every target slot holds the aggregate of exactly the source slots that fall into it): the
// real metricsdata merger in ROLLUP mode (merger.Init with a kv.Rollup, prepare with the target
// range, series merger, DownSamplingMultiSeriesInto with ratio and base slot, flusher) over two or
// three source files of one metric whose slot ranges are disjoint, overlapping or nested in either
// order (the order of the inputs is a map order in doRollupWork), one sum field and one max field,
// values small whole numbers. The rollup is 10 s -> 5 min (ratio 30) from a source family that starts
// at base slot 36 of the target family. The rolled-up block is read back on the query path: every
// target slot holds the sum / maximum of exactly the source values whose slot maps to it
// (base + slot / ratio), and no other target slot holds anything.

type verifC04Rollup struct{}

func (verifC04Rollup) GetTimestamp(slot uint16) int64 { return int64(slot) * 10000 }
func (verifC04Rollup) IntervalRatio() uint16          { return 30 }
func (verifC04Rollup) CalcSlot(ts int64) uint16       { return uint16(36 + ts/300000) }
func (verifC04Rollup) BaseSlot() uint16               { return 36 }

func verifC04MergerRollup() {
	// source slot ranges (start, end) a file may cover; each file has a value at its first and last
	// slot and, when long enough, in the middle
	ranges := [][2]uint16{{100, 150}, {40, 320}, {150, 200}, {330, 359}, {0, 29}}
	nfiles := 2 + verifChoose("files", 2)
	files := make([]*verifC03File, nfiles)
	type point struct {
		slot uint16
		val  float64
	}
	var all [][]point
	for i := range files {
		rg := ranges[verifChoose("range", len(ranges))]
		f := &verifC03File{
			fields: field.Metas{{ID: 1, Type: field.SumField}, {ID: 4, Type: field.MaxField}},
			rng:    timeutil.SlotRange{Start: rg[0], End: rg[1]},
			series: []uint32{5},
		}
		n := int(rg[1]-rg[0]) + 1
		cells := make([]verifC03Cell, n)
		pts := []point{{rg[0], float64(1 + i)}, {rg[1], float64(10 * (i + 1))}, {rg[0] + uint16(n/2), float64(100 * (i + 1))}}
		for _, p := range pts {
			cells[p.slot-rg[0]] = verifC03Cell{present: true, val: p.val}
		}
		// the cells that really hold a value (first / last / middle may coincide)
		var held []point
		for k, c := range cells {
			if c.present {
				held = append(held, point{rg[0] + uint16(k), c.val})
			}
		}
		all = append(all, held)
		f.data = [][][]verifC03Cell{{cells, cells}}
		files[i] = f
	}
	blocks := make([][]byte, nfiles)
	for i, f := range files {
		blocks[i] = verifC03Flush(f)
	}
	sink := kv.NewNopFlusher()
	m, err := NewMerger(sink)
	verifAssume(err == nil)
	m.Init(map[string]interface{}{kv.RollupContext: verifC04Rollup{}})
	verifAssert(m.Merge(1, blocks) == nil, "the rollup merge succeeds")
	merged := append([]byte{}, sink.Bytes()...)
	obs, _, ok := verifC03Read(merged, files[0].fields, roaring.BitmapOf(5))
	verifAssert(ok, "reader accepts the rolled-up block")
	if !ok {
		return
	}
	// reference: per target slot the sum and the maximum of the source values that map to it
	sum := map[uint16]float64{}
	max := map[uint16]float64{}
	for _, held := range all {
		for _, p := range held {
			t := 36 + p.slot/30
			sum[t] += p.val
			if v, ok := max[t]; !ok || p.val > v {
				max[t] = p.val
			}
		}
	}
	for t := uint16(0); t <= 60; t++ {
		gs, okS := obs[verifC03Key(5, 1, t)]
		gm, okM := obs[verifC03Key(5, 4, t)]
		ws, want := sum[t]
		verifAssert(okS == want && okM == want, "a target slot holds a value exactly when a source slot falls into it")
		if want && okS && okM {
			verifAssert(gs == ws, "a target slot of a sum field holds the sum of exactly the source slots that fall into it")
			verifAssert(gm == max[t], "a target slot of a max field holds the maximum of exactly the source slots that fall into it")
		}
	}
	verifReach("end")
}
