package kv

import (
	"fmt"
	"time"

	"go.uber.org/atomic"

	"github.com/lindb/lindb/kv/table"
	"github.com/lindb/lindb/kv/version"
	"github.com/lindb/lindb/pkg/timeutil"
)

// C04 (a source file contributes to every target exactly once - the rollup protocol end to end):
// the real family.rollup(), family.doRollupWork(), family.cleanReferenceFiles(),
// family.deleteObsoleteFiles() and family.commitEditLog() of a source family (day store, 10s) and
// two target families (month store 5m, year store 1h), over real versions and real edit logs
// (kv/version seam: clone + wire round trip + apply per commit). Two source files are registered
// for both targets; each of them is either still in level 0 of the source family or was moved to
// level 1 by an ordinary compaction (store.compact starts compaction and rollup side by side) - its
// table file is then still on disk, kept there by deleteObsoleteFiles because it is registered.
// The process dies before any one commit (nothing later is durable, nothing later is deleted), is
// restarted, and the rollup runs again; finally a further trigger.
//
// Stand-ins: the stores (commit = the seam's commit on the family's current version; names), the
// family versions (current version, snapshot, file readers = "the table file is on disk"), the
// compact job handed to doRollupWork (it opens a reader for every input as makeInputIterator does,
// adds one output file and commits the compaction's edit log through the real family.commitEditLog;
// the inputs of a committed job are what the target received).

type verifRWWorld struct {
	fvs      map[string]*verifRWFV // family path -> version state
	disk     map[string]map[table.FileNumber]bool
	commits  int
	crashAt  int
	dead     bool
	received map[string]map[table.FileNumber]int
	nextFile table.FileNumber
}

type verifRWFV struct {
	version.FamilyVersion
	w       *verifRWWorld
	path    string
	current version.Version
}

func (v *verifRWFV) GetLiveRollupFiles() map[table.FileNumber][]timeutil.Interval {
	return v.current.GetRollupFiles()
}
func (v *verifRWFV) GetLiveReferenceFiles(store string) map[version.FamilyID][]table.FileNumber {
	return v.current.GetReferenceFiles(store)
}
func (v *verifRWFV) GetAllActiveFiles() []*version.FileMeta { return v.current.GetAllFiles() }
func (v *verifRWFV) GetSnapshot() version.Snapshot {
	return &verifRWSnapshot{w: v.w, path: v.path, current: v.current}
}

type verifRWSnapshot struct {
	version.Snapshot
	w       *verifRWWorld
	path    string
	current version.Version
}

type verifRWReader struct{ table.Reader }

func (s *verifRWSnapshot) GetCurrent() version.Version { return s.current }
func (s *verifRWSnapshot) Close()                      {}
func (s *verifRWSnapshot) GetReader(n table.FileNumber) (table.Reader, error) {
	if !s.w.disk[s.path][n] {
		return nil, fmt.Errorf("open %s/%s: no such file", s.path, version.Table(n))
	}
	return &verifRWReader{}, nil
}

type verifRWStore struct {
	Store
	w        *verifRWWorld
	name     string
	opt      StoreOption
	families map[string]Family
}

func (s *verifRWStore) Name() string        { return s.name }
func (s *verifRWStore) Option() StoreOption { return s.opt }
func (s *verifRWStore) CreateFamily(name string, _ FamilyOption) (Family, error) {
	f, ok := s.families[name]
	if !ok {
		return nil, fmt.Errorf("unexpected target family %s in %s", name, s.name)
	}
	return f, nil
}
func (s *verifRWStore) evictFamilyFile(table.FileNumber) {}
func (s *verifRWStore) commitFamilyEditLog(family string, e version.EditLog) error {
	w := s.w
	if w.dead {
		return fmt.Errorf("process is dead")
	}
	if w.commits == w.crashAt {
		w.dead = true
		return fmt.Errorf("process dies before this commit")
	}
	w.commits++
	fv := w.fvs[s.name+"/"+family]
	nv, err := version.VerifCommit(fv.current, e)
	if err != nil {
		return err
	}
	fv.current = nv
	return nil
}

type verifRWJob struct {
	w      *verifRWWorld
	family Family
	path   string
	state  *compactionState
}

func (j *verifRWJob) Run() error {
	inputs := j.state.compaction.GetInputs()[0]
	for _, in := range inputs {
		if _, err := j.state.snapshot.GetReader(in.GetFileNumber()); err != nil {
			return err
		}
	}
	if len(inputs) > 0 {
		j.w.nextFile++
		j.state.compaction.AddFile(0, version.NewFileMeta(j.w.nextFile, 0, 10, 100))
	}
	before := j.w.commits
	j.family.commitEditLog(j.state.compaction.GetEditLog())
	if j.w.commits > before {
		// durable: the target now holds the data of these inputs
		j.w.disk[j.path][j.w.nextFile] = true
		for _, in := range inputs {
			j.w.received[j.path][in.GetFileNumber()]++
		}
	}
	return nil
}

const (
	verifRWSource = "/data/db/shard/1/segment/day/20190702"
	verifRWMonth  = "/data/db/shard/1/segment/month/201907"
	verifRWYear   = "/data/db/shard/1/segment/year/2019"
)

// (re)start: fresh family objects over the durable state
func verifRWStart(w *verifRWWorld) (source *family, targets []*family) {
	w.dead = false
	mk := func(store *verifRWStore, name string, id int) *family {
		path := store.name + "/" + name
		f := &family{
			name:           name,
			store:          store,
			familyPath:     path,
			option:         FamilyOption{ID: id, Name: name},
			familyVersion:  w.fvs[path],
			lastRollupTime: atomic.NewInt64(0),
			maxFileSize:    1 << 20,
		}
		store.families[name] = f
		return f
	}
	// doRollupWork creates its job through the package-level seam
	newCompactJobFunc = func(fam Family, state *compactionState, _ Rollup) CompactJob {
		return &verifRWJob{w: w, family: fam, path: fam.familyInfo(), state: state}
	}
	src := &verifRWStore{w: w, name: verifRWSource, families: map[string]Family{},
		opt: StoreOption{Source: 10000, Rollup: []timeutil.Interval{300000, 3600000}}}
	month := &verifRWStore{w: w, name: verifRWMonth, families: map[string]Family{}}
	year := &verifRWStore{w: w, name: verifRWYear, families: map[string]Family{}}
	sm := GetStoreManager().(*storeManager)
	sm.stores = map[string]Store{src.name: src, month.name: month, year.name: year}
	source = mk(src, "13", 3)
	targets = []*family{mk(month, "2", 1), mk(year, "7", 1)}
	return source, targets
}

func verifC04RollupProtocol() {
	time.Local = time.FixedZone("verif", 0)
	w := &verifRWWorld{fvs: map[string]*verifRWFV{}, disk: map[string]map[table.FileNumber]bool{},
		received: map[string]map[table.FileNumber]int{}, crashAt: -1, nextFile: 100}
	paths := []string{verifRWSource + "/13", verifRWMonth + "/2", verifRWYear + "/7"}
	for _, p := range paths {
		w.fvs[p] = &verifRWFV{w: w, path: p, current: version.VerifNewVersion()}
		w.disk[p] = map[table.FileNumber]bool{}
		w.received[p] = map[table.FileNumber]int{}
	}
	listDirFunc = func(dir string) ([]string, error) {
		var names []string
		for n, ok := range w.disk[dir] {
			if ok {
				names = append(names, version.Table(n))
			}
		}
		return names, nil
	}
	removeDirFunc = func(path string) error {
		if w.dead {
			return nil // a dead process deletes nothing
		}
		for dir, files := range w.disk {
			for n := range files {
				if path == dir+"/"+version.Table(n) {
					files[n] = false
				}
			}
		}
		return nil
	}
	// the source family's history so far: two flushes (files 2 and 4, registered for both target
	// intervals), then possibly an ordinary compaction of one or both of them into level 1 (file 6)
	files := []table.FileNumber{2, 4}
	srcPath := paths[0]
	e := version.NewEditLog(3)
	for _, n := range files {
		e.Add(version.CreateNewFile(0, version.NewFileMeta(n, 1, 9, 50)))
		e.Add(version.CreateNewRollupFile(n, 300000))
		e.Add(version.CreateNewRollupFile(n, 3600000))
		w.disk[srcPath][n] = true
	}
	cur, err := version.VerifCommit(w.fvs[srcPath].current, e)
	verifAssume(err == nil)
	compacted := verifChoose("compactedIntoLevel1", 4) // bit i: file i was compacted before the rollup looks
	if compacted != 0 {
		e := version.NewEditLog(3)
		for i, n := range files {
			if compacted&(1<<uint(i)) != 0 {
				e.Add(version.NewDeleteFile(0, n))
			}
		}
		e.Add(version.CreateNewFile(1, version.NewFileMeta(6, 1, 9, 90)))
		w.disk[srcPath][6] = true
		cur, err = version.VerifCommit(cur, e)
		verifAssume(err == nil)
	}
	w.fvs[srcPath].current = cur
	verifAssert(len(cur.GetRollupFiles()) == 2, "both files are registered for rollup")

	// first run of the rollup job: the process may die before any one of its commits
	w.crashAt = verifChoose("dieBeforeCommit", 7) - 1 // -1: it does not die (a run has at most 5 commits)
	source, _ := verifRWStart(w)
	if w.crashAt >= 0 {
		// the compaction's own cleanup may have run before the rollup (it keeps registered files)
		source.deleteObsoleteFiles()
	}
	source.rollup()
	source.condition.Wait()
	died := w.dead
	// restart, rollup again until nothing is registered (one run suffices), then a further trigger
	w.crashAt = -1
	for round := 0; round < 2; round++ {
		source, _ = verifRWStart(w)
		source.rollup()
		source.condition.Wait()
	}
	verifAssert(w.crashAt < 0 || died || w.commits > 0, "the run reached a commit")
	for _, n := range files {
		verifAssert(w.received[paths[1]][n] == 1, "the 5m target receives every registered source file exactly once")
		verifAssert(w.received[paths[2]][n] == 1, "the 1h target receives every registered source file exactly once")
	}
	verifAssert(len(w.fvs[srcPath].current.GetRollupFiles()) == 0, "nothing is left registered after a complete rollup")
	if !died {
		// (when the process dies between the source commit and the cleaning of the references, the
		// references stay: the source has nothing registered any more, so nothing cleans them. File
		// numbers are not reused, a stale reference never hides a later file - not asserted.)
		for _, p := range paths[1:] {
			verifAssert(len(w.fvs[p].current.GetAllReferenceFiles()) == 0, "no reference is left in a target after an undisturbed rollup")
		}
	}
	// what the source family can still read is on disk
	for _, fm := range w.fvs[srcPath].current.GetAllFiles() {
		verifAssert(w.disk[srcPath][fm.GetFileNumber()], "a file of the current version is never deleted")
	}
	verifReach("end")
}

func verifC04RollupProtocolReach() {
	time.Local = time.FixedZone("verif", 0)
	w := &verifRWWorld{fvs: map[string]*verifRWFV{}, disk: map[string]map[table.FileNumber]bool{},
		received: map[string]map[table.FileNumber]int{}, crashAt: -1, nextFile: 100}
	paths := []string{verifRWSource + "/13", verifRWMonth + "/2", verifRWYear + "/7"}
	for _, p := range paths {
		w.fvs[p] = &verifRWFV{w: w, path: p, current: version.VerifNewVersion()}
		w.disk[p] = map[table.FileNumber]bool{}
		w.received[p] = map[table.FileNumber]int{}
	}
	listDirFunc = func(dir string) ([]string, error) { return nil, nil }
	e := version.NewEditLog(3)
	e.Add(version.CreateNewFile(0, version.NewFileMeta(2, 1, 9, 50)))
	e.Add(version.CreateNewRollupFile(2, 300000))
	w.disk[paths[0]][2] = true
	cur, err := version.VerifCommit(w.fvs[paths[0]].current, e)
	verifAssume(err == nil)
	w.fvs[paths[0]].current = cur
	_ = verifChoose("x", 2)
	source, _ := verifRWStart(w)
	source.rollup()
	source.condition.Wait()
	verifAssert(w.received[paths[1]][2] == 0, "reach")
}
