package kv

import (
	"fmt"
	"strconv"

	"go.uber.org/atomic"

	"github.com/lindb/lindb/kv/table"
	"github.com/lindb/lindb/kv/version"
	"github.com/lindb/lindb/pkg/option"
	"github.com/lindb/lindb/pkg/timeutil"
)

// C04 (the real family.rollup): the source family of a day-type store - segment directory
// "YYYYMMDD", family name = local hour - has one file registered for rollup to a coarser interval.
// The real family.rollup() parses the segment name, computes the source family start, picks the
// target store (by name, from the store manager) and the target family and hands a Rollup to the
// target family's doRollupWork. Stand-ins: the stores (names, options, CreateFamily records the
// family name), the family version (live rollup files) and the target family (records the Rollup it
// is given). Checked: the target store / family are the ones whose time range contains the source
// family, and the Rollup handed over maps every source slot to the target slot that contains its
// timestamp.

type verifC04Store struct {
	Store
	name    string
	opt     StoreOption
	created []string
	target  *verifC04Target
}

func (s *verifC04Store) Name() string        { return s.name }
func (s *verifC04Store) Option() StoreOption { return s.opt }
func (s *verifC04Store) CreateFamily(name string, _ FamilyOption) (Family, error) {
	s.created = append(s.created, name)
	return s.target, nil
}
func (s *verifC04Store) commitFamilyEditLog(string, version.EditLog) error { return nil }
func (s *verifC04Store) evictFamilyFile(table.FileNumber)                  {}

type verifC04Target struct {
	Family
	rollups []Rollup
	files   [][]table.FileNumber
}

func (t *verifC04Target) doRollupWork(_ Family, r Rollup, files []table.FileNumber) error {
	t.rollups = append(t.rollups, r)
	t.files = append(t.files, files)
	return nil
}
func (t *verifC04Target) cleanReferenceFiles(Family, []table.FileNumber) {}

type verifC04FV struct {
	version.FamilyVersion
	rollupFiles map[table.FileNumber][]timeutil.Interval
}

func (v *verifC04FV) GetLiveRollupFiles() map[table.FileNumber][]timeutil.Interval {
	return v.rollupFiles
}
func (v *verifC04FV) GetAllActiveFiles() []*version.FileMeta { return nil }

func verifFamilyRollup(source, target int64) {
	verifZone()
	lt := verifTimestamp("t", true) // local civil day, concrete on a path: it names the segment directory
	src := timeutil.Interval(source)
	tgt := timeutil.Interval(target)
	hours := []int{0, 13, 23}
	hour := hours[verifChoose("sourceHour", len(hours))]
	segment := fmt.Sprintf("%04d%02d%02d", lt.year, lt.month+1, lt.dayOfMonth+1)
	srcStore := &verifC04Store{name: "/data/db/shard/1/segment/day/" + segment, opt: StoreOption{Source: src}}
	// the target store that holds the source family's time: month type "YYYYMM", year type "YYYY"
	tgtSegment := fmt.Sprintf("%04d%02d", lt.year, lt.month+1)
	if tgt.Type() == timeutil.Year {
		tgtSegment = fmt.Sprintf("%04d", lt.year)
	}
	tgtFamily := &verifC04Target{}
	tgtStore := &verifC04Store{name: "/data/db/shard/1/segment/" + tgt.Type().String() + "/" + tgtSegment, target: tgtFamily}
	sm := GetStoreManager().(*storeManager)
	sm.stores = map[string]Store{tgtStore.name: tgtStore}
	listDirFunc = func(string) ([]string, error) { return nil, nil }
	f := &family{
		name:           strconv.Itoa(hour),
		store:          srcStore,
		familyVersion:  &verifC04FV{rollupFiles: map[table.FileNumber][]timeutil.Interval{7: {tgt}}},
		lastRollupTime: atomic.NewInt64(0),
	}
	f.rollup()
	f.condition.Wait()

	familyStartTime := verifMidnight(lt.dayNumber) + int64(hour)*3600000
	verifAssert(len(tgtFamily.rollups) == 1, "the rollup job reaches the target store that contains the source family")
	if len(tgtFamily.rollups) != 1 {
		return
	}
	verifAssert(len(tgtFamily.files[0]) == 1 && tgtFamily.files[0][0] == 7, "the registered file is handed to the rollup job")
	// target family: month type = day of the month, year type = month of the year
	wantFamily := int(lt.dayOfMonth + 1)
	if tgt.Type() == timeutil.Year {
		wantFamily = int(lt.month + 1)
	}
	verifAssert(len(tgtStore.created) == 1 && tgtStore.created[0] == strconv.Itoa(wantFamily), "the target family is the one that contains the source family")
	r := tgtFamily.rollups[0]
	ratio := r.IntervalRatio()
	verifAssert(int64(ratio) == target/source, "interval ratio")
	// start of the target family in the reference model
	targetFamilyStart := verifMidnight(lt.dayNumber)
	if tgt.Type() == timeutil.Year {
		targetFamilyStart = verifMidnight(lt.monthStart)
	}
	nSlots := int64(3600000) / source
	slot := uint16(verifRange("sourceSlot", 0, nSlots-1))
	ts := r.GetTimestamp(slot)
	verifAssert(ts == familyStartTime+int64(slot)*source, "a source slot's timestamp is the source family start plus slot times interval")
	got := int64(r.BaseSlot() + slot/ratio)
	verifAssert(int64(r.CalcSlot(ts)) == got, "base slot + source slot / ratio is the rollup's slot of the timestamp")
	base := targetFamilyStart + got*target
	verifAssert(base <= ts && ts-base < target, "the target slot's time span, counted from the target family start, contains the timestamp")
	verifReach("end")
}

func verifC04FamilyRollupMonth() { verifFamilyRollup(10000, 300000) }
func verifC04FamilyRollupYear()  { verifFamilyRollup(10000, 3600000) }

// The arithmetic harnesses assume that a target interval is a multiple of the source (write)
// interval. That is what the database option has to guarantee: whatever intervals pass the real
// option.Intervals.IsValid, every one of them is a multiple of the smallest.
func verifC04IntervalsValid() {
	n := 2
	if verifThorough() {
		n = 2 + verifChoose("n", 2)
	}
	ivs := make(option.Intervals, n)
	for i := range ivs {
		ivs[i] = option.Interval{Interval: timeutil.Interval(verifRange("interval", 1, 366*86400000)), Retention: timeutil.Interval(86400000)}
	}
	if ivs.IsValid() != nil {
		verifReach("end")
		return
	}
	smallest := ivs[0].Interval
	for _, iv := range ivs {
		if iv.Interval < smallest {
			smallest = iv.Interval
		}
	}
	for _, iv := range ivs {
		verifAssert(iv.Interval%smallest == 0, "an accepted rollup interval is a multiple of the write interval")
	}
	verifReach("end")
}
