package version

// Seam for the C04 rollup-protocol harness in package kv: real versions (newVersion, Clone) and the
// real edit log (marshal, unmarshal, apply) without a version set behind them. A commit here is
// what CommitFamilyEditLog does after the manifest write: clone the current version, apply the
// record - the record having gone through its wire form as it does on the way into the manifest.

type verifSeamFamilyVersion struct {
	FamilyVersion
	vs StoreVersionSet
}

func (f *verifSeamFamilyVersion) GetVersionSet() StoreVersionSet { return f.vs }
func (f *verifSeamFamilyVersion) removeVersion(Version)          {}
func (f *verifSeamFamilyVersion) GetID() FamilyID                { return 3 }

type verifSeamVersionSet struct {
	StoreVersionSet
	next int64
}

func (v *verifSeamVersionSet) numberOfLevels() int { return 2 }
func (v *verifSeamVersionSet) newVersionID() int64 { v.next++; return v.next }

var verifSeamVS = &verifSeamVersionSet{}

func VerifNewVersion() Version {
	return newVersion(verifSeamVS.newVersionID(), &verifSeamFamilyVersion{vs: verifSeamVS})
}

func VerifCommit(cur Version, e EditLog) (Version, error) {
	data, err := e.marshal()
	if err != nil {
		return cur, err
	}
	decoded := newEmptyEditLog()
	if err := decoded.unmarshal(data); err != nil {
		return cur, err
	}
	nv := cur.Clone()
	for _, l := range decoded.(*editLog).logs {
		if _, ok := l.(StoreLog); ok {
			continue // next file number / sequence records concern the version set
		}
		l.apply(nv)
	}
	return nv, nil
}
