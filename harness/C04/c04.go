package kv

import (
	"github.com/lindb/lindb/pkg/timeutil"
)

// C04 (slot arithmetic of a rollup): for a source family (day-type interval, one family per local
// hour) anywhere in the window and a coarser target interval, every source slot lands in the target
// slot that contains its timestamp, inside the target family / segment that contains it.
func verifRollupSlots(source, target int64, concreteDay bool) {
	verifZone()
	lt := verifTimestamp("t", concreteDay)
	src := timeutil.Interval(source)
	tgt := timeutil.Interval(target)
	verifAssert(tgt%src == 0, "harness: target is a multiple of the source interval (assumed configuration)")
	scalc := src.Calculator()
	tcalc := tgt.Calculator()
	// the source family (one local hour of a day-type interval). Its start time is taken in the closed
	// form that C13 proves equal to the source calculator's result (verifC13DayFamily: family start =
	// local midnight + hour), so that the calendar is evaluated once per obligation here.
	hour := verifRange("sourceHour", 0, 23)
	familyStartTime := verifMidnight(lt.dayNumber) + hour*3600000
	_ = scalc
	// target family selection, as family.rollup() does it
	tSegmentTime := tcalc.CalcSegmentTime(familyStartTime)
	tFamilyTime := tcalc.CalcFamily(familyStartTime, tSegmentTime)
	fSTime := tcalc.CalcFamilyStartTime(tSegmentTime, tFamilyTime)
	fETime := tcalc.CalcFamilyEndTime(fSTime)
	r := newRollup(src, tgt, familyStartTime, fSTime)
	ratio := r.IntervalRatio()
	verifAssert(int64(ratio) == target/source, "interval ratio")
	// an arbitrary slot of the source family (one hour of source slots)
	nSlots := int64(3600000) / source
	slot := uint16(verifRange("sourceSlot", 0, nSlots-1))
	ts := r.GetTimestamp(slot)
	verifAssert(ts >= familyStartTime && ts < familyStartTime+3600000, "source slot timestamp lies in the source family")
	verifAssert(fSTime <= ts && ts <= fETime, "the chosen target family contains the source slot's timestamp")
	verifAssert(tSegmentTime <= ts, "the chosen target segment starts before the timestamp")
	want := r.CalcSlot(ts)
	got := r.BaseSlot() + slot/ratio
	verifAssert(got == want, "target slot = base slot + source slot / ratio is the target calculator's slot of the timestamp")
	// and that target slot really contains the timestamp
	base := fSTime + int64(want)*target
	verifAssert(base <= ts && ts-base < target, "the target slot's time span contains the source slot's timestamp")
	verifReach("end")
}

// day -> month type (10s -> 5m, 1m -> 30m) and day -> year type (10s -> 1h, 1m -> 4h)
func verifC04DayToMonth()  { verifRollupSlots(10000, 300000, true) }
func verifC04DayToMonth2() { verifRollupSlots(60000, 1800000, true) }
func verifC04DayToYear()   { verifRollupSlots(10000, 3600000, true) }
func verifC04DayToYear2()  { verifRollupSlots(60000, 4*3600000, true) }

func verifC04Reach() {
	verifZone()
	lt := verifTimestamp("t", false)
	src := timeutil.Interval(10000)
	tgt := timeutil.Interval(300000)
	fs := src.Calculator().CalcFamilyTime(lt.t)
	tfs := tgt.Calculator().CalcFamilyTime(fs)
	r := newRollup(src, tgt, fs, tfs)
	verifObserve("rollup", lt.t, fs, tfs, r.BaseSlot(), r.IntervalRatio())
	verifAssert(fs != fs, "reach")
}
