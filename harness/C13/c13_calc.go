package timeutil

import (
	commontimeutil "github.com/lindb/common/pkg/timeutil"
)

func verifCalc(typ IntervalType) IntervalCalculator {
	switch typ {
	case Day:
		return Interval(10 * commontimeutil.OneSecond).Calculator()
	case Month:
		return Interval(5 * commontimeutil.OneMinute).Calculator()
	default:
		return Interval(commontimeutil.OneHour).Calculator()
	}
}

func verifMaxFamilyLen(typ IntervalType) int64 {
	switch typ {
	case Day:
		return commontimeutil.OneHour
	case Month:
		return commontimeutil.OneDay
	default:
		return 31 * commontimeutil.OneDay
	}
}

// verifFamilyProps: segment / family of one calculator against the reference (local civil time).
//
// Because the expected segment and family bounds are functions of the partition cell only, the
// closed forms imply: the family range contains t; every timestamp of the cell maps to the same
// family (idempotence); consecutive families tile the axis (end+1 = next start); a family lies
// inside its segment. The direct statements are asserted as well.
func verifFamilyProps(typ IntervalType) {
	verifZone()
	lt := verifTimestamp("t", typ != Day)
	t := lt.t
	calc := verifCalc(typ)

	seg := calc.CalcSegmentTime(t)
	fam := calc.CalcFamily(t, seg)
	fs := calc.CalcFamilyStartTime(seg, fam)
	fe := calc.CalcFamilyEndTime(fs)
	ft := calc.CalcFamilyTime(t)

	var wantSeg, wantFs, wantFe, wantSegEnd int64
	switch typ {
	case Day: // segment = local day, family = local hour of that day
		wantSeg = verifMidnight(lt.dayNumber)
		wantSegEnd = verifMidnight(lt.dayNumber+1) - 1
		hour := lt.secOfDay / 3600
		wantFs = wantSeg + hour*commontimeutil.OneHour
		wantFe = wantFs + commontimeutil.OneHour - 1
		verifAssert(int64(fam) == hour, "day: family number is the local hour")
	case Month: // segment = local month, family = local day
		wantSeg = verifMidnight(lt.monthStart)
		wantSegEnd = verifMidnight(lt.monthStart+lt.monthLen) - 1
		wantFs = verifMidnight(lt.dayNumber)
		wantFe = verifMidnight(lt.dayNumber+1) - 1
		verifAssert(int64(fam) == lt.dayOfMonth+1, "month: family number is the local day of the month")
	default: // segment = local year, family = local month
		y0 := verifDaysBeforeYear(lt.year)
		wantSeg = verifMidnight(y0)
		wantSegEnd = verifMidnight(verifDaysBeforeYear(lt.year+1)) - 1
		wantFs = verifMidnight(lt.monthStart)
		wantFe = verifMidnight(lt.monthStart+lt.monthLen) - 1
		verifAssert(int64(fam) == lt.month+1, "year: family number is the local month")
	}
	verifAssert(seg == wantSeg, "segment start is the reference segment start")
	verifAssert(fs == wantFs, "family start is the reference family start")
	verifAssert(fe == wantFe, "family end is the instant before the next reference family start")
	verifAssert(ft == fs, "CalcFamilyTime agrees with CalcFamily+CalcFamilyStartTime")
	// direct statements of the property
	verifAssert(seg <= t && t <= wantSegEnd, "segment contains t")
	verifAssert(fs <= t && t <= fe, "family range contains t")
	verifAssert(seg <= fs && fe <= wantSegEnd, "family lies inside its segment")
	verifAssert(fe-fs+1 <= verifMaxFamilyLen(typ) && fe >= fs, "family length bounded")
	verifReach("end")
}

func verifC13DayFamily()   { verifFamilyProps(Day) }
func verifC13MonthFamily() { verifFamilyProps(Month) }
func verifC13YearFamily()  { verifFamilyProps(Year) }

// verifNextFamily: the instant after a family's end is the start of a family (no gap), evaluated
// with the real code on fe+1.
func verifNextFamily(typ IntervalType) {
	verifZone()
	lt := verifTimestamp("t", typ != Day)
	calc := verifCalc(typ)
	fs := calc.CalcFamilyTime(lt.t)
	fe := calc.CalcFamilyEndTime(fs)
	verifAssume(fe+1 < verifMaxTS-86400000)
	verifAssert(calc.CalcFamilyTime(fe+1) == fe+1, "the instant after a family's end starts the next family")
	verifAssert(calc.CalcFamilyTime(fs) == fs, "a family start maps to itself")
	verifReach("end")
}

func verifC13DayNext()   { verifNextFamily(Day) }
func verifC13MonthNext() { verifNextFamily(Month) }
func verifC13YearNext()  { verifNextFamily(Year) }

// verifSlots: slot arithmetic, for an arbitrary timestamp inside an arbitrary family. The relation
// between t and its family start is the contract proved by verifFamilyProps (fs <= t <= fe,
// family length), so the calendar is not evaluated again here.
func verifSlots(typ IntervalType) {
	var vals []int64
	switch typ {
	case Day:
		vals = []int64{1000, 5000, 10000, 30000, 60000, 120000, 299000}
	case Month:
		vals = []int64{300000, 600000, 900000, 1800000, 3599000}
	default:
		vals = []int64{3600000, 4 * 3600000, 12 * 3600000, 86400000}
	}
	interval := vals[verifChoose("interval", len(vals))]
	iv := Interval(interval)
	verifAssert(iv.Type() == typ, "interval has the expected type")
	calc := iv.Calculator()
	fs := verifRange("familyStart", 0, verifMaxTS)
	t := verifRange("t", 0, verifMaxTS)
	verifAssume(fs <= t && t-fs < verifMaxFamilyLen(typ))
	slot := calc.CalcSlot(t, fs, interval)
	base := fs + int64(slot)*interval
	verifAssert(slot >= 0 && slot < 65536, "slot fits uint16")
	verifAssert(base <= t && t-base < interval, "slot*interval + family start is within one interval below t")
	verifAssert(CalcTimestamp(fs, slot, iv) == base, "CalcTimestamp inverts CalcSlot")
	t2 := verifRange("t2", 0, verifMaxTS)
	verifAssume(t <= t2 && t2-fs < verifMaxFamilyLen(typ))
	verifAssert(calc.CalcSlot(t2, fs, interval) >= slot, "slots are monotone inside a family")
	verifReach("end")
}

func verifC13DaySlots()   { verifSlots(Day) }
func verifC13MonthSlots() { verifSlots(Month) }
func verifC13YearSlots()  { verifSlots(Year) }

// reach twin (also the translator-validation vector: the observed values must agree natively)
func verifC13FamilyReach() {
	verifZone()
	typ := []IntervalType{Day, Month, Year}[verifChoose("type", 3)]
	lt := verifTimestamp("t", false)
	calc := verifCalc(typ)
	fs := calc.CalcFamilyTime(lt.t)
	fe := calc.CalcFamilyEndTime(fs)
	slot := calc.CalcSlot(lt.t, fs, 10000)
	verifObserve("family", lt.t, fs, fe, slot)
	verifAssert(fs != fs, "reach")
}
