package timeutil

import "time"

const verifMaxTS = 4102444800000 // 2100-01-01T00:00:00Z in ms

// verifZone installs a fixed-offset local zone with an arbitrary offset (multiple of 15 minutes in [-12h, +14h]).
func verifZone() int64 {
	q := verifRange("zoneQuarterHours", -48, 56)
	off := int(q) * 900
	time.Local = time.FixedZone("verif", off)
	return int64(off) * 1000
}

func verifIsLeap(y int64) bool { return y%4 == 0 && (y%100 != 0 || y%400 == 0) }

// verifDaysBeforeYear is the number of days from 1970-01-01 to y-01-01 (proleptic Gregorian).
func verifDaysBeforeYear(y int64) int64 {
	var d int64
	for i := int64(1970); i < y; i++ {
		d += 365
		if verifIsLeap(i) {
			d++
		}
	}
	return d
}

// verifTimestamp returns an arbitrary millisecond timestamp in [1970-01-01, 2100-01-01) UTC.
// The window is partitioned by calendar year (one path per year, the engine's case split); inside
// a year the day, the second of the day and the millisecond are symbolic. The partition is
// exhaustive: D(1970)=0, D(y+1)=D(y)+len(y) by construction, and D(2100) days = verifMaxTS
// (asserted).
func verifTimestamp(tag string) int64 {
	verifAssert(verifDaysBeforeYear(2100)*86400000 == verifMaxTS, "partition covers the window")
	y := 1970 + int64(verifChoose(tag+".year", 130))
	n := int64(365)
	if verifIsLeap(y) {
		n = 366
	}
	doy := verifRange(tag+".doy", 0, n-1)
	sec := verifRange(tag+".sec", 0, 86399)
	ms := verifRange(tag+".ms", 0, 999)
	return ((verifDaysBeforeYear(y)+doy)*86400+sec)*1000 + ms
}

// day calculator: segment is the local day of t.
func verifC13DaySegment() {
	zone := verifZone()
	t := verifTimestamp("t")
	d := &day{}
	s := d.CalcSegmentTime(t)
	verifAssert(s <= t && t < s+86400000, "day segment contains t")
	verifAssert((s+zone)%86400000 == 0, "day segment starts at local midnight")
	verifReach("end")
}

func verifC13DaySegmentReach() {
	zone := verifZone()
	t := verifTimestamp("t")
	d := &day{}
	s := d.CalcSegmentTime(t)
	_ = zone
	verifAssert(s != 86400000*365, "reach")
}
