package context

import (
	"github.com/lindb/lindb/models"
	"github.com/lindb/lindb/pkg/option"
	"github.com/lindb/lindb/pkg/timeutil"
	"github.com/lindb/lindb/sql/stmt"
)

// C13 (query planner): the real calcTimeRangeAndInterval for an arbitrary query (any range within
// about 136 years, any requested interval up to 400 days or none, auto group-by-time or not) against
// a database that stores one of the listed interval sets: the planner picks an interval the
// database stores, a query interval that is a positive whole multiple of it, and a range whose ends
// are aligned to the storage interval and whose slots contain both requested ends.

var verifIntervalSets = [][]int64{
	{10000},
	{1000, 300000},
	{10000, 300000, 3600000},
	{60000, 1800000, 86400000},
}

func verifC13Planner() {
	set := verifIntervalSets[verifChoose("intervalSet", len(verifIntervalSets))]
	var ivs option.Intervals
	for _, v := range set {
		ivs = append(ivs, option.Interval{Interval: timeutil.Interval(v), Retention: timeutil.Interval(30 * 86400000)})
	}
	verifAssert(ivs.IsValid() == nil, "the interval set is a valid option")
	cfg := models.Database{Option: &option.DatabaseOption{Intervals: ivs}}
	start := verifRange("start", 0, 4300000000000)
	end := verifRange("end", 0, 4300000000000)
	verifAssume(start <= end)
	var reqInterval int64
	if verifNondetBool("hasInterval") {
		reqInterval = verifRange("interval", 1, 400*86400000)
	}
	q := &stmt.Query{
		TimeRange:       timeutil.TimeRange{Start: start, End: end},
		Interval:        timeutil.Interval(reqInterval),
		AutoGroupByTime: verifNondetBool("autoGroupByTime"),
	}
	calcTimeRangeAndInterval(q, cfg)
	si := q.StorageInterval.Int64()
	stored := false
	for _, v := range set {
		if si == v {
			stored = true
		}
	}
	verifAssert(stored, "the planner picks an interval the database stores")
	if !stored {
		return
	}
	verifAssert(q.IntervalRatio >= 1 && q.Interval.Int64() == si*int64(q.IntervalRatio), "the query interval is a positive whole multiple of the storage interval")
	verifAssert(q.TimeRange.Start%si == 0 && q.TimeRange.End%si == 0, "the range ends are aligned to the storage interval")
	verifAssert(q.TimeRange.Start <= start && start < q.TimeRange.Start+si, "the first slot contains the requested start")
	verifAssert(q.TimeRange.End <= end && end < q.TimeRange.End+si, "the last slot contains the requested end")
	verifReach("end")
}

func verifC13PlannerReach() {
	ivs := option.Intervals{{Interval: 10000, Retention: 86400000}, {Interval: 300000, Retention: 86400000}}
	cfg := models.Database{Option: &option.DatabaseOption{Intervals: ivs}}
	start := verifRange("start", 0, 4300000000000)
	q := &stmt.Query{TimeRange: timeutil.TimeRange{Start: start, End: start + 7200000}}
	calcTimeRangeAndInterval(q, cfg)
	verifObserve("plan", start, q.TimeRange.Start, q.TimeRange.End, q.StorageInterval.Int64(), q.Interval.Int64(), q.IntervalRatio)
	verifAssert(start != 123456789, "reach")
}
