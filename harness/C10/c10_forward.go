package v1

import (
	"github.com/lindb/roaring"

	"github.com/lindb/lindb/kv"
	"github.com/lindb/lindb/pkg/encoding"
)

// C10 (group-by through the forward index): series id -> tag value id entries of one tag key are
// written by the real forward index flusher the way the index database flushes them (series bitmap,
// then the tag value ids container by container), read back by the real tagForwardReader, and two
// such files are compacted by the real forward index merger. For series ids in up to three roaring
// containers (1, 3, 65537, 65541, 131073) distributed over two files in every way and symbolic tag
// value ids: before and after the compaction every series reads back its own tag value id.

var verifFwdSeries = []uint32{1, 3, 65537, 65541, 131073}

type verifFwdEntry struct {
	series uint32
	value  uint32
}

func verifFwdFlush(entries []verifFwdEntry) []byte {
	nop := kv.NewNopFlusher()
	fl, err := NewForwardIndexFlusher(nop)
	verifAssume(err == nil)
	ids := roaring.New()
	for _, e := range entries {
		ids.Add(e.series)
	}
	fl.Prepare(7)
	verifAssume(fl.WriteSeriesIDs(ids) == nil)
	for _, hk := range ids.GetHighKeys() {
		var vals []uint32
		for _, e := range entries { // entries are ascending by series id
			if encoding.HighBits(e.series) == hk {
				vals = append(vals, e.value)
			}
		}
		verifAssume(fl.WriteTagValueIDs(vals) == nil)
	}
	verifAssume(fl.Commit() == nil)
	return append([]byte{}, nop.Bytes()...)
}

// verifFwdCheck: the value reads back every entry's tag value id
func verifFwdCheck(value []byte, entries []verifFwdEntry, when string) {
	r, err := NewTagForwardReader(value)
	verifAssert(err == nil, "the forward index value is readable "+when)
	if err != nil {
		return
	}
	total := 0
	for _, e := range entries {
		hk := encoding.HighBits(e.series)
		container, vals := r.GetSeriesAndTagValue(hk)
		verifAssert(container != nil && container.Contains(encoding.LowBits(e.series)), "a written series is found "+when)
		if container == nil || !container.Contains(encoding.LowBits(e.series)) {
			continue
		}
		idx := container.Rank(encoding.LowBits(e.series)) - 1
		verifAssert(idx >= 0 && idx < len(vals), "a series has a tag value id slot "+when)
		if idx >= 0 && idx < len(vals) {
			verifAssert(vals[idx] == e.value, "group-by reads a series' own tag value id "+when)
		}
		total++
	}
	verifAssert(int(r.GetSeriesIDs().GetCardinality()) == total, "no series appears "+when)
}

func verifC10Forward() {
	var a, b, all []verifFwdEntry
	for _, s := range verifFwdSeries {
		e := verifFwdEntry{series: s, value: verifNondetUint32("tagValueID")}
		switch verifChoose("file", 3) {
		case 0:
			a = append(a, e)
			all = append(all, e)
		case 1:
			b = append(b, e)
			all = append(all, e)
		}
	}
	verifAssume(len(a) > 0 && len(b) > 0)
	va, vb := verifFwdFlush(a), verifFwdFlush(b)
	verifFwdCheck(va, a, "after the flush")
	verifFwdCheck(vb, b, "after the flush")
	sink := kv.NewNopFlusher()
	m, err := NewForwardIndexMerger(sink)
	verifAssume(err == nil)
	verifAssert(m.Merge(7, [][]byte{va, vb}) == nil, "the compaction of the two files succeeds")
	verifFwdCheck(append([]byte{}, sink.Bytes()...), all, "after the compaction")
	verifReach("end")
}

func verifC10ForwardReach() {
	e := []verifFwdEntry{{1, verifNondetUint32("tagValueID")}, {65537, verifNondetUint32("tagValueID")}}
	v := verifFwdFlush(e)
	r, _ := NewTagForwardReader(v)
	_, vals := r.GetSeriesAndTagValue(1)
	verifObserve("fwd", len(v), len(vals), vals[0], e[1].value)
	verifAssert(e[1].value != 99, "reach")
}
