package index

import (
	"errors"

	"github.com/lindb/roaring"

	"github.com/lindb/lindb/aggregation"
	"github.com/lindb/lindb/aggregation/function"
	"github.com/lindb/lindb/constants"
	"github.com/lindb/lindb/flow"
	"github.com/lindb/lindb/kv"
	"github.com/lindb/lindb/kv/table"
	"github.com/lindb/lindb/kv/version"
	"github.com/lindb/lindb/pkg/timeutil"
	"github.com/lindb/lindb/series/field"
	"github.com/lindb/lindb/series/tag"
	"github.com/lindb/lindb/sql/stmt"
)

// C10 (group-by returns for each selected series exactly its values of the grouping keys): the real
// forwardIndex (put, prepareFlush, flush through the real forward index flusher, GetGroupingContext
// with memory and file scanners) and the real flow.GroupingContext (ScanTagValueIDs) over four
// series in two containers. Every series has or lacks each of two tag keys (choice), its tag value
// ids are a symbolic base plus small offsets (two series may share a value), it is written before or after a flush (choice: flushed file / immutable part
// being flushed / mutable part), the query selects a subset of the series and groups by key 1,
// key 2, (1,2) or (2,1). The series that remain are exactly the selected series that have every
// grouping key (not-found when there are none), and for every container and grouping key the tag
// value ids reported are exactly the values of the remaining series of that container.

type verifGrpReader struct {
	table.Reader
	data map[uint32][]byte
}

func (r *verifGrpReader) Get(key uint32) ([]byte, error) {
	if v, ok := r.data[key]; ok {
		return v, nil
	}
	return nil, errors.New("key not exist")
}

type verifGrpFamily struct {
	kv.Family
	files []map[uint32][]byte // one per committed flush
}

type verifGrpSnapshot struct {
	version.Snapshot
	files []map[uint32][]byte
}

func (s *verifGrpSnapshot) FindReaders(key uint32) ([]table.Reader, error) {
	var out []table.Reader
	for _, f := range s.files {
		if _, ok := f[key]; ok {
			out = append(out, &verifGrpReader{data: f})
		}
	}
	return out, nil
}
func (s *verifGrpSnapshot) Close() {}

func (f *verifGrpFamily) GetSnapshot() version.Snapshot {
	return &verifGrpSnapshot{files: append([]map[uint32][]byte{}, f.files...)}
}

type verifGrpFlusher struct {
	kv.Flusher
	fam     *verifGrpFamily
	pending map[uint32][]byte
	w       *verifGrpWriter
}

type verifGrpWriter struct {
	table.StreamWriter
	fl  *verifGrpFlusher
	key uint32
	buf []byte
}

func (w *verifGrpWriter) Prepare(key uint32) { w.key = key; w.buf = nil }
func (w *verifGrpWriter) Write(p []byte) (int, error) {
	w.buf = append(w.buf, p...)
	return len(p), nil
}
func (w *verifGrpWriter) Size() uint32  { return uint32(len(w.buf)) }
func (w *verifGrpWriter) Commit() error { w.fl.pending[w.key] = w.buf; return nil }

func (f *verifGrpFamily) NewFlusher() kv.Flusher {
	fl := &verifGrpFlusher{fam: f, pending: map[uint32][]byte{}}
	fl.w = &verifGrpWriter{fl: fl}
	return fl
}
func (fl *verifGrpFlusher) StreamWriter() (table.StreamWriter, error) { return fl.w, nil }
func (fl *verifGrpFlusher) Commit() error {
	fl.fam.files = append(fl.fam.files, fl.pending)
	return nil
}
func (fl *verifGrpFlusher) Release() {}

var verifGrpSeries = []uint32{1, 7, 65545, 65548}

func verifGrpSpec() aggregation.AggregatorSpec {
	spec := aggregation.NewAggregatorSpec("f", field.SumField)
	spec.AddFunctionType(function.Sum)
	return spec
}

func verifC10Grouping() {
	n := len(verifGrpSeries)
	keys := []uint32{1, 2}
	var has [4][2]bool
	var val [4][2]uint32
	var when [4]int // 0: in the flushed file, 1: in the immutable part (flush prepared, not run), 2: mutable
	shape := verifChoose("whoHasWhichKey", 5)
	// which series lack which key (the ones with both keys are the majority, as in real data)
	lacks := [][2][]int{
		{{}, {}},      // everybody has both keys
		{{}, {0}},     // series 1 lacks key 2
		{{2}, {0}},    // series 65545 lacks key 1, series 1 lacks key 2
		{{}, {0, 2}},  // series 1 and 65545 lack key 2
		{{1, 3}, {1}}, // series 7 lacks both, 65548 lacks key 1
	}[shape]
	for i := 0; i < n; i++ {
		has[i] = [2]bool{true, true}
	}
	for k := 0; k < 2; k++ {
		for _, i := range lacks[k] {
			has[i][k] = false
		}
	}
	vbase := uint32(verifRange("tagValueIDBase", 0, 1000000))
	placement := verifChoose("placement", 4)
	for i := 0; i < n; i++ {
		switch placement {
		case 0:
			when[i] = 2 // everything in memory
		case 1:
			when[i] = 0 // everything flushed
		case 2:
			when[i] = i % 3 // mixed
		case 3:
			when[i] = (i + 1) % 2 // file and immutable part
		}
		for k := 0; k < 2; k++ {
			// one symbolic base plus a small offset per series and key: two series may share a tag
			// value (they then share a group), and equality of two ids never needs the solver
			val[i][k] = vbase + uint32([]int{1, 2, 1, 3}[i]+10*k)
		}
	}
	fam := &verifGrpFamily{}
	fi := newForwardIndex(fam)
	put := func(phase int) {
		for i := 0; i < n; i++ {
			if when[i] != phase {
				continue
			}
			for k := 0; k < 2; k++ {
				if has[i][k] {
					fi.put(keys[k], val[i][k], verifGrpSeries[i])
				}
			}
		}
	}
	put(0)
	fi.prepareFlush()
	verifAssert(fi.flush() == nil, "flush succeeds")
	put(1)
	fi.prepareFlush()
	put(2)

	groupBy := [][]int{{0}, {1}, {0, 1}, {1, 0}}[verifChoose("groupBy", 4)]
	selMask := []int{0xF, 0x5, 0xB, 0x6}[verifChoose("selected", 4)]
	sel := roaring.New()
	for i := 0; i < n; i++ {
		if selMask&(1<<uint(i)) != 0 {
			sel.Add(verifGrpSeries[i])
		}
	}
	var tagKeyIDs []tag.KeyID
	for _, k := range groupBy {
		tagKeyIDs = append(tagKeyIDs, tag.KeyID(keys[k]))
	}
	ctx := &flow.ShardExecuteContext{
		StorageExecuteCtx: &flow.StorageExecuteContext{
			GroupByTagKeyIDs:    tagKeyIDs,
			GroupingTagValueIDs: make([]*roaring.Bitmap, len(tagKeyIDs)),
			Query: &stmt.Query{Interval: timeutil.Interval(10000), StorageInterval: timeutil.Interval(10000), IntervalRatio: 1,
				TimeRange: timeutil.TimeRange{Start: 1700000000000, End: 1700000050000}},
			DownSamplingSpecs: aggregation.AggregatorSpecs{verifGrpSpec()},
		},
		SeriesIDsAfterFiltering: sel,
	}
	err := fi.GetGroupingContext(ctx)
	// reference: the selected series that have every grouping key
	want := roaring.New()
	for i := 0; i < n; i++ {
		ok := selMask&(1<<uint(i)) != 0
		for _, k := range groupBy {
			if !has[i][k] {
				ok = false
			}
		}
		if ok {
			want.Add(verifGrpSeries[i])
		}
	}
	if want.IsEmpty() {
		verifAssert(errors.Is(err, constants.ErrNotFound), "no selected series has every grouping key: not found")
		verifReach("end")
		return
	}
	verifAssert(err == nil, "grouping context is built")
	if err != nil {
		return
	}
	verifAssert(ctx.SeriesIDsAfterFiltering.Equals(want), "the series that remain after grouping are the selected series that have every grouping key")
	if !ctx.SeriesIDsAfterFiltering.Equals(want) {
		return
	}
	for _, hk := range []uint16{0, 1} {
		container := want.GetContainer(hk)
		if container == nil {
			continue
		}
		// the groups built for the data load of this container: every remaining series is put into the
		// group whose key is the tuple of its own tag value ids
		dlc := &flow.DataLoadContext{ShardExecuteCtx: ctx, SeriesIDHighKey: hk, LowSeriesIDsContainer: container, IsGrouping: true}
		dlc.Grouping()
		ctx.GroupingContext.BuildGroup(dlc)
		for i := 0; i < n; i++ {
			if uint16(verifGrpSeries[i]>>16) != hk || !want.Contains(verifGrpSeries[i]) {
				continue
			}
			idx := uint16(verifGrpSeries[i]) - dlc.MinSeriesID
			verifAssert(len(dlc.GroupingSeriesAgg) > 0 && int(dlc.GroupingSeriesAggRefs[idx]) < len(dlc.GroupingSeriesAgg), "every remaining series is put into a group")
			if len(dlc.GroupingSeriesAgg) == 0 || int(dlc.GroupingSeriesAggRefs[idx]) >= len(dlc.GroupingSeriesAgg) {
				continue
			}
			key := []byte(dlc.GroupingSeriesAgg[dlc.GroupingSeriesAggRefs[idx]].Key)
			verifAssert(len(key) == 4*len(groupBy), "a group's key holds one tag value id per grouping key")
			if len(key) != 4*len(groupBy) {
				continue
			}
			for gi, k := range groupBy {
				v := uint32(key[4*gi]) | uint32(key[4*gi+1])<<8 | uint32(key[4*gi+2])<<16 | uint32(key[4*gi+3])<<24
				verifAssert(v == val[i][k], "a series is grouped under its own tag value ids")
			}
		}
		got := ctx.GroupingContext.ScanTagValueIDs(hk, container)
		verifAssert(len(got) == len(groupBy), "one set of tag value ids per grouping key")
		for gi, k := range groupBy {
			// every value reported belongs to a remaining series of this container, and the other way round
			for i := 0; i < n; i++ {
				if uint16(verifGrpSeries[i]>>16) == hk && want.Contains(verifGrpSeries[i]) {
					verifAssert(got[gi].Contains(val[i][k]), "the tag value of every remaining series is reported for its grouping key")
				}
			}
			it := got[gi].Iterator()
			for it.HasNext() {
				v := it.Next()
				found := false
				for i := 0; i < n; i++ {
					if uint16(verifGrpSeries[i]>>16) == hk && want.Contains(verifGrpSeries[i]) && val[i][k] == v {
						found = true
					}
				}
				verifAssert(found, "every reported tag value belongs to a remaining series under that grouping key")
			}
		}
	}
	verifReach("end")
}

func verifC10GroupingReach() {
	fam := &verifGrpFamily{}
	fi := newForwardIndex(fam)
	v := verifNondetUint32("tagValueID")
	fi.put(1, v, 7)
	fi.prepareFlush()
	_ = fi.flush()
	fi.put(1, 9, 65545)
	sel := roaring.BitmapOf(7, 65545)
	ctx := &flow.ShardExecuteContext{StorageExecuteCtx: &flow.StorageExecuteContext{GroupByTagKeyIDs: []tag.KeyID{1}}, SeriesIDsAfterFiltering: sel}
	err := fi.GetGroupingContext(ctx)
	verifAssume(err == nil)
	got := ctx.GroupingContext.ScanTagValueIDs(0, sel.GetContainer(0))
	verifObserve("grouping", v, got[0].GetCardinality(), got[0].Contains(v))
	verifAssert(!got[0].Contains(v), "reach")
}

func (s *verifGrpSnapshot) Load(key uint32, loader func(value []byte) error) error {
	for _, f := range s.files {
		if v, ok := f[key]; ok {
			if err := loader(v); err != nil {
				return err
			}
		}
	}
	return nil
}

// C10 (posting lists while the index is in memory, being flushed, flushed): the real invertedIndex
// (put, prepareFlush, flush through the real inverted index flusher, getSeriesIDs,
// findSeriesIDsByKeys over the mutable part, the part being flushed and the flushed files) for four
// series in two containers, each with one of two tag value ids (four patterns) and written in one of
// three phases - before a completed flush, before a prepared flush that has not run, after it (every
// combination, so one tag value can have series in all three places at once). The series selected
// for a tag value id, or for a set of them, are exactly the series that carry it.
func verifC10Inverted() {
	n := len(verifGrpSeries)
	vals := [][]uint32{{10, 10, 10, 10}, {10, 20, 10, 20}, {10, 10, 20, 20}, {20, 10, 10, 10}}[verifChoose("tagValuesOfSeries", 4)]
	var when [4]int
	for i := 0; i < n; i++ {
		when[i] = verifChoose("phaseOfSeries", 3)
	}
	fam := &verifGrpFamily{}
	ii := newInvertedIndex(fam)
	put := func(phase int) {
		for i := 0; i < n; i++ {
			if when[i] == phase {
				ii.put(vals[i], verifGrpSeries[i])
			}
		}
	}
	put(0)
	ii.prepareFlush()
	verifAssert(ii.flush() == nil, "flush succeeds")
	put(1)
	ii.prepareFlush()
	put(2)
	for _, keys := range [][]uint32{{10}, {20}, {10, 20}} {
		want := roaring.New()
		for i := 0; i < n; i++ {
			for _, k := range keys {
				if vals[i] == k {
					want.Add(verifGrpSeries[i])
				}
			}
		}
		got, err := ii.findSeriesIDsByKeys(roaring.BitmapOf(keys...))
		verifAssert(err == nil, "posting lists are read")
		if err == nil {
			verifAssert(got.Equals(want), "the series selected for a set of tag value ids are exactly the series that carry one of them")
		}
		if len(keys) == 1 {
			one, err := ii.getSeriesIDs(keys[0])
			verifAssert(err == nil, "posting list is read")
			if err == nil {
				verifAssert(one.Equals(want), "the series selected for a tag value id are exactly the series that carry it")
			}
		}
	}
	// everything flushed: same answers
	verifAssert(ii.flush() == nil, "second flush succeeds")
	ii.prepareFlush()
	verifAssert(ii.flush() == nil, "third flush succeeds")
	for _, k := range []uint32{10, 20} {
		want := roaring.New()
		for i := 0; i < n; i++ {
			if vals[i] == k {
				want.Add(verifGrpSeries[i])
			}
		}
		one, err := ii.getSeriesIDs(k)
		verifAssert(err == nil && one.Equals(want), "after everything was flushed the series of a tag value id are still exactly the series that carry it")
	}
	verifReach("end")
}
