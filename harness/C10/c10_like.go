package index

import (
	"github.com/hashicorp/golang-lru/v2/expirable"

	"github.com/lindb/lindb/index/model"
	"github.com/lindb/lindb/kv/version"
	"github.com/lindb/lindb/pkg/imap"
	"github.com/lindb/lindb/sql/stmt"
)

type verifSnapshot10 struct {
	version.Snapshot
}

func (s *verifSnapshot10) Load(key uint32, loader func(value []byte) error) error { return nil }
func (s *verifSnapshot10) Close()                                                {}

func verifStore10() *indexKVStore {
	return &indexKVStore{
		snapshot:    &verifSnapshot10{},
		mutable:     imap.NewIntMap[map[string]uint32](),
		bucketCache: expirable.NewLRU[uint32, *model.TrieBucket](8, nil, 0),
	}
}

// reference: '*' at the start / end of the pattern stands for any prefix / suffix
func verifWildcardMatch(pattern, value []byte) bool {
	n := len(pattern)
	if n == 0 {
		return false // the empty pattern selects nothing
	}
	star0 := pattern[0] == '*'
	starN := pattern[n-1] == '*'
	switch {
	case !star0 && !starN:
		return verifEqual(pattern, value)
	case !star0 && starN:
		return verifPrefix(value, pattern[:n-1])
	case star0 && !starN:
		return verifSuffix(value, pattern[1:])
	default:
		if n == 1 {
			return true // "*" alone: every value
		}
		return verifContains(value, pattern[1:n-1])
	}
}

func verifEqual(a, b []byte) bool {
	if len(a) != len(b) {
		return false
	}
	for i := range a {
		if a[i] != b[i] {
			return false
		}
	}
	return true
}
func verifPrefix(v, p []byte) bool { return len(p) <= len(v) && verifEqual(v[:len(p)], p) }
func verifSuffix(v, p []byte) bool { return len(p) <= len(v) && verifEqual(v[len(v)-len(p):], p) }
func verifContains(v, p []byte) bool {
	for i := 0; i+len(p) <= len(v); i++ {
		if verifEqual(v[i:i+len(p)], p) {
			return true
		}
	}
	return false
}

// C10 (like evaluation): a dictionary bucket with two tag values of 1-2 symbolic bytes held in the
// memory part (one in the mutable, one in the immutable map), a like pattern of 0-3 symbolic bytes
// over an alphabet that contains '*': the value ids returned are exactly the ids of the values that
// match the pattern, and evaluation never panics.
func verifC10Like() {
	s := verifStore10()
	next := uint32(10)
	create := func() (uint32, error) { next++; return next, nil }
	maxValue, maxPattern := 2, 3
	if verifThorough() {
		maxValue, maxPattern = 4, 7 // e.g. "*a*b*", "ab*cd*" against 4-byte values
	}
	v1 := verifSymBytes("value", 1+verifChoose("value.len", maxValue))
	v2 := verifSymBytes("value", 1+verifChoose("value.len", maxValue))
	for _, b := range append(append([]byte{}, v1...), v2...) {
		verifAssume(b != '*') // tag values are data; '*' is the pattern's wildcard
	}
	verifAssume(!verifEqual(v1, v2))
	id1, _, _ := s.GetOrCreateValue(1, v1, create)
	// first value moves to the immutable part (a flush is being prepared)
	s.lock.Lock()
	s.immutable = s.mutable
	s.mutable = imap.NewIntMap[map[string]uint32]()
	s.lock.Unlock()
	id2, _, _ := s.GetOrCreateValue(1, v2, create)
	verifAssert(id1 != id2, "different values have different ids")

	pattern := verifSymBytes("pattern", verifChoose("pattern.len", maxPattern+1))
	ids, err := s.FindValuesByExpr(1, &stmt.LikeExpr{Key: "k", Value: string(pattern)})
	verifAssert(err == nil, "like evaluation succeeds")
	got1, got2 := false, false
	for _, id := range ids {
		if id == id1 {
			got1 = true
		} else if id == id2 {
			got2 = true
		} else {
			verifAssert(false, "only ids of dictionary values are returned")
		}
	}
	verifAssert(got1 == verifWildcardMatch(pattern, v1), "like selects exactly the matching values (immutable part)")
	verifAssert(got2 == verifWildcardMatch(pattern, v2), "like selects exactly the matching values (mutable part)")
	verifAssert(len(ids) <= 2, "no value is returned twice")
	verifReach("end")
}

// equals / in over the memory parts
func verifC10Equals() {
	s := verifStore10()
	next := uint32(10)
	create := func() (uint32, error) { next++; return next, nil }
	v1 := verifSymBytes("value", 2)
	v2 := verifSymBytes("value", 2)
	verifAssume(!verifEqual(v1, v2))
	id1, _, _ := s.GetOrCreateValue(1, v1, create)
	id2, _, _ := s.GetOrCreateValue(1, v2, create)
	probe := verifSymBytes("probe", 2)
	ids, err := s.FindValuesByExpr(1, &stmt.EqualsExpr{Key: "k", Value: string(probe)})
	verifAssert(err == nil, "equals evaluation succeeds")
	want := 0
	if verifEqual(probe, v1) {
		want++
		verifAssert(len(ids) == 1 && ids[0] == id1, "equals selects the value's id")
	}
	if verifEqual(probe, v2) {
		want++
		verifAssert(len(ids) == 1 && ids[0] == id2, "equals selects the value's id")
	}
	verifAssert(len(ids) == want, "equals selects nothing else")
	ids, err = s.FindValuesByExpr(1, &stmt.InExpr{Key: "k", Values: []string{string(probe), string(v2)}})
	verifAssert(err == nil, "in evaluation succeeds")
	has2 := false
	for _, id := range ids {
		if id == id2 {
			has2 = true
		}
	}
	verifAssert(has2, "in selects every listed value that exists")
	verifReach("end")
}

func verifC10Reach() {
	s := verifStore10()
	next := uint32(10)
	create := func() (uint32, error) { next++; return next, nil }
	v1 := verifSymBytes("value", 2)
	id1, _, _ := s.GetOrCreateValue(1, v1, create)
	pattern := verifSymBytes("pattern", 2)
	ids, _ := s.FindValuesByExpr(1, &stmt.LikeExpr{Key: "k", Value: string(pattern)})
	verifObserve("like", v1[0], v1[1], pattern[0], pattern[1], id1, len(ids))
	verifAssert(len(ids) == 0, "reach")
}
