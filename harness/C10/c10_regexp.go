package index

import (
	"regexp"
	"sort"

	"github.com/hashicorp/golang-lru/v2/expirable"

	"github.com/lindb/lindb/index/model"
	"github.com/lindb/lindb/pkg/imap"
)

// C10 (regex atoms, memory vs flushed): the tag values selected by a regular expression are the
// values the expression matches - the same set whether the dictionary entries are still in memory,
// flushed (real Flush: trie buckets through the real index flusher, read back through the real
// IndexKVReader / TrieBucket.FindValuesByRegexp), or half and half. Patterns are a case split over
// anchored, unanchored, suffix-anchored and alternation shapes; the value bytes are symbolic over a
// small alphabet chosen per byte (the matcher's control flow depends on every byte).

var verifRegexps = []string{"a$", "^a", "b", "^ab$", "a|c", "^.b", "[bc]$", "^(a|b)c"}

func verifAlphaByte(tag string) byte {
	return []byte{'a', 'b', 'c'}[verifChoose(tag, 3)]
}

func verifC10Regexp() {
	fam := &verifKVFamily{persisted: map[uint32][][]byte{}}
	s := &indexKVStore{
		family:      fam,
		snapshot:    fam.GetSnapshot(),
		mutable:     imap.NewIntMap[map[string]uint32](),
		bucketCache: expirable.NewLRU[uint32, *model.TrieBucket](8, nil, 0),
	}
	rp := regexp.MustCompile(verifRegexps[verifChoose("pattern", len(verifRegexps))])
	next := uint32(0)
	create := func() (uint32, error) { next++; return next, nil }
	// three values: "a?" "?c" and a fixed one; the first one or two are flushed, the rest stays in memory
	vals := [][]byte{{'a', verifAlphaByte("v0")}, {verifAlphaByte("v1"), 'c'}, []byte("cab")}
	verifAssume(string(vals[0]) != string(vals[1]))
	ids := make([]uint32, len(vals))
	flushedUpTo := verifChoose("flushedValues", 4) // 0: all in memory ... 3: all flushed
	for i, v := range vals {
		id, _, err := s.GetOrCreateValue(1, v, create)
		verifAssert(err == nil, "create")
		ids[i] = id
		if i+1 == flushedUpTo {
			s.PrepareFlush()
			verifAssert(s.Flush() == nil, "flush")
		}
	}
	got, err := s.FindValuesByRegexp(1, rp, nil)
	verifAssert(err == nil, "regexp lookup succeeds")
	sort.Slice(got, func(i, j int) bool { return got[i] < got[j] })
	var want []uint32
	for i, v := range vals {
		if rp.Match(v) {
			want = append(want, ids[i])
		}
	}
	verifAssert(len(got) == len(want), "the regular expression selects exactly the values it matches, in memory or flushed (count)")
	for i := 0; i < len(got) && i < len(want); i++ {
		verifAssert(got[i] == want[i], "the regular expression selects exactly the values it matches, in memory or flushed")
	}
	verifReach("end")
}

func verifC10RegexpReach() {
	fam := &verifKVFamily{persisted: map[uint32][][]byte{}}
	s := &indexKVStore{
		family:      fam,
		snapshot:    fam.GetSnapshot(),
		mutable:     imap.NewIntMap[map[string]uint32](),
		bucketCache: expirable.NewLRU[uint32, *model.TrieBucket](8, nil, 0),
	}
	rp := regexp.MustCompile("^a")
	next := uint32(0)
	create := func() (uint32, error) { next++; return next, nil }
	b := verifAlphaByte("v0")
	_, _, _ = s.GetOrCreateValue(1, []byte{b, 'x'}, create)
	s.PrepareFlush()
	_ = s.Flush()
	got, _ := s.FindValuesByRegexp(1, rp, nil)
	verifObserve("regexp", b, len(got))
	verifAssert(len(got) == 0, "reach")
}
