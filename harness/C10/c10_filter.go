package operator

import (
	"github.com/lindb/roaring"

	"github.com/lindb/lindb/flow"
	"github.com/lindb/lindb/index"
	"github.com/lindb/lindb/series/metric"
	"github.com/lindb/lindb/series/tag"
	"github.com/lindb/lindb/sql/stmt"
	"github.com/lindb/lindb/tsdb"
)

// C10 (predicate tree -> posting-list algebra): the real tag-value lookup operator and the real series
// filtering operator over a small fixed set of series (ids on both sides of 65536, series that lack
// a tag key) and every condition tree of up to three atoms out of {equals, in, an unknown value},
// plain or negated, combined by and / or in both bracketings: the selected series are exactly those
// whose tags satisfy the condition. A negated atom selects, as the operator documents, the series
// that HAVE the atom's tag key and do not match.
//
// The dictionaries (tag value -> id) and posting lists (tag value id -> series) are stand-ins that
// evaluate an atom literally; the real dictionary filters are the subject of the `index` harnesses.

type verifSeries struct {
	id   uint32
	tags map[string]string
}

var verifC10Series = []verifSeries{
	{1, map[string]string{"host": "a", "zone": "x"}},
	{2, map[string]string{"host": "b", "zone": "x"}},
	{65537, map[string]string{"host": "a"}},
	{65538, map[string]string{"zone": "y"}},
	{65539, map[string]string{"host": "a,b"}}, // a value that contains the separator of an in-list's text form
}

var verifC10Keys = tag.Metas{{Key: "host", ID: 1}, {Key: "zone", ID: 2}}

// value ids per key
var verifC10Values = map[string]map[string]uint32{
	"host": {"a": 1, "b": 2, "a,b": 3},
	"zone": {"x": 1, "y": 2},
}

func verifKeyName(id tag.KeyID) string {
	for _, m := range verifC10Keys {
		if m.ID == id {
			return m.Key
		}
	}
	return ""
}

type verifMetaDB struct{ index.MetricMetaDatabase }

func (verifMetaDB) FindTagValueDsByExpr(tagKeyID tag.KeyID, expr stmt.TagFilter) (*roaring.Bitmap, error) {
	ids := roaring.New()
	vals := verifC10Values[verifKeyName(tagKeyID)]
	switch e := expr.(type) {
	case *stmt.EqualsExpr:
		if id, ok := vals[e.Value]; ok {
			ids.Add(id)
		}
	case *stmt.InExpr:
		for _, v := range e.Values {
			if id, ok := vals[v]; ok {
				ids.Add(id)
			}
		}
	}
	return ids, nil
}

type verifIndexDB struct{ index.MetricIndexDatabase }

func (verifIndexDB) GetSeriesIDsByTagValueIDs(tagKeyID tag.KeyID, tagValueIDs *roaring.Bitmap) (*roaring.Bitmap, error) {
	key := verifKeyName(tagKeyID)
	out := roaring.New()
	for _, s := range verifC10Series {
		if v, ok := s.tags[key]; ok && tagValueIDs.Contains(verifC10Values[key][v]) {
			out.Add(s.id)
		}
	}
	return out, nil
}

func (verifIndexDB) GetSeriesIDsForTag(tagKeyID tag.KeyID) (*roaring.Bitmap, error) {
	key := verifKeyName(tagKeyID)
	out := roaring.New()
	for _, s := range verifC10Series {
		if _, ok := s.tags[key]; ok {
			out.Add(s.id)
		}
	}
	return out, nil
}

// ---- condition trees and their literal evaluation

type verifAtom struct {
	key     string
	values  []string
	negate  bool
	forceIn bool // an in-list of one element
}

var verifC10Atoms = []verifAtom{
	{key: "host", values: []string{"a"}},
	{key: "host", values: []string{"b"}},
	{key: "host", values: []string{"q"}}, // unknown value: selects nothing
	{key: "zone", values: []string{"x"}},
	{key: "host", values: []string{"a", "b"}}, // in
}

func (a verifAtom) expr() stmt.Expr {
	var e stmt.Expr
	if len(a.values) == 1 && !a.forceIn {
		e = &stmt.EqualsExpr{Key: a.key, Value: a.values[0]}
	} else {
		e = &stmt.InExpr{Key: a.key, Values: a.values}
	}
	if a.negate {
		return &stmt.NotExpr{Expr: &stmt.ParenExpr{Expr: e}}
	}
	return e
}

func (a verifAtom) holds(s verifSeries) bool {
	v, ok := s.tags[a.key]
	if !ok {
		return false
	}
	match := false
	for _, x := range a.values {
		if x == v {
			match = true
		}
	}
	if a.negate {
		return !match
	}
	return match
}

func verifChooseAtom(tag string, withNot bool) verifAtom {
	a := verifC10Atoms[verifChoose(tag, len(verifC10Atoms))]
	if withNot && verifChoose(tag+".not", 2) == 1 {
		a.negate = true
	}
	return a
}

func verifCombine(op stmt.BinaryOP, x, y bool) bool {
	if op == stmt.AND {
		return x && y
	}
	return x || y
}

func verifC10Filter() {
	ops := []stmt.BinaryOP{stmt.AND, stmt.OR}
	shape := verifChoose("shape", 4)
	a := verifChooseAtom("a", true)
	var cond stmt.Expr
	var eval func(s verifSeries) bool
	switch shape {
	case 0:
		cond = a.expr()
		eval = a.holds
	case 1:
		b := verifChooseAtom("b", true)
		op := ops[verifChoose("op1", 2)]
		cond = &stmt.BinaryExpr{Left: a.expr(), Operator: op, Right: b.expr()}
		eval = func(s verifSeries) bool { return verifCombine(op, a.holds(s), b.holds(s)) }
	case 2: // (a op1 b) op2 c
		b := verifChooseAtom("b", true)
		c := verifChooseAtom("c", false)
		op1 := ops[verifChoose("op1", 2)]
		op2 := ops[verifChoose("op2", 2)]
		cond = &stmt.BinaryExpr{
			Left:     &stmt.ParenExpr{Expr: &stmt.BinaryExpr{Left: a.expr(), Operator: op1, Right: b.expr()}},
			Operator: op2, Right: c.expr()}
		eval = func(s verifSeries) bool {
			return verifCombine(op2, verifCombine(op1, a.holds(s), b.holds(s)), c.holds(s))
		}
	default: // a op1 (b op2 c)
		b := verifChooseAtom("b", true)
		c := verifChooseAtom("c", false)
		op1 := ops[verifChoose("op1", 2)]
		op2 := ops[verifChoose("op2", 2)]
		cond = &stmt.BinaryExpr{
			Left: a.expr(), Operator: op1,
			Right: &stmt.ParenExpr{Expr: &stmt.BinaryExpr{Left: b.expr(), Operator: op2, Right: c.expr()}}}
		eval = func(s verifSeries) bool {
			return verifCombine(op1, a.holds(s), verifCombine(op2, b.holds(s), c.holds(s)))
		}
	}
	storageCtx := &flow.StorageExecuteContext{
		Query:  &stmt.Query{Condition: cond},
		Schema: &metric.Schema{TagKeys: verifC10Keys},
	}
	lookup := &tagValuesLookup{executeCtx: storageCtx, metaDB: verifMetaDB{}}
	verifAssert(lookup.Execute() == nil, "tag value lookup succeeds")
	shardCtx := flow.NewShardExecuteContext(storageCtx)
	filtering := NewSeriesFiltering(shardCtx, verifShard{}).(*seriesFiltering)
	verifAssert(filtering.Execute() == nil, "series filtering succeeds")
	got := shardCtx.SeriesIDsAfterFiltering
	n := 0
	for _, s := range verifC10Series {
		want := eval(s)
		verifAssert(got.Contains(s.id) == want, "a series is selected exactly when its tags satisfy the condition")
		if want {
			n++
		}
	}
	verifAssert(int(got.GetCardinality()) == n, "nothing else is selected")
	verifReach("end")
}

// two different atoms whose text forms coincide (host in ('a,b') and host in ('a','b')): each keeps
// its own meaning inside one condition
func verifC10FilterSameText() {
	ops := []stmt.BinaryOP{stmt.AND, stmt.OR}
	x := verifAtom{key: "host", values: []string{"a,b"}, forceIn: true}
	y := verifAtom{key: "host", values: []string{"a", "b"}}
	a, b := x, y
	if verifChoose("order", 2) == 1 {
		a, b = y, x
	}
	if verifChoose("notFirst", 2) == 1 {
		a.negate = true
	}
	op := ops[verifChoose("op", 2)]
	cond := &stmt.BinaryExpr{Left: a.expr(), Operator: op, Right: b.expr()}
	storageCtx := &flow.StorageExecuteContext{
		Query:  &stmt.Query{Condition: cond},
		Schema: &metric.Schema{TagKeys: verifC10Keys},
	}
	lookup := &tagValuesLookup{executeCtx: storageCtx, metaDB: verifMetaDB{}}
	verifAssert(lookup.Execute() == nil, "tag value lookup succeeds")
	shardCtx := flow.NewShardExecuteContext(storageCtx)
	filtering := NewSeriesFiltering(shardCtx, verifShard{}).(*seriesFiltering)
	verifAssert(filtering.Execute() == nil, "series filtering succeeds")
	got := shardCtx.SeriesIDsAfterFiltering
	for _, s := range verifC10Series {
		verifAssert(got.Contains(s.id) == verifCombine(op, a.holds(s), b.holds(s)), "a series is selected exactly when its tags satisfy the condition (atoms with the same text form)")
	}
	verifReach("end")
}

func verifC10FilterReach() {
	// (host=q or zone=x): the left side selects nothing, the right side two series
	cond := &stmt.BinaryExpr{Left: &stmt.EqualsExpr{Key: "host", Value: "q"}, Operator: stmt.OR, Right: &stmt.EqualsExpr{Key: "zone", Value: "x"}}
	storageCtx := &flow.StorageExecuteContext{Query: &stmt.Query{Condition: cond}, Schema: &metric.Schema{TagKeys: verifC10Keys}}
	lookup := &tagValuesLookup{executeCtx: storageCtx, metaDB: verifMetaDB{}}
	_ = lookup.Execute()
	shardCtx := flow.NewShardExecuteContext(storageCtx)
	filtering := NewSeriesFiltering(shardCtx, verifShard{}).(*seriesFiltering)
	_ = filtering.Execute()
	verifObserve("selected", int(shardCtx.SeriesIDsAfterFiltering.GetCardinality()), shardCtx.SeriesIDsAfterFiltering.Contains(2))
	verifAssert(verifNondetBool("flag") && shardCtx.SeriesIDsAfterFiltering.GetCardinality() != 2, "reach")
}

// the operator is created through its constructor (whatever state it sets up is there)
type verifShard struct{ tsdb.Shard }

func (verifShard) IndexDB() index.MetricIndexDatabase { return verifIndexDB{} }
