package master

import (
	"github.com/lindb/common/pkg/logger"

	"github.com/lindb/lindb/metrics"
	"github.com/lindb/lindb/models"
)

type verifCluster struct {
	n, shards, rf int
	state         *models.StorageState
	sa            *models.ShardAssignment
	alive         []bool
	m             *stateManager
	// the placement as it was assigned (deep copy): elections and node events never change it
	placed map[models.ShardID][]models.NodeID
}

func (c *verifCluster) rememberPlacement() {
	c.placed = map[models.ShardID][]models.NodeID{}
	for id, r := range c.sa.Shards {
		c.placed[id] = append([]models.NodeID{}, r.Replicas...)
	}
}

func (c *verifCluster) placementUnchanged(label string) {
	for id, want := range c.placed {
		got := c.sa.Shards[id].Replicas
		same := len(got) == len(want)
		for i := 0; same && i < len(want); i++ {
			same = got[i] == want[i]
		}
		verifAssert(same, label+": a shard keeps exactly the replicas it was assigned")
		st, ok := c.state.ShardStates["db"][id]
		if ok {
			same = len(st.Replica.Replicas) == len(want)
			for i := 0; same && i < len(want); i++ {
				same = st.Replica.Replicas[i] == want[i]
			}
			verifAssert(same, label+": the reported replicas of a shard are the assigned ones")
		}
	}
}

func verifStateManager() *stateManager {
	return &stateManager{elector: newReplicaLeaderElector(), shardLeaderStatistics: metrics.NewShardLeaderStatistics(),
		logger: logger.GetLogger("Master", "StateManager")} // a real logger: changed code may log where it did not before
}

// verifInvariant: a shard is online exactly when one of its replicas is alive, and the leader of
// an online shard is an alive replica of that shard.
func (c *verifCluster) invariant(assert bool, label string) bool {
	ok := true
	states := c.state.ShardStates["db"]
	for s := 0; s < c.shards; s++ {
		st := states[models.ShardID(s)]
		reps := c.sa.Shards[models.ShardID(s)].Replicas
		anyAlive := false
		leaderOK := false
		for _, r := range reps {
			if c.alive[int(r)] {
				anyAlive = true
				if st.Leader == r {
					leaderOK = true
				}
			}
		}
		online := st.State == models.OnlineShard
		c1 := online == anyAlive
		c2 := !online || leaderOK
		if assert {
			verifAssert(c1, label+": shard is online exactly when some replica is alive")
			verifAssert(c2, label+": leader of an online shard is an alive replica of it")
		}
		ok = ok && c1 && c2
	}
	return ok
}

// verifArbitraryCluster builds a cluster in an arbitrary state that satisfies the invariant:
// liveness of every node is a case split (the live-node table is a Go map), shard state and leader
// are symbolic.
func verifArbitraryCluster(n, shards, rf int) *verifCluster {
	c := &verifCluster{n: n, shards: shards, rf: rf, m: verifStateManager()}
	ids := verifNodes(n)
	cfg := &models.Database{Name: "db", NumOfShard: shards, ReplicaFactor: rf}
	start := verifChoose("startIndex", n)
	sa, _ := ShardAssignment(ids, cfg, start, -1)
	c.sa = sa
	c.state = models.NewStorageState()
	c.alive = make([]bool, n+1)
	for i := 1; i <= n; i++ {
		if verifChoose("alive", 2) == 1 {
			c.alive[i] = true
			c.state.NodeOnline(models.StatefulNode{ID: models.NodeID(i)})
		}
	}
	c.state.ShardAssignments["db"] = sa
	states := make(map[models.ShardID]models.ShardState)
	for s := 0; s < shards; s++ {
		st := models.ShardState{ID: models.ShardID(s), Replica: *sa.Shards[models.ShardID(s)]}
		if verifNondetBool("online") {
			st.State = models.OnlineShard
		} else {
			st.State = models.OfflineShard
		}
		st.Leader = models.NodeID(verifRange("leader", -1, int64(n)))
		verifAssume(st.Leader != 0)
		states[models.ShardID(s)] = st
	}
	c.state.ShardStates["db"] = states
	verifAssume(c.invariant(false, ""))
	c.rememberPlacement()
	return c
}

// one event from an arbitrary state that satisfies the invariant (inductive step)
func verifC18StateStep() {
	maxNodes := 3
	if verifThorough() {
		maxNodes = 4
	}
	n := 1 + verifChoose("nodes", maxNodes)
	shards := 1 + verifChoose("shards", 2)
	rf := 1 + verifChoose("replicaFactor", n)
	c := verifArbitraryCluster(n, shards, rf)
	node := 1 + verifChoose("eventNode", n)
	if c.alive[node] {
		// node failure: the event handler marks the node offline, then re-elects
		c.alive[node] = false
		c.state.NodeOffline(models.NodeID(node))
		c.m.onNodeFailure(c.state, models.NodeID(node))
		c.invariant(true, "node down")
		c.placementUnchanged("node down")
	} else {
		c.alive[node] = true
		sn := models.StatefulNode{ID: models.NodeID(node)}
		c.state.NodeOnline(sn)
		c.m.onNodeStartup(c.state, sn)
		c.invariant(true, "node up")
		c.placementUnchanged("node up")
	}
	verifReach("end")
}

type verifStorageCluster struct {
	StorageCluster
	state *models.StorageState
}

func (v *verifStorageCluster) GetState() *models.StorageState { return v.state }

// creating a database on an arbitrary set of live nodes establishes the invariant
func verifC18StateInit() {
	n := 1 + verifChoose("nodes", 3)
	shards := 1 + verifChoose("shards", 3)
	rf := 1 + verifChoose("replicaFactor", n)
	c := &verifCluster{n: n, shards: shards, rf: rf, m: verifStateManager()}
	ids := verifNodes(n)
	cfg := &models.Database{Name: "db", NumOfShard: shards, ReplicaFactor: rf}
	sa, _ := ShardAssignment(ids, cfg, verifChoose("startIndex", n), -1)
	c.sa = sa
	c.state = models.NewStorageState()
	c.alive = make([]bool, n+1)
	for i := 1; i <= n; i++ {
		if verifChoose("alive", 2) == 1 {
			c.alive[i] = true
			c.state.NodeOnline(models.StatefulNode{ID: models.NodeID(i)})
		}
	}
	c.rememberPlacement()
	c.m.initializeShardState(&verifStorageCluster{state: c.state}, sa)
	c.invariant(true, "create database")
	c.placementUnchanged("create database")
	// drop database removes its shards from the report
	c.state.DropDatabase("db")
	verifAssert(len(c.state.ShardStates) == 0 && len(c.state.ShardAssignments) == 0, "drop database removes the database's shards")
	verifReach("end")
}

// the shard count grows (a second assignment event for the same database, with a new assignment
// object as it is read from the repository), then a node fails or starts: the report must follow the
// grown assignment for every shard, old and new.
func verifC18StateGrow() {
	n := 2 + verifChoose("nodes", 2)
	shards := 1 + verifChoose("shards", 2)
	rf := 1 + verifChoose("replicaFactor", 2)
	c := &verifCluster{n: n, shards: shards, rf: rf, m: verifStateManager()}
	ids := verifNodes(n)
	cfg := &models.Database{Name: "db", NumOfShard: shards, ReplicaFactor: rf}
	start := verifChoose("startIndex", n)
	sa, _ := ShardAssignment(ids, cfg, start, -1)
	c.sa = sa
	c.state = models.NewStorageState()
	c.alive = make([]bool, n+1)
	for i := 1; i <= n; i++ {
		if verifChoose("alive", 2) == 1 {
			c.alive[i] = true
			c.state.NodeOnline(models.StatefulNode{ID: models.NodeID(i)})
		}
	}
	sc := &verifStorageCluster{state: c.state}
	c.m.initializeShardState(sc, sa)
	c.invariant(true, "create database")
	// growth: a fresh assignment object holding the old shards unchanged plus the new ones
	grown := models.NewShardAssignment("db")
	for id, r := range sa.Shards {
		for _, node := range r.Replicas {
			grown.AddReplica(id, node)
		}
	}
	extra := 1 + verifChoose("extraShards", 2)
	cfg.NumOfShard = shards + extra
	verifAssert(ModifyShardAssignment(ids, cfg, grown, verifChoose("startIndex2", n), models.ShardID(shards)) == nil, "growth succeeds")
	c.sa = grown
	c.shards = shards + extra
	c.rememberPlacement()
	c.m.initializeShardState(sc, grown)
	c.invariant(true, "after growth")
	c.placementUnchanged("after growth")
	// one or two node events
	for ev := 0; ev < 2; ev++ {
		node := 1 + verifChoose("eventNode", n)
		if c.alive[node] {
			c.alive[node] = false
			c.state.NodeOffline(models.NodeID(node))
			c.m.onNodeFailure(c.state, models.NodeID(node))
			c.invariant(true, "node down after growth")
			c.placementUnchanged("node down after growth")
		} else {
			c.alive[node] = true
			sn := models.StatefulNode{ID: models.NodeID(node)}
			c.state.NodeOnline(sn)
			c.m.onNodeStartup(c.state, sn)
			c.invariant(true, "node up after growth")
			c.placementUnchanged("node up after growth")
		}
	}
	verifReach("end")
}

func verifC18StateReach() {
	c := verifArbitraryCluster(2, 1, 2)
	st := c.state.ShardStates["db"][models.ShardID(0)]
	verifObserve("state", c.alive[1], c.alive[2], st.State == models.OnlineShard, int(st.Leader))
	verifAssert(st.Leader != 2, "reach")
}
