package master

import "github.com/lindb/lindb/models"

func verifNodes(n int) []models.NodeID {
	ids := make([]models.NodeID, n)
	for i := range ids {
		ids[i] = models.NodeID(i + 1)
	}
	return ids
}

func verifCheckShard(r *models.Replica, rf, n int, label string) {
	verifAssert(r != nil, label+": shard exists")
	if r == nil {
		return
	}
	verifAssert(len(r.Replicas) == rf, label+": shard has exactly replica-factor replicas")
	for i := range r.Replicas {
		verifAssert(r.Replicas[i] >= 1 && int(r.Replicas[i]) <= n, label+": replica is one of the given nodes")
		for j := 0; j < i; j++ {
			verifAssert(r.Replicas[i] != r.Replicas[j], label+": replicas are distinct")
		}
	}
}

// C18 (placement): every cluster size, shard count, replica factor and start position.
func verifC18Assign() {
	maxNodes, maxShards := 4, 5
	if verifThorough() {
		maxNodes, maxShards = 6, 8
	}
	n := 1 + verifChoose("nodes", maxNodes)
	shards := 1 + verifChoose("shards", maxShards)
	rf := 1 + verifChoose("replicaFactor", n)
	start := int(verifRange("startIndex", 0, 1000))
	ids := verifNodes(n)
	cfg := &models.Database{Name: "db", NumOfShard: shards, ReplicaFactor: rf}
	sa, err := ShardAssignment(ids, cfg, start, -1)
	verifAssert(err == nil && sa != nil, "assignment succeeds")
	if sa == nil {
		return
	}
	verifAssert(len(sa.Shards) == shards, "one entry per shard")
	first := make([]int, n+1)
	for s := 0; s < shards; s++ {
		r := sa.Shards[models.ShardID(s)]
		verifCheckShard(r, rf, n, "create")
		if r != nil && len(r.Replicas) > 0 {
			first[int(r.Replicas[0])]++
		}
	}
	min, max := first[1], first[1]
	for i := 2; i <= n; i++ {
		if first[i] < min {
			min = first[i]
		}
		if first[i] > max {
			max = first[i]
		}
	}
	verifAssert(max-min <= 1, "first replicas are handed out round-robin (counts differ by at most one)")
	verifAssert(sa.GetReplicaFactor() == rf, "recorded replica factor")
	verifReach("end")
}

// growth keeps existing shards where they are and numbers new shards consecutively
func verifC18Grow() {
	maxNodes, maxShards := 3, 3
	if verifThorough() {
		maxNodes, maxShards = 5, 5
	}
	n := 1 + verifChoose("nodes", maxNodes)
	shards := 1 + verifChoose("shards", maxShards)
	extra := 1 + verifChoose("extra", 3)
	rf := 1 + verifChoose("replicaFactor", n)
	start := int(verifRange("startIndex", 0, 1000))
	start2 := int(verifRange("startIndex2", 0, 1000))
	ids := verifNodes(n)
	cfg := &models.Database{Name: "db", NumOfShard: shards, ReplicaFactor: rf}
	sa, err := ShardAssignment(ids, cfg, start, -1)
	verifAssert(err == nil && sa != nil, "assignment succeeds")
	if sa == nil {
		return
	}
	// remember the old placement
	old := make([][]models.NodeID, shards)
	for s := 0; s < shards; s++ {
		old[s] = append([]models.NodeID{}, sa.Shards[models.ShardID(s)].Replicas...)
	}
	cfg.NumOfShard = shards + extra
	err = ModifyShardAssignment(ids, cfg, sa, start2, models.ShardID(shards))
	verifAssert(err == nil, "growth succeeds")
	verifAssert(len(sa.Shards) == shards+extra, "new shards are numbered consecutively after the old ones")
	for s := 0; s < shards; s++ {
		r := sa.Shards[models.ShardID(s)]
		verifAssert(len(r.Replicas) == len(old[s]), "growth leaves an existing shard's replica count")
		for i := range old[s] {
			verifAssert(i < len(r.Replicas) && r.Replicas[i] == old[s][i], "growth leaves existing shards where they are")
		}
	}
	for s := shards; s < shards+extra; s++ {
		verifCheckShard(sa.Shards[models.ShardID(s)], rf, n, "grow")
	}
	verifReach("end")
}

func verifC18AssignReach() {
	start := int(verifRange("startIndex", 0, 1000))
	ids := verifNodes(3)
	cfg := &models.Database{Name: "db", NumOfShard: 2, ReplicaFactor: 2}
	sa, _ := ShardAssignment(ids, cfg, start, -1)
	r := sa.Shards[models.ShardID(1)]
	verifObserve("assign", start, int(r.Replicas[0]), int(r.Replicas[1]))
	verifAssert(r.Replicas[0] != 2, "reach")
}
