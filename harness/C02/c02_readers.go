package version

import (
	"errors"
	"time"

	"github.com/lindb/lindb/kv/table"
)

// C02 (a mapping stays alive as long as an open snapshot uses it): two snapshots over one version
// share a table file through the REAL reader cache (table.NewCache: reference counts, TTL clean-up).
// Snapshot A looks a key up that lives in a level-0 and a level-1 file; opening one of the files may
// fail once (a transient open / mmap failure); A closes; the TTL passes and the clean-up runs while
// snapshot B is still open: every reader B obtained is still open. After B closed as well and the
// TTL passed again, the clean-up closes everything (nothing is leaked by FindReaders / GetReader).

type verifSnapReader struct {
	table.Reader
	name   string
	closed bool
}

func (r *verifSnapReader) FileName() string { return r.name }
func (r *verifSnapReader) Close() error     { r.closed = true; return nil }

func verifC02SnapshotReaders() {
	var opened []*verifSnapReader
	failFile := []string{"", Table(10), Table(11)}[verifChoose("openFailsOnceFor", 3)]
	table.VerifSetReaderFunc(func(path, fileName string) (table.Reader, error) {
		if fileName == failFile {
			failFile = "" // once
			return nil, errors.New("open " + fileName + ": too many open files")
		}
		r := &verifSnapReader{name: fileName}
		opened = append(opened, r)
		return r, nil
	})
	ttl := verifRange("ttlMs", 120000, 600000)
	cache := table.NewCache("/store", time.Duration(ttl)*time.Millisecond)
	v := newVersion(1, &verifLoadFV{vs: verifLoadVS{}})
	v.AddFile(0, NewFileMeta(10, 1, 200, 50))
	v.AddFile(1, NewFileMeta(11, 1, 100, 50))
	// B reads a key that only the level-0 file covers, or one that both cover
	keyB := uint32(150)
	if verifChoose("keyOfBInBothFiles", 2) == 1 {
		keyB = 7
	}
	// B first or A first: who opens the shared files
	bFirst := verifChoose("snapshotBFirst", 2) == 1
	snapB := newSnapshot("f", v, cache)
	var heldByB []table.Reader
	if bFirst {
		heldByB, _ = snapB.FindReaders(keyB)
	}
	snapA := newSnapshot("f", v, cache)
	_, _ = snapA.FindReaders(7)
	if !bFirst {
		heldByB, _ = snapB.FindReaders(keyB)
	}
	snapA.Close()
	table.VerifAgeCache(cache, ttl+100000+verifRange("clockAdvanceMs", 0, 1200000))
	cache.Cleanup()
	for _, r := range heldByB {
		verifAssert(!r.(*verifSnapReader).closed, "a mapping that an open snapshot uses is never closed by the clean-up")
	}
	// B reads again through its snapshot: what it gets is open
	again, err := snapB.FindReaders(keyB)
	if err == nil {
		for _, r := range again {
			verifAssert(!r.(*verifSnapReader).closed, "a reader handed to an open snapshot is open")
		}
	}
	snapB.Close()
	table.VerifAgeCache(cache, ttl+100000)
	cache.Cleanup()
	for _, r := range opened {
		verifAssert(r.closed, "when no snapshot is open any more the expired mappings are closed (nothing leaks)")
	}
	verifReach("end")
}

func verifC02SnapshotReadersReach() {
	n := 0
	table.VerifSetReaderFunc(func(path, fileName string) (table.Reader, error) {
		n++
		return &verifSnapReader{name: fileName}, nil
	})
	cache := table.NewCache("/store", time.Minute)
	v := newVersion(1, &verifLoadFV{vs: verifLoadVS{}})
	max := uint32(verifRange("maxKey", 0, 100))
	v.AddFile(0, NewFileMeta(10, 1, max, 50))
	snap := newSnapshot("f", v, cache)
	rs, _ := snap.FindReaders(7)
	verifObserve("readers", max, len(rs), n)
	verifAssert(len(rs) == 0, "reach")
}
