package table

// Seam for the C02 snapshot-readers harness in package kv/version: the real reader cache with the
// function that maps a table file replaced (stand-in readers that record Close, an open that fails).
func VerifSetReaderFunc(fn func(path, fileName string) (Reader, error)) {
	newMMapStoreReaderFunc = fn
}

// VerifAgeCache makes every cached reader's last use ms milliseconds older (the harness's way to let
// time pass, identical in the engine and in native replays: the cache reads the clock only to stamp
// the last use and to compare it with the TTL).
func VerifAgeCache(c Cache, ms int64) {
	sc := c.(*storeCache)
	sc.mutex.Lock()
	defer sc.mutex.Unlock()
	for _, el := range sc.cache.items {
		el.Value.(*cacheEntry).last -= ms
	}
}
