package table

// Seam for the C02 snapshot-readers harness in package kv/version: the real reader cache with the
// function that maps a table file replaced (stand-in readers that record Close, an open that fails).
func VerifSetReaderFunc(fn func(path, fileName string) (Reader, error)) {
	newMMapStoreReaderFunc = fn
}
