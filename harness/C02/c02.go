package version

import (
	"github.com/lindb/lindb/kv/table"
)

// C02 (snapshot stability and file liveness): the real familyVersion / version / snapshot reference
// counting and the real CommitFamilyEditLog (on the file-system model of the C01 harness), with a
// reader thread (take snapshot, look at its files twice, close) against a writer thread that commits
// a flush and a compaction and then computes the set of files the obsolete-file cleanup may delete
// (everything that is not in an active version); every interleaving within the pre-emption bound.

func verifNumbers(files []*FileMeta) []table.FileNumber {
	var ns []table.FileNumber
	for _, f := range files {
		ns = append(ns, f.GetFileNumber())
	}
	// sort (few entries)
	for i := 1; i < len(ns); i++ {
		for j := i; j > 0 && ns[j] < ns[j-1]; j-- {
			ns[j], ns[j-1] = ns[j-1], ns[j]
		}
	}
	return ns
}

func verifSameNumbers(a, b []table.FileNumber) bool {
	if len(a) != len(b) {
		return false
	}
	for i := range a {
		if a[i] != b[i] {
			return false
		}
	}
	return true
}

func verifHas(l []table.FileNumber, n table.FileNumber) bool {
	for _, x := range l {
		if x == n {
			return true
		}
	}
	return false
}

// thorough: the same threads under pre-emption bound 3 (time-boxed)
func verifC02Snapshots3() { verifC02Snapshots() }

func verifC02Snapshots() {
	verifInstallFS()
	vs, fv, err := verifOpen(verifStoreDir())
	verifAssert(err == nil, "open")
	// initial content: one level-0 file
	n1 := vs.NextFileNumber()
	el := NewEditLog(1)
	el.Add(CreateNewFile(0, NewFileMeta(n1, 1, 10, 100)))
	verifAssert(vs.CommitFamilyEditLog("f", el) == nil, "initial commit")

	holding := false
	var held []table.FileNumber
	var allFiles = []table.FileNumber{n1}
	commits := 0

	reader := func() {
		commitsBefore := commits // commits that completed before this reader started
		snap := fv.GetSnapshot()
		first := verifNumbers(snap.GetCurrent().GetAllFiles())
		held = first
		holding = true
		// the obsolete-file cleanup may run at any moment: whenever the reader looks, the files of its
		// snapshot are among the files the cleanup keeps
		live := verifNumbers(fv.GetAllActiveFiles())
		for _, n := range first {
			verifAssert(verifHas(live, n), "the files of a held snapshot are alive (seen by the reader)")
		}
		verifYield()
		live = verifNumbers(fv.GetAllActiveFiles())
		for _, n := range first {
			verifAssert(verifHas(live, n), "the files of a held snapshot are alive (seen by the reader)")
		}
		second := verifNumbers(snap.GetCurrent().GetAllFiles())
		verifAssert(verifSameNumbers(first, second), "a held snapshot keeps showing exactly the files it had when it was taken")
		// the snapshot shows the state after k commits for some k >= commitsBefore:
		// {n1}, {n1,n2}, {n3}
		k := -1
		switch {
		case len(first) == 1 && first[0] == allFiles[0]:
			k = 0
		case len(first) == 2 && len(allFiles) >= 2 && first[0] == allFiles[0] && first[1] == allFiles[1]:
			k = 1
		case len(first) == 1 && len(allFiles) >= 3 && first[0] == allFiles[2]:
			k = 2
		}
		verifAssert(k >= 0, "a snapshot shows the content after a whole number of commits")
		verifAssert(k >= commitsBefore, "a reader that starts after a commit completed sees that commit")
		verifAssert(snap.GetCurrent().NumOfRef() > 0, "a held version is referenced")
		holding = false
		snap.Close()
	}
	writer := func() {
		// flush: a second level-0 file
		n2 := vs.NextFileNumber()
		allFiles = append(allFiles, n2)
		e1 := NewEditLog(1)
		e1.Add(CreateNewFile(0, NewFileMeta(n2, 5, 20, 100)))
		verifAssert(vs.CommitFamilyEditLog("f", e1) == nil, "flush commit")
		commits++
		// compaction: both level-0 files replaced by one level-1 file
		n3 := vs.NextFileNumber()
		allFiles = append(allFiles, n3)
		e2 := NewEditLog(1)
		e2.Add(NewDeleteFile(0, n1))
		e2.Add(NewDeleteFile(0, n2))
		e2.Add(CreateNewFile(1, NewFileMeta(n3, 1, 20, 200)))
		verifAssert(vs.CommitFamilyEditLog("f", e2) == nil, "compaction commit")
		commits++
		// obsolete-file cleanup: everything outside the active versions may be deleted now
		active := verifNumbers(fv.GetAllActiveFiles())
		if holding {
			for _, n := range held {
				verifAssert(verifHas(active, n), "no file that an open snapshot still shows is deletable")
			}
		}
		verifAssert(verifHas(active, n3), "the current version's files are never deletable")
	}
	verifSpawn(reader)
	verifSpawn(writer)
	if verifChoose("secondReader", 2) == 1 {
		verifSpawn(reader)
	}
	verifJoinAll()
	// when nobody holds a snapshot only the current version is active
	active := verifNumbers(fv.GetAllActiveFiles())
	verifAssert(len(active) == 1 && verifHas(active, allFiles[2]), "after all snapshots are closed only the current version's files are alive")
	verifReach("end")
}

func verifC02Reach() {
	verifInstallFS()
	vs, fv, _ := verifOpen(verifStoreDir())
	n1 := vs.NextFileNumber()
	min := uint32(verifRange("minKey", 0, 100))
	el := NewEditLog(1)
	el.Add(CreateNewFile(0, NewFileMeta(n1, min, 200, 100)))
	_ = vs.CommitFamilyEditLog("f", el)
	snap := fv.GetSnapshot()
	fs := snap.GetCurrent().FindFiles(50)
	verifObserve("find", min, len(fs))
	snap.Close()
	verifAssert(min != 51, "reach")
}
