package table

import "time"

// C02 (no mapping that a reader still uses is closed): the real storeCache (GetReader,
// ReleaseReaders, Cleanup, Evict, the LRU list) with stand-in readers that record Close, a symbolic
// clock (arbitrary non-decreasing instants) and a symbolic TTL. A history of operations out of
// {get a file's reader, release a held reader, clean-up, evict a file nobody holds}; after every
// operation no reader that is held (obtained and not yet released) is closed, GetReader never hands
// out a closed reader, and the clean-up closes an entry only when it is unreferenced and its last
// use is older than the TTL. A second harness runs a reader thread against a clean-up thread.

type verifCacheReader struct {
	Reader
	name   string
	closed bool
}

func (r *verifCacheReader) FileName() string { return r.name }
func (r *verifCacheReader) Close() error     { r.closed = true; return nil }

// time passes by making every cached entry older (the same in the engine and natively)
func verifCacheAge(c *storeCache, ms int64) {
	for _, el := range c.cache.items {
		el.Value.(*cacheEntry).last -= ms
	}
}

var verifCacheOpened []*verifCacheReader

func verifCacheSetup() *storeCache {
	verifCacheOpened = nil
	newMMapStoreReaderFunc = func(path, fileName string) (Reader, error) {
		r := &verifCacheReader{name: fileName}
		verifCacheOpened = append(verifCacheOpened, r)
		return r, nil
	}
	ttl := verifRange("ttlMs", 120000, 600000)
	return NewCache("/store", time.Duration(ttl)*time.Millisecond).(*storeCache)
}

func verifC02Cache() {
	c := verifCacheSetup()
	ttl := c.ttl.Milliseconds()
	files := []string{"000001.sst", "000002.sst"}
	held := map[string][]*verifCacheReader{} // file -> readers handed out and not yet released
	lastUse := map[string]int64{}
	steps := 4
	if verifThorough() {
		steps = 6
	}
	for s := 0; s < steps; s++ {
		age := verifRange("clockAdvanceMs", 0, 1200000)
		verifCacheAge(c, age)
		for k := range lastUse {
			lastUse[k] -= age
		}
		f := files[verifChoose("file", 2)]
		switch verifChoose("op", 4) {
		case 0: // get
			r, err := c.GetReader("fam", f)
			verifAssert(err == nil && r != nil, "a reader is available")
			cr := r.(*verifCacheReader)
			verifAssert(!cr.closed, "GetReader never hands out a closed reader")
			held[f] = append(held[f], cr)
			lastUse[f] = 0
		case 1: // release one reader of the file (if any is held)
			if n := len(held[f]); n > 0 {
				c.ReleaseReaders([]Reader{held[f][n-1]})
				held[f] = held[f][:n-1]
			}
		case 2: // clean-up
			before := map[*verifCacheReader]bool{}
			for _, r := range verifCacheOpened {
				before[r] = r.closed
			}
			c.Cleanup()
			for _, r := range verifCacheOpened {
				if r.closed && !before[r] {
					verifAssert(len(held[r.name]) == 0, "the clean-up closes only readers nobody holds")
					verifAssert(-lastUse[r.name]+60000 >= ttl, "the clean-up closes only readers whose last use is older than the TTL (60 s of slack: the engine's clock ticks one second per reading)")
				}
			}
		default: // evict (only files that no snapshot can hold any more: nobody holds a reader)
			if len(held[f]) == 0 {
				c.Evict(f)
			}
		}
		for _, f := range files {
			for _, r := range held[f] {
				verifAssert(!r.closed, "a reader that is held is never closed")
			}
		}
	}
	verifReach("end")
}

// a reader thread (get, use, release, twice) against a clean-up thread (two clean-ups at arbitrary
// moments, the clock far beyond the TTL)
func verifC02CacheConcurrent() {
	c := verifCacheSetup()
	verifSpawn(func() {
		for i := 0; i < 2; i++ {
			r, err := c.GetReader("fam", "000001.sst")
			verifAssert(err == nil, "a reader is available")
			cr := r.(*verifCacheReader)
			verifAssert(!cr.closed, "GetReader never hands out a closed reader")
			verifYield()
			verifAssert(!cr.closed, "a reader that is held is never closed")
			c.ReleaseReaders([]Reader{r})
		}
	})
	verifSpawn(func() {
		verifCacheAge(c, 10000000)
		c.Cleanup()
		verifYield()
		verifCacheAge(c, 10000000)
		c.Cleanup()
	})
	verifJoinAll()
	verifReach("end")
}

func verifC02CacheReach() {
	c := verifCacheSetup()
	r, _ := c.GetReader("fam", "000001.sst")
	c.ReleaseReaders([]Reader{r})
	adv := int64(verifChoose("agedBeyondTTL", 2)) * (c.ttl.Milliseconds() + 100000)
	verifCacheAge(c, adv)
	c.Cleanup()
	closed := r.(*verifCacheReader).closed
	verifObserve("cache", adv > 0, closed)
	verifAssert(!closed, "reach")
}
