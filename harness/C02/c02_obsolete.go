package kv

import (
	"fmt"
	"sync"

	"go.uber.org/atomic"

	"github.com/lindb/lindb/kv/table"
	"github.com/lindb/lindb/kv/version"
	"github.com/lindb/lindb/pkg/timeutil"
)

// C02 / C01 (no file that the current version, an unfinished writer or a pending rollup still needs
// is deleted): the real family.deleteObsoleteFiles(), as it runs at the end of the real
// family.backgroundCompactionJob() (real PickL0Compaction, real compactJob.Run: merge, install,
// cleanupCompaction), concurrently with a flush through the real storeFlusher (NewFlusher, Add,
// Commit, Release) and optionally a second, stand-alone clean-up, over real versions and real edit
// logs (kv/version seam: clone + wire round trip + apply per commit); every interleaving within the
// pre-emption bound. Scheduling points: every sync.Map / atomic / wait-group operation of the real
// code and every call into the stand-ins (directory listing, file removal, version reads, commit).
//
// Stand-ins: the store (file numbers, commit on the seam), the family version (current version only -
// versions kept alive by snapshots are the subject of verifC02Snapshots), table builders and readers
// ("the file exists on disk"), the merger (first value wins).

type verifOBWorld struct {
	removed  []table.FileNumber
	current  version.Version
	nextFile int64
	commits  int
}

type verifOBFV struct {
	version.FamilyVersion
	w *verifOBWorld
}

func (v *verifOBFV) GetAllActiveFiles() []*version.FileMeta {
	verifYield()
	r := v.w.current.GetAllFiles()
	verifYield()
	return r
}
func (v *verifOBFV) GetLiveRollupFiles() map[table.FileNumber][]timeutil.Interval {
	verifYield()
	return v.w.current.GetRollupFiles()
}
func (v *verifOBFV) GetSnapshot() version.Snapshot {
	verifYield()
	return &verifOBSnapshot{w: v.w, current: v.w.current}
}

type verifOBSnapshot struct {
	version.Snapshot
	w       *verifOBWorld
	current version.Version
}

func (s *verifOBSnapshot) GetCurrent() version.Version { return s.current }
func (s *verifOBSnapshot) Close()                      {}
func (s *verifOBSnapshot) GetReader(n table.FileNumber) (table.Reader, error) {
	verifYield()
	if !s.w.onDisk(n) {
		return nil, fmt.Errorf("open %s: no such file", version.Table(n))
	}
	return table.VerifOpenReader(verifOBFile(n))
}

func verifOBFile(n table.FileNumber) string { return verifOBPath + "/" + version.Table(n) }

func (w *verifOBWorld) onDisk(n table.FileNumber) bool {
	_, ok := table.VerifFiles[verifOBFile(n)]
	return ok
}

type verifOBStore struct {
	Store
	w  *verifOBWorld
	mu sync.Mutex // the version set serialises commits
}

func (s *verifOBStore) Option() StoreOption { return StoreOption{} }
func (s *verifOBStore) nextFileNumber() table.FileNumber {
	verifYield()
	s.w.nextFile++
	return table.FileNumber(s.w.nextFile)
}
func (s *verifOBStore) evictFamilyFile(table.FileNumber) {}
func (s *verifOBStore) commitFamilyEditLog(_ string, e version.EditLog) error {
	verifYield()
	s.mu.Lock()
	nv, err := version.VerifCommit(s.w.current, e)
	if err == nil {
		s.w.current = nv
		s.w.commits++
	}
	s.mu.Unlock()
	verifYield()
	return err
}

var verifOBW *verifOBWorld

type verifOBMerger struct{ flusher Flusher }

func (m *verifOBMerger) Init(map[string]interface{}) {}
func (m *verifOBMerger) Merge(key uint32, values [][]byte) error {
	return m.flusher.Add(key, values[0])
}

const verifOBPath = "/data/db/shard/1/segment/day/20190702/13"

func verifOBSetup() (*verifOBWorld, *family) {
	w := &verifOBWorld{current: version.VerifNewVersion(), nextFile: 10}
	verifOBW = w
	// the real store builder / stream writer / table reader over in-memory files (kv/table seam)
	table.VerifInstallWriter()
	table.VerifOnCreate = func(string) { verifYield() }
	listDirFunc = func(dir string) ([]string, error) {
		verifYield()
		var names []string
		for name := range table.VerifFiles {
			if len(name) > len(dir)+1 && name[:len(dir)+1] == dir+"/" {
				names = append(names, name[len(dir)+1:])
			}
		}
		return names, nil
	}
	removeDirFunc = func(path string) error {
		verifYield()
		if _, ok := table.VerifFiles[path]; ok {
			delete(table.VerifFiles, path)
			if fd := version.ParseFileName(path[len(verifOBPath)+1:]); fd != nil {
				w.removed = append(w.removed, fd.FileNumber)
			}
		}
		return nil
	}
	f := &family{
		name:              "13",
		store:             &verifOBStore{w: w},
		familyPath:        verifOBPath,
		option:            FamilyOption{ID: 3, Name: "13", CompactThreshold: 2},
		familyVersion:     &verifOBFV{w: w},
		lastRollupTime:    atomic.NewInt64(0),
		maxFileSize:       1 << 20,
		newCompactJobFunc: newCompactJob,
		merger:            func(flusher Flusher) (Merger, error) { return &verifOBMerger{flusher: flusher}, nil },
	}
	// history so far: two flushed level-0 files, and one table file left behind by a writer that died
	e := version.NewEditLog(3)
	for _, n := range []table.FileNumber{2, 4, 7} {
		b, err := table.NewStoreBuilder(n, verifOBFile(n))
		verifAssume(err == nil)
		verifAssume(b.Add(uint32(n), []byte{byte(n)}) == nil)
		verifAssume(b.Close() == nil)
		if n != 7 { // 7 is an orphan: written by a writer that died before its commit
			e.Add(version.CreateNewFile(0, version.NewFileMeta(n, b.MinKey(), b.MaxKey(), b.Size())))
		}
	}
	cur, err := version.VerifCommit(w.current, e)
	verifAssume(err == nil)
	w.current = cur
	return w, f
}

func verifOBCheck(w *verifOBWorld, what string) {
	for _, fm := range w.current.GetAllFiles() {
		verifAssert(w.onDisk(fm.GetFileNumber()), what)
	}
}

func verifC02ObsoleteVsWriters3() { verifC02ObsoleteVsWriters() }

func verifC02ObsoleteVsWriters() {
	w, f := verifOBSetup()
	flushed := table.FileNumber(0)
	flushDone := false
	flusher := func() {
		fl := f.NewFlusher()
		verifAssert(fl.Add(100, []byte{9}) == nil, "flusher accepts a key")
		sf := fl.(*storeFlusher)
		flushed = sf.builder.FileNumber()
		verifYield()
		// the writer is unfinished: its file must still be there
		verifAssert(w.onDisk(flushed), "the table of an unfinished writer is never deleted")
		err := fl.Commit()
		verifAssert(err == nil, "flush commit returns")
		flushDone = true
		verifAssert(w.onDisk(flushed), "the table of a flush that was committed is on disk")
		fl.Release()
	}
	compactor := func() {
		f.condition.Add(1)
		err := f.backgroundCompactionJob()
		f.condition.Done()
		verifAssert(err == nil, "compaction job runs")
	}
	cleaner := func() { f.deleteObsoleteFiles() }
	verifSpawn(flusher)
	variants := 2
	if verifThorough() {
		variants = 3 // all three parties at once
	}
	switch verifChoose("against", variants) {
	case 0:
		verifSpawn(compactor)
	case 1:
		verifSpawn(cleaner)
	default:
		verifSpawn(compactor)
		verifSpawn(cleaner)
	}
	verifJoinAll()
	verifAssert(flushDone, "the flush finished")
	verifOBCheck(w, "a file of the current version is never deleted")
	// the flushed table is in the current version, or a compaction that started after the flush merged it:
	// either way every committed key lies in a table of the current version (and that table is on disk)
	for _, key := range []uint32{2, 4, 100} {
		has := false
		for _, fm := range w.current.GetAllFiles() {
			if fm.GetMinKey() <= key && key <= fm.GetMaxKey() && w.onDisk(fm.GetFileNumber()) {
				has = true
			}
		}
		verifAssert(has, "every committed key is in a table of the current version that is on disk")
	}
	// a clean-up when everything is quiet removes what nobody needs, and only that
	f.deleteObsoleteFiles()
	verifOBCheck(w, "a file of the current version is never deleted")
	verifAssert(!w.onDisk(7), "a table nobody references is removed by the clean-up")
	verifAssert(len(table.VerifFiles) == len(w.current.GetAllFiles()), "after a quiet clean-up the directory holds exactly the current version's tables")
	// every committed key can be read from the tables of the current version (real readers)
	for _, key := range []uint32{2, 4, 100} {
		found := false
		for _, fm := range w.current.GetAllFiles() {
			r, err := table.VerifOpenReader(verifOBFile(fm.GetFileNumber()))
			if err != nil {
				continue
			}
			if v, err := r.Get(key); err == nil && len(v) == 1 {
				found = true
			}
		}
		verifAssert(found, "every committed key is readable from the current version's tables")
	}
	verifReach("end")
}

func verifC02ObsoleteReach() {
	w, f := verifOBSetup()
	k := uint32(verifRange("key", 0, 1000))
	fl := f.NewFlusher()
	_ = fl.Add(k, []byte{9})
	_ = fl.Commit()
	fl.Release()
	f.deleteObsoleteFiles()
	files := w.current.GetAllFiles()
	// (the order of the files is a map order natively: observe something that does not depend on it)
	found := false
	for _, fm := range files {
		if fm.GetMinKey() == k && fm.GetMaxKey() == k {
			found = true
		}
	}
	verifObserve("obsolete", k, len(files), len(w.removed), found)
	verifAssert(k != 77, "reach")
}
