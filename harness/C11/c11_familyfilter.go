package tsdb

import (
	"errors"
	"fmt"

	"github.com/lindb/roaring"
	"go.uber.org/atomic"

	"github.com/lindb/lindb/constants"
	"github.com/lindb/lindb/flow"
	"github.com/lindb/lindb/kv"
	"github.com/lindb/lindb/kv/table"
	"github.com/lindb/lindb/kv/version"
	"github.com/lindb/lindb/pkg/timeutil"
	"github.com/lindb/lindb/series/field"
	"github.com/lindb/lindb/sql/stmt"
	"github.com/lindb/lindb/tsdb/memdb"
	"github.com/lindb/lindb/tsdb/tblstore/metricsdata"
)

// C11 (the answer does not depend on when memory databases were flushed): the real
// dataFamily.Filter / memoryFilter / fileFilter and the real metricsdata filter over the three
// places a family keeps data in - the mutable memory database, the one being flushed, and one or two
// flushed files. Each of two series of a metric lives in any subset of those places (choice), a file
// has a symbolic slot range, the query asks for one or both series over a symbolic time range.
// What the family hands to the query covers exactly the queried series that are stored somewhere
// (in a file only when its slot range overlaps the query's): a place that has none of the queried
// series - it answers "not found" - never hides what another place of the same family has.

type verifFFMemDB struct {
	memdb.MemoryDatabase
	name   string
	series *roaring.Bitmap
}

type verifFFResultSet struct {
	flow.FilterResultSet
	id     string
	series *roaring.Bitmap
}

func (r *verifFFResultSet) Identifier() string         { return r.id }
func (r *verifFFResultSet) SeriesIDs() *roaring.Bitmap { return r.series }

// the memory database's Filter as tsdb/memdb has it: nil when it does not know the metric, an error
// wrapping ErrSeriesIDNotFound when none of the queried series is in it
func (m *verifFFMemDB) Filter(ctx *flow.ShardExecuteContext) ([]flow.FilterResultSet, error) {
	if m.series.IsEmpty() {
		return nil, nil
	}
	match := roaring.FastAnd(ctx.SeriesIDsAfterFiltering, m.series)
	if match.IsEmpty() {
		return nil, fmt.Errorf("%w when Filter", constants.ErrSeriesIDNotFound)
	}
	return []flow.FilterResultSet{&verifFFResultSet{id: m.name, series: match}}, nil
}

type verifFFReader struct {
	metricsdata.MetricReader
	path   string
	series *roaring.Bitmap
	slots  timeutil.SlotRange
}

func (r *verifFFReader) Path() string                  { return r.path }
func (r *verifFFReader) GetSeriesIDs() *roaring.Bitmap { return r.series }
func (r *verifFFReader) GetFields() field.Metas {
	return field.Metas{{ID: 1, Type: field.SumField, Name: "f"}}
}
func (r *verifFFReader) GetTimeRange() timeutil.SlotRange { return r.slots }

type verifFFTable struct {
	table.Reader
	path string
}

func (t *verifFFTable) Path() string               { return t.path }
func (t *verifFFTable) Get(uint32) ([]byte, error) { return []byte(t.path), nil }

type verifFFSnapshot struct {
	version.Snapshot
	tables []table.Reader
	closed *bool
}

func (s *verifFFSnapshot) FindReaders(uint32) ([]table.Reader, error) { return s.tables, nil }
func (s *verifFFSnapshot) Close()                                     { *s.closed = true }

type verifFFFamily struct {
	kv.Family
	tables []table.Reader
	closed bool
}

func (f *verifFFFamily) GetSnapshot() version.Snapshot {
	return &verifFFSnapshot{tables: f.tables, closed: &f.closed}
}

func verifC11FamilyFilter() {
	const familyTime = int64(1700002800000) // 2023-11-14 23:00:00 UTC
	ids := []uint32{3, 70000}
	// where each series lives: bit 0 mutable memory database, bit 1 immutable one, bit 2 file 1, bit 3 file 2
	places := [2]int{verifChoose("placesOfSeries0", 8), verifChoose("placesOfSeries1", 8) * 2}
	// (series 1 uses bits 1..3: immutable, file 1, file 2; series 0 bits 0..2: mutable, immutable, file 1)
	holds := func(bit int) *roaring.Bitmap {
		b := roaring.New()
		for i := 0; i < 2; i++ {
			if places[i]&(1<<uint(bit)) != 0 {
				b.Add(ids[i])
			}
		}
		return b
	}
	readers := map[string]*verifFFReader{}
	fam := &verifFFFamily{}
	for n, bit := range []int{2, 3} {
		s := holds(bit)
		if s.IsEmpty() {
			continue
		}
		path := []string{"file1", "file2"}[n]
		lo := verifRange("fileSlotStart", 0, 359)
		hi := verifRange("fileSlotEnd", 0, 359)
		verifAssume(lo <= hi)
		readers[path] = &verifFFReader{path: path, series: s, slots: timeutil.SlotRange{Start: uint16(lo), End: uint16(hi)}}
		fam.tables = append(fam.tables, &verifFFTable{path: path})
	}
	newReaderFunc = func(path string, _ []byte) (metricsdata.MetricReader, error) { return readers[path], nil }
	newFilterFunc = metricsdata.NewFilter
	f := &dataFamily{
		family:       fam,
		familyTime:   familyTime,
		timeRange:    timeutil.TimeRange{Start: familyTime, End: familyTime + 3600000 - 1},
		lastReadTime: atomic.NewInt64(0),
		interval:     timeutil.Interval(10000),
	}
	if m := holds(0); !m.IsEmpty() || verifChoose("emptyMutableExists", 2) == 1 {
		f.mutableMemDB = &verifFFMemDB{name: "mutable", series: m}
	}
	if m := holds(1); !m.IsEmpty() {
		f.immutableMemDB = &verifFFMemDB{name: "immutable", series: m}
	}
	qsel := 1 + verifChoose("queriedSeries", 3) // bit i: series i is queried
	queried := roaring.New()
	for i := 0; i < 2; i++ {
		if qsel&(1<<uint(i)) != 0 {
			queried.Add(ids[i])
		}
	}
	qs := verifRange("queryStartSlot", 0, 359)
	qe := verifRange("queryEndSlot", 0, 359)
	verifAssume(qs <= qe)
	q := &stmt.Query{StorageInterval: timeutil.Interval(10000), Interval: timeutil.Interval(10000), IntervalRatio: 1,
		TimeRange: timeutil.TimeRange{Start: familyTime + qs*10000, End: familyTime + qe*10000}}
	ctx := &flow.ShardExecuteContext{
		StorageExecuteCtx:       &flow.StorageExecuteContext{Query: q, MetricID: 7, Fields: field.Metas{{ID: 1, Type: field.SumField, Name: "f"}}},
		SeriesIDsAfterFiltering: queried,
	}
	rs, err := f.Filter(ctx)
	// reference: per place, the queried series it holds (a file only when its slots overlap the query's)
	want := map[string]*roaring.Bitmap{}
	for bit, name := range []string{"mutable", "immutable", "file1", "file2"} {
		m := roaring.FastAnd(queried, holds(bit))
		if m.IsEmpty() {
			continue
		}
		if r, ok := readers[name]; ok {
			if int64(r.slots.End) < qs || int64(r.slots.Start) > qe {
				continue
			}
		}
		want[name] = m
	}
	if len(want) == 0 {
		verifAssert(len(rs) == 0, "nothing stored for the queried series: no result set")
		verifAssert(err == nil || errors.Is(err, constants.ErrNotFound), "nothing stored for the queried series: no error other than not-found")
		verifReach("nothing")
		return
	}
	verifAssert(err == nil, "a place without the queried series does not turn the family's answer into an error")
	verifAssert(len(rs) == len(want), "one result set per place that holds queried series")
	seen := map[string]bool{}
	for _, r := range rs {
		id := r.Identifier()
		w, ok := want[id]
		verifAssert(ok && !seen[id], "every result set comes from a place that holds queried series, once")
		seen[id] = true
		if ok {
			verifAssert(r.SeriesIDs().Equals(w), "a place contributes exactly the queried series it holds")
		}
	}
	verifReach("end")
}

func verifC11FamilyFilterReach() {
	const familyTime = int64(1700002800000)
	s := roaring.BitmapOf(3)
	lo := verifRange("fileSlotStart", 0, 359)
	readers := map[string]*verifFFReader{"file1": {path: "file1", series: s, slots: timeutil.SlotRange{Start: uint16(lo), End: 359}}}
	fam := &verifFFFamily{tables: []table.Reader{&verifFFTable{path: "file1"}}}
	newReaderFunc = func(path string, _ []byte) (metricsdata.MetricReader, error) { return readers[path], nil }
	newFilterFunc = metricsdata.NewFilter
	f := &dataFamily{family: fam, familyTime: familyTime, timeRange: timeutil.TimeRange{Start: familyTime, End: familyTime + 3600000 - 1},
		lastReadTime: atomic.NewInt64(0), interval: timeutil.Interval(10000)}
	q := &stmt.Query{StorageInterval: timeutil.Interval(10000), Interval: timeutil.Interval(10000), IntervalRatio: 1,
		TimeRange: timeutil.TimeRange{Start: familyTime, End: familyTime + 100*10000}}
	ctx := &flow.ShardExecuteContext{StorageExecuteCtx: &flow.StorageExecuteContext{Query: q, MetricID: 7, Fields: field.Metas{{ID: 1, Type: field.SumField, Name: "f"}}},
		SeriesIDsAfterFiltering: roaring.BitmapOf(3)}
	rs, _ := f.Filter(ctx)
	verifObserve("filter", lo, len(rs))
	verifAssert(len(rs) == 0, "reach")
}
