package memdb

import (
	"math"

	"github.com/lindb/lindb/pkg/encoding"
	"github.com/lindb/lindb/series/field"
)

// C11 kernel (field store): a sequence of writes (slot, value) to one field of one series – slots
// inside and outside the current window, duplicates, decreasing slots – followed by a flush; the
// flushed block holds for every slot the field-type fold of exactly the values written to it.

const verifWindow = 4 // slots per write window in this harness (the buffer is headLen + window*8 bytes)

func verifFieldType() field.Type {
	types := []field.Type{field.SumField, field.MinField, field.MaxField, field.LastField, field.FirstField}
	return types[verifChoose("fieldType", len(types))]
}

func verifValue(tag string) float64 {
	v := verifNondetFloat64(tag)
	verifAssume(!math.IsNaN(v) && !math.IsInf(v, 0)) // ingestion rejects NaN and Inf
	return v
}

func verifFieldStore(nWrites int, slotLo, slotHi int64) {
	md := &memoryDatabase{}
	buf := make([]byte, headLen+verifWindow*valueSize)
	ft := verifFieldType()
	slots := make([]uint16, nWrites)
	vals := make([]float64, nWrites)
	for i := 0; i < nWrites; i++ {
		// slot positions are a case split (one path each): a symbolic position would spread every
		// store over the whole buffer; the values stay symbolic
		slots[i] = uint16(slotLo + int64(verifChoose("slot", int(slotHi-slotLo+1))))
		vals[i] = verifValue("value")
		write(md, buf, 1, 0, ft, slots[i], vals[i])
	}
	// flush as flushFieldTo does
	compress := md.getFieldCompressBuffer(1, 0)
	var decoder *encoding.TSDDecoder
	if len(compress) > 0 {
		decoder = encoding.NewTSDDecoder(compress)
	}
	sr := slotRange(getStart(buf), buf, compress)
	encoder := encoding.NewTSDEncoder(sr.Start)
	data, err := merge(ft, buf, encoder, decoder, getStart(buf), sr, true)
	verifAssert(err == nil, "flush succeeds")
	out := encoding.NewTSDDecoder(data)
	verifAssert(out.Error() == nil, "flushed block decodes")
	// expected content: fold of the values written to a slot, in write order
	probe := uint16(slotLo + int64(verifChoose("probe", int(slotHi-slotLo+1))))
	var want float64
	has := false
	for i := 0; i < nWrites; i++ {
		if slots[i] == probe {
			if has {
				want = ft.AggType().Aggregate(want, vals[i])
			} else {
				want, has = vals[i], true
			}
		}
	}
	var got float64
	gotHas := false
	if probe >= out.StartTime() && probe <= out.EndTime() {
		for s := out.StartTime(); s <= probe; s++ {
			v, ok := out.GetValue(s)
			if s == probe {
				got, gotHas = v, ok
			}
		}
	}
	verifAssert(gotHas == has, "a slot holds a value exactly when something was written to it")
	if has && gotHas {
		verifCheckFold(ft, got, want, slots, vals, probe)
	}
	verifReach("end")
}

// verifCheckFold: got is the fold of the values written to the probe slot. For sum fields with three
// contributions any association order is the exact aggregate (floating point addition is not
// associative and a window change re-associates: compressed + (a + b)); with more than three
// contributions only presence is checked.
func verifCheckFold(ft field.Type, got, want float64, slots []uint16, vals []float64, probe uint16) {
	var c []float64
	for i := range slots {
		if slots[i] == probe {
			c = append(c, vals[i])
		}
	}
	if ft.AggType() == field.Sum && len(c) >= 3 {
		if len(c) == 3 {
			d := func(x float64) uint64 {
				v := math.Float64bits(got) ^ math.Float64bits(x)
				return (v | (0 - v)) >> 63
			}
			verifAssert(d((c[0]+c[1])+c[2])&d(c[0]+(c[1]+c[2]))&d((c[0]+c[2])+c[1]) == 0, "a slot holds the sum of exactly the values written to it (any association)")
		}
		return
	}
	verifAssert(math.Float64bits(got) == math.Float64bits(want), "a slot holds the fold of exactly the values written to it")
}

// verifC11WindowChange: two writes into one window, a write that changes the window (forward or
// backward), then a write into the new window at any position: nothing of the old window shows
// through (mark bits, values, end), the old window is found in the compressed block.
func verifC11WindowChange() {
	md := &memoryDatabase{}
	buf := make([]byte, headLen+verifWindow*valueSize)
	ft := verifFieldType()
	base := uint16(20)
	d1 := uint16(verifChoose("d1", verifWindow))
	var newStart uint16
	if verifChoose("backward", 2) == 1 {
		newStart = base - uint16(verifWindow) - uint16(verifChoose("gap", 2))
	} else {
		newStart = base + uint16(verifWindow) + uint16(verifChoose("gap", 2))
	}
	d2 := uint16(verifChoose("d2", verifWindow))
	slots := []uint16{base, base + d1, newStart, newStart + d2}
	vals := make([]float64, len(slots))
	for i := range slots {
		vals[i] = verifValue("value")
		write(md, buf, 1, 0, ft, slots[i], vals[i])
	}
	compress := md.getFieldCompressBuffer(1, 0)
	var decoder *encoding.TSDDecoder
	if len(compress) > 0 {
		decoder = encoding.NewTSDDecoder(compress)
	}
	sr := slotRange(getStart(buf), buf, compress)
	encoder := encoding.NewTSDEncoder(sr.Start)
	data, err := merge(ft, buf, encoder, decoder, getStart(buf), sr, true)
	verifAssert(err == nil, "flush succeeds")
	out := encoding.NewTSDDecoder(data)
	// every slot of both windows
	for _, w := range []uint16{base, newStart} {
		for k := uint16(0); k < uint16(verifWindow); k++ {
			probe := w + k
			var want float64
			has := false
			for i := range slots {
				if slots[i] == probe {
					if has {
						want = ft.AggType().Aggregate(want, vals[i])
					} else {
						want, has = vals[i], true
					}
				}
			}
			out.Reset(data)
			var got float64
			gotHas := false
			if probe >= out.StartTime() && probe <= out.EndTime() {
				for s := out.StartTime(); s <= probe; s++ {
					v, ok := out.GetValue(s)
					if s == probe {
						got, gotHas = v, ok
					}
				}
			}
			verifAssert(gotHas == has, "window change: a slot holds a value exactly when something was written to it")
			if has && gotHas {
				verifAssert(math.Float64bits(got) == math.Float64bits(want), "window change: a slot holds the fold of exactly the values written to it")
			}
		}
	}
	verifReach("end")
}

// inside one window (no compaction): 3 writes anywhere in the window of the first write
func verifC11FieldWindow() {
	md := &memoryDatabase{}
	_ = md
	verifFieldStoreWindow()
}

func verifFieldStoreWindow() {
	buf := make([]byte, headLen+8*valueSize)
	ft := verifFieldType()
	first := []uint16{0, 300, 65535 - 7}[verifChoose("firstSlot", 3)]
	n := 3
	slots := make([]uint16, n)
	vals := make([]float64, n)
	for i := 0; i < n; i++ {
		if i == 0 {
			slots[i] = first
		} else {
			slots[i] = first + uint16(verifChoose("delta", 8))
		}
		vals[i] = verifValue("value")
		write(nil, buf, 1, 0, ft, slots[i], vals[i])
	}
	probe := first + uint16(verifChoose("probe", 8))
	var want float64
	has := false
	for i := 0; i < n; i++ {
		if slots[i] == probe {
			if has {
				want = ft.AggType().Aggregate(want, vals[i])
			} else {
				want, has = vals[i], true
			}
		}
	}
	got, gotHas := getCurrentValue(buf, getStart(buf), probe)
	verifAssert(gotHas == has, "window: a slot is readable exactly when something was written to it")
	if has && gotHas {
		verifAssert(math.Float64bits(got) == math.Float64bits(want), "window: a slot holds the fold of the values written to it")
	}
	verifReach("end")
}

func verifC11FieldStore2() { verifFieldStore(2, 10, 15) }
func verifC11FieldStore3() { verifFieldStore(3, 10, 14) }
func verifC11FieldStore4() { verifFieldStore(4, 10, 14) }

func verifC11FieldReach() {
	buf := make([]byte, headLen+8*valueSize)
	s := uint16(verifRange("firstSlot", 0, 1000))
	v := verifValue("value")
	write(nil, buf, 1, 0, field.SumField, s, v)
	write(nil, buf, 1, 0, field.SumField, s+2, v)
	got, ok := getCurrentValue(buf, getStart(buf), s+2)
	verifObserve("field", s, math.Float64bits(v), ok, math.Float64bits(got), getEnd(buf))
	verifAssert(s != 17, "reach")
}
