package memdb

import (
	"github.com/lindb/roaring"
)

// C11 (a series that was written is found by queries and flushes): the real timeSeriesIndex of a
// metric (tags hash -> memory series id, series id -> memory series id, expiry marks, GC) under the
// life cycle the shard drives: three series are written (GenMemTimeSeriesID, and IndexTimeSeries for
// a new memory id, as the index worker does), a memory database closes (its memory ids are marked
// expired at t1 and a GC runs, as IndexDatabase.Cleanup does), some series are written again, a
// second memory database closes at t2 with a GC at a symbolic time, series are written again.
// Reference: a write clears the series' expiry mark; a GC at g may drop exactly the series whose
// mark is older than g. After every step every series that is not dropped resolves - by tags hash
// and by series id - to one and the same memory series id (the one its pages are stored under), and
// a series written again after it was dropped resolves to its new memory id both ways.

type verifSIModel struct {
	hash   uint64
	series uint32
	mem    uint32 // current memory series id (0: none)
	live   bool
	mark   int64 // expiry mark, -1: none
}

func verifC11SeriesIndex() {
	idx := NewTimeSeriesIndex().(*timeSeriesIndex)
	ms := []*verifSIModel{{hash: 103, series: 3, mark: -1}, {hash: 109, series: 9, mark: -1}, {hash: 170, series: 70000, mark: -1}}
	next := uint32(0)
	newID := func() uint32 { next++; return next }
	write := func(m *verifSIModel) {
		memID, isNew := idx.GenMemTimeSeriesID(m.hash, newID)
		if isNew {
			idx.IndexTimeSeries(m.series, memID) // the index worker links the new memory id
		}
		if !m.live {
			m.live = true
			m.mem = memID
		}
		verifAssert(memID == m.mem, "a series keeps its memory series id while it is not dropped")
		m.mark = -1
	}
	check := func(when string) {
		for _, m := range ms {
			if !m.live {
				continue
			}
			v, ok := idx.hashes.Load(m.hash)
			verifAssert(ok && v.(uint32) == m.mem, when+": a written series resolves by its tags hash to its memory series id")
			id, ok := idx.ids.Get(m.series)
			verifAssert(ok && id == m.mem, when+": a written series resolves by its series id to the memory series id its pages are stored under")
		}
	}
	expire := func(which []*verifSIModel, t int64) {
		b := roaring.New()
		for _, m := range which {
			if m.live {
				b.Add(m.mem)
				m.mark = t
			}
		}
		idx.ExpireTimeSeriesIDs(b, t)
	}
	gc := func(g int64) {
		idx.GC(g)
		for _, m := range ms {
			if m.live && m.mark >= 0 && m.mark < g {
				m.live, m.mem, m.mark = false, 0, -1
			}
		}
	}
	// memory database #1 receives the first writes
	n := 2 + verifChoose("series", 2)
	for i := 0; i < n; i++ {
		write(ms[i])
	}
	check("after the first writes")
	t1 := verifRange("t1", 1000, 2000)
	expire(ms[:n], t1) // memory database #1 closes
	gc(t1 - 500)       // Cleanup: gc at (now - 3h)
	check("after the first close")
	// memory database #2: some series go on being written
	var second []*verifSIModel
	sel := verifChoose("writtenAgain", 8) // bit i: series i is written again
	for i := 0; i < n; i++ {
		if sel&(1<<uint(i)) != 0 {
			write(ms[i])
			second = append(second, ms[i])
		}
	}
	check("after the second writes")
	t2 := verifRange("t2", 2001, 9000)
	if verifChoose("secondCloseHoldsThem", 2) == 1 {
		expire(second, t2) // memory database #2 (holding the series written again) closes
	} else {
		expire(nil, t2) // another memory database closes that holds none of them
	}
	g := verifRange("gcTimestamp", 0, 9000)
	verifAssume(g <= t2)
	gc(g)
	check("after the second close")
	// and the series are written again
	sel2 := verifChoose("writtenAfterGC", 8)
	for i := 0; i < n; i++ {
		if sel2&(1<<uint(i)) != 0 {
			write(ms[i])
		}
	}
	check("after the last writes")
	verifReach("end")
}

func verifC11SeriesIndexReach() {
	idx := NewTimeSeriesIndex().(*timeSeriesIndex)
	next := uint32(0)
	newID := func() uint32 { next++; return next }
	id, _ := idx.GenMemTimeSeriesID(103, newID)
	idx.IndexTimeSeries(3, id)
	t := verifRange("t1", 1000, 2000)
	idx.ExpireTimeSeriesIDs(roaring.BitmapOf(id), t)
	g := verifRange("gcTimestamp", 0, 9000)
	idx.GC(g)
	_, ok := idx.hashes.Load(uint64(103))
	verifObserve("gc", t, g, ok)
	verifAssert(ok, "reach")
}
