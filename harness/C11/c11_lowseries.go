package flow

import "github.com/lindb/roaring"

// C11 (which stored series a query reads): the series ids selected by the tag condition (one roaring
// container of the query) against the series ids a storage unit holds (sst block, memory database,
// forward index block). DataLoadContext.Grouping + IterateLowSeriesIDs must call back exactly for the
// ids in both sets, in ascending order, each with its position in the query's id range and its rank
// in the storage unit - the rank is the index under which the unit stores that series' data, so a
// wrong rank reads another series' points.
func verifC11LowSeries() {
	// the query's ids: a non-empty subset of {10..13} (a case split: Grouping sizes its table by their
	// range); the storage unit's ids: one to three arbitrary ascending ids
	mask := 1 + verifChoose("queryIDSet", 15)
	ns := 1 + verifChoose("storageIDs", 3)
	q := roaring.New()
	s := roaring.New()
	var qs []uint16
	for b := 0; b < 4; b++ {
		if mask&(1<<uint(b)) != 0 {
			qs = append(qs, uint16(10+b))
			q.Add(uint32(10 + b))
		}
	}
	nq := len(qs)
	ss := make([]uint16, ns)
	for i := range ss {
		ss[i] = uint16(verifRange("s", 0, 65535))
		if i > 0 {
			verifAssume(ss[i] > ss[i-1])
		}
		s.Add(uint32(ss[i]))
	}
	ctx := &DataLoadContext{LowSeriesIDsContainer: q.GetContainerAtIndex(0)}
	ctx.Grouping()
	verifAssert(ctx.MinSeriesID == qs[0] && ctx.MaxSeriesID == qs[nq-1], "id range of the query")
	type hit struct {
		fromQuery   uint16
		fromStorage int
	}
	var hits []hit
	ctx.IterateLowSeriesIDs(s.GetContainerAtIndex(0), func(a uint16, b int) { hits = append(hits, hit{a, b}) })
	// reference
	k := 0
	for j := range ss {
		in := false
		for i := range qs {
			if qs[i] == ss[j] {
				in = true
			}
		}
		if !in {
			continue
		}
		verifAssert(k < len(hits), "every series that the query selects and the unit stores is read")
		if k < len(hits) {
			verifAssert(hits[k].fromQuery == ss[j]-qs[0], "the series is reported at its position in the query's id range")
			verifAssert(hits[k].fromStorage == j, "the series is read under its own rank in the storage unit")
		}
		k++
	}
	verifAssert(k == len(hits), "no other series is read")
	verifReach("end")
}

func verifC11LowSeriesReach() {
	q := roaring.New()
	s := roaring.New()
	a := uint16(verifRange("q", 0, 65535))
	q.Add(uint32(a))
	s.Add(3)
	s.Add(uint32(a))
	ctx := &DataLoadContext{LowSeriesIDsContainer: q.GetContainerAtIndex(0)}
	ctx.Grouping()
	n, r := 0, -1
	ctx.IterateLowSeriesIDs(s.GetContainerAtIndex(0), func(_ uint16, b int) { n++; r = b })
	verifObserve("low", a, n, r)
	verifAssert(a != 9, "reach")
}
