package function

import (
	"math"

	"github.com/lindb/lindb/pkg/collections"
)

// C11 (functions: quantile over a histogram): the real QuantileCall over three buckets (upper bounds
// 1, 2, +Inf) and two query slots. Slot 0 holds a value in every bucket or only in one of them,
// slot 1 holds a value in an arbitrary subset of the buckets (the memory database writes a bucket
// only when its count is above zero, so absent buckets are the normal case); the counts of slot 1 are a case split
// over {0, 1, 4} (slot 0: 10), q is 0.5, 0.75 or 1. What is computed for a slot depends on that slot's bucket counts only: it
// equals what QuantileCall returns for a one-slot histogram holding just that slot (the reference
// "bucket by slot, then apply the function"), whatever the other slot holds.

var verifQuantileBounds = []float64{1, 2, math.Inf(1)}

func verifQuantileCount(tag string) float64 {
	// counts are a case split over {0, 1, 4}: z3 does not decide the 64-bit floating-point
	// multiplication / division of QuantileCall over symbolic counts within the query cap (probed:
	// unknown after 5 s per branch), so this harness is bounded exhaustive execution of the real code
	return []float64{0, 1, 4}[verifChoose(tag, 3)]
}

func verifC11Quantile() {
	q := []float64{0.5, 0.75, 1}[verifChoose("q", 3)]
	const nb = 3
	var present [2][nb]bool
	var counts [2][nb]float64
	if verifChoose("slot0", 2) == 0 {
		present[0] = [nb]bool{true, true, true}
	} else {
		present[0] = [nb]bool{false, true, false}
	}
	sub := verifChoose("slot1Buckets", 8)
	for b := 0; b < nb; b++ {
		present[1][b] = sub&(1<<uint(b)) != 0
	}
	for p := 0; p < 2; p++ {
		for b := 0; b < nb; b++ {
			if present[p][b] {
				if p == 0 {
					counts[p][b] = 10
				} else {
					counts[p][b] = verifQuantileCount("count")
				}
			}
		}
	}
	build := func(slots []int) map[float64][]*collections.FloatArray {
		m := map[float64][]*collections.FloatArray{}
		for b := 0; b < nb; b++ {
			fa := collections.NewFloatArray(len(slots))
			for i, p := range slots {
				if present[p][b] {
					fa.SetValue(i, counts[p][b])
				}
			}
			m[verifQuantileBounds[b]] = []*collections.FloatArray{fa}
		}
		return m
	}
	both, err := QuantileCall(q, build([]int{0, 1}))
	verifAssert(err == nil && both != nil, "quantile over two slots is computed")
	if err != nil || both == nil {
		return
	}
	for p := 0; p < 2; p++ {
		one, err := QuantileCall(q, build([]int{p}))
		verifAssert(err == nil && one != nil, "quantile over one slot is computed")
		if err != nil || one == nil {
			continue
		}
		verifAssert(both.HasValue(p) == one.HasValue(0), "a slot has a quantile exactly when the slot alone has one")
		if both.HasValue(p) && one.HasValue(0) {
			a, b := both.GetValue(p), one.GetValue(0)
			verifAssert(math.Float64bits(a) == math.Float64bits(b) || (a != a && b != b), "the quantile of a slot is computed from that slot's bucket counts only")
		}
	}
	verifReach("end")
}

func verifC11QuantileReach() {
	c := []float64{1, 4, 7}[verifChoose("count", 3)]
	m := map[float64][]*collections.FloatArray{}
	for b := 0; b < 3; b++ {
		fa := collections.NewFloatArray(1)
		fa.SetValue(0, c)
		m[verifQuantileBounds[b]] = []*collections.FloatArray{fa}
	}
	r, _ := QuantileCall(0.5, m)
	verifObserve("quantile", int(c), math.Float64bits(r.GetValue(0)))
	verifAssert(r.GetValue(0) != 1.5, "reach")
}
