package stage

import (
	"github.com/lindb/lindb/aggregation"
	"github.com/lindb/lindb/flow"
	"github.com/lindb/lindb/pkg/timeutil"
	"github.com/lindb/lindb/sql/stmt"
)

// C11 (which query slot a stored point lands in): the real dataLoadStage.Plan (base slot, source slot
// range of the family inside the query range, interval ratio) and the real aggregation.DownSampling
// for a 10 s storage interval, an hourly family anywhere relative to the query range, a query range
// aligned to the storage interval as the planner leaves it, an interval ratio out of {1, 6, 30} and
// a stored point at an arbitrary slot of the family: the point is emitted exactly when its timestamp
// lies in the query range, once, at the query slot (timestamp - query start) / query interval.

type verifOnePoint struct {
	slot  uint16
	value float64
}

func (p *verifOnePoint) GetValue(slot uint16) (float64, bool) {
	if slot == p.slot {
		return p.value, true
	}
	return 0, false
}

func verifC11QuerySlots() {
	const storage = int64(10000)
	ratios := []int{1, 6, 30}
	ratio := ratios[verifChoose("ratio", len(ratios))]
	// query range: aligned to the storage interval, up to three hours long, anywhere
	startSlots := verifRange("queryStart", 0, 400000000)
	lenSlots := verifRange("queryLen", 0, 3*360)
	qStart := startSlots * storage
	qEnd := (startSlots + lenSlots) * storage
	// an hourly family that overlaps the query range or lies next to it
	famHour := verifRange("familyHour", 0, 120000)
	familyTime := famHour * 3600000
	verifAssume(familyTime+3600000 > qStart-3600000 && familyTime <= qEnd+3600000)
	q := &stmt.Query{
		TimeRange:       timeutil.TimeRange{Start: qStart, End: qEnd},
		StorageInterval: timeutil.Interval(storage),
		Interval:        timeutil.Interval(storage * int64(ratio)),
		IntervalRatio:   ratio,
	}
	storageCtx := &flow.StorageExecuteContext{Query: q}
	shardCtx := flow.NewShardExecuteContext(storageCtx)
	segmentRS := &flow.TimeSegmentResultSet{FamilyTime: familyTime}
	st := &dataLoadStage{executeCtx: &flow.DataLoadContext{ShardExecuteCtx: shardCtx}, segmentRS: segmentRS}
	_ = st.Plan()

	slot := uint16(verifRange("slot", 0, 359))
	v := verifNondetFloat64("value")
	ts := familyTime + int64(slot)*storage
	emitted := 0
	pos := -1
	var got float64
	// the block holds just this slot (its slot range is [slot, slot])
	aggregation.DownSampling(timeutil.SlotRange{Start: slot, End: slot}, segmentRS.Target, segmentRS.IntervalRatio, segmentRS.BaseSlot,
		&verifOnePoint{slot: slot, value: v},
		func(targetPos int, value float64) {
			emitted++
			pos = targetPos
			got = value
		})
	inRange := ts >= qStart && ts <= qEnd
	// a family that does not overlap the query range is not scanned at all by the query
	overlaps := familyTime+3600000-1 >= qStart && familyTime <= qEnd
	if !overlaps {
		verifReach("end")
		return
	}
	if inRange {
		verifAssert(emitted == 1, "a stored point inside the query range is read exactly once")
		verifAssert(int64(pos) == (ts-qStart)/(storage*int64(ratio)), "it lands in the query slot that contains its timestamp")
		verifAssert(verifBitsEq(got, v), "with its value")
	} else {
		verifAssert(emitted == 0, "a stored point outside the query range is not read")
	}
	verifReach("end")
}

func verifBitsEq(a, b float64) bool { return a == b || (a != a && b != b) }

func verifC11QuerySlotsReach() {
	q := &stmt.Query{TimeRange: timeutil.TimeRange{Start: 3600000, End: 3600000 + 600000}, StorageInterval: 10000, Interval: 60000, IntervalRatio: 6}
	shardCtx := flow.NewShardExecuteContext(&flow.StorageExecuteContext{Query: q})
	segmentRS := &flow.TimeSegmentResultSet{FamilyTime: 3600000}
	st := &dataLoadStage{executeCtx: &flow.DataLoadContext{ShardExecuteCtx: shardCtx}, segmentRS: segmentRS}
	_ = st.Plan()
	slot := uint16(verifRange("slot", 0, 359))
	pos := -1
	aggregation.DownSampling(timeutil.SlotRange{Start: slot, End: slot}, segmentRS.Target, segmentRS.IntervalRatio, segmentRS.BaseSlot,
		&verifOnePoint{slot: slot, value: 1}, func(targetPos int, _ float64) { pos = targetPos })
	verifObserve("slots", slot, pos, segmentRS.BaseSlot, segmentRS.Target.Start, segmentRS.Target.End)
	verifAssert(slot != 37, "reach")
}
