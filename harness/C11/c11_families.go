package tsdb

import (
	"strconv"

	"github.com/lindb/lindb/kv"
	"github.com/lindb/lindb/pkg/timeutil"
)

// C11 (family selection of a query): the real segment.GetDataFamilies for a month-type segment
// (one family per day) and a year-type segment (one family per month) that holds every family, and
// a query range whose ends lie before, inside or after the segment: the families returned are
// exactly the families of this segment that the query range touches. (intervalSegment hands the
// whole query range to every segment it overlaps, so the ends are not confined to the segment.)

type verifFamilyStore struct {
	kv.Store
	names []string
}

func (s *verifFamilyStore) ListFamilyNames() []string   { return s.names }
func (s *verifFamilyStore) GetFamily(string) kv.Family { return nil }

type verifQueryFamily struct {
	DataFamily
	n  int
	tr timeutil.TimeRange
}

func (f *verifQueryFamily) TimeRange() timeutil.TimeRange { return f.tr }

// day offsets relative to the first day of the segment's month; -1, -3: previous month; beyond the
// month length: next month
func verifDayOffset(tag string, monthLen int64) int64 {
	c := []int64{-3, -1, 0, 1, 14, monthLen - 2, monthLen - 1, monthLen, monthLen + 2}
	return c[verifChoose(tag, len(c))]
}

func verifC11MonthSegmentFamilies() {
	verifZone()
	// quick: the leap year 2000 and the months January, February, April, December; thorough: also 2099, every month
	years := []int64{2000}
	months := []int64{0, 1, 3, 11}
	if verifThorough() {
		years = []int64{2000, 2099}
		months = []int64{0, 1, 2, 3, 4, 5, 6, 7, 8, 9, 10, 11}
	}
	year := years[verifChoose("year", len(years))]
	month := months[verifChoose("month", len(months))]
	mlen := []int64{31, 28, 31, 30, 31, 30, 31, 31, 30, 31, 30, 31}
	if verifIsLeap(year) {
		mlen[1] = 29
	}
	monthStart := verifDaysBeforeYear(year)
	for i := int64(0); i < month; i++ {
		monthStart += mlen[i]
	}
	n := mlen[month]
	ds := verifDayOffset("startDay", n)
	de := verifDayOffset("endDay", n)
	verifAssume(ds <= de)
	verifAssume(ds < n && de >= 0) // the query touches the segment (intervalSegment's filter)
	start := verifMidnight(monthStart+ds) + verifRange("startMs", 0, 86399999)
	end := verifMidnight(monthStart+de) + verifRange("endMs", 0, 86399999)
	verifAssume(start <= end && start >= 0)

	interval := timeutil.Interval(300000) // 5 minutes: month type
	store := &verifFamilyStore{}
	for d := int64(1); d <= n; d++ {
		store.names = append(store.names, strconv.Itoa(int(d)))
	}
	newDataFamilyFunc = func(_ Shard, _ Segment, _ timeutil.Interval, tr timeutil.TimeRange, _ int64, _ kv.Family) DataFamily {
		return &verifQueryFamily{tr: tr}
	}
	seg := &segment{kvStore: store, families: map[int]DataFamily{}, baseTime: verifMidnight(monthStart), interval: interval}
	got := seg.GetDataFamilies(timeutil.TimeRange{Start: start, End: end})
	selected := map[int64]bool{}
	for _, f := range got {
		// which day is it: the segment keeps its families by family number (concrete), and the
		// family's range starts at the local midnight of that day
		for num, sf := range seg.families {
			if sf == f {
				selected[int64(num-1)] = true
				verifAssert(f.(*verifQueryFamily).tr.Start == verifMidnight(monthStart+int64(num-1)), "a family's range starts at the local midnight of its day")
			}
		}
	}
	verifAssert(len(selected) == len(got), "every returned family is a family of the segment, once")
	lo, hi := ds, de
	if lo < 0 {
		lo = 0
	}
	if hi > n-1 {
		hi = n - 1
	}
	for d := int64(0); d < n; d++ {
		verifAssert(selected[d] == (d >= lo && d <= hi), "a family is returned exactly when the query range touches its day")
	}
	verifReach("end")
}

func verifC11YearSegmentFamilies() {
	verifZone()
	years := []int64{2000, 2098}
	year := years[verifChoose("year", len(years))]
	mlenOf := func(y int64) []int64 {
		m := []int64{31, 28, 31, 30, 31, 30, 31, 31, 30, 31, 30, 31}
		if verifIsLeap(y) {
			m[1] = 29
		}
		return m
	}
	yearStart := verifDaysBeforeYear(year)
	// month offsets relative to January of the segment's year: -1 = December before, 12 = January after
	mo := []int64{-1, 0, 1, 6, 11, 12}
	ms := mo[verifChoose("startMonth", len(mo))]
	me := mo[verifChoose("endMonth", len(mo))]
	verifAssume(ms <= me && ms <= 11 && me >= 0)
	dayOf := func(m int64, dom int64) int64 { // day number of day `dom` (0-based) of month offset m
		y := year
		if m < 0 {
			y, m = year-1, 11
			d := verifDaysBeforeYear(y)
			for i := int64(0); i < m; i++ {
				d += mlenOf(y)[i]
			}
			return d + dom
		}
		if m > 11 {
			y, m = year+1, 0
			return verifDaysBeforeYear(y) + dom
		}
		d := yearStart
		for i := int64(0); i < m; i++ {
			d += mlenOf(y)[i]
		}
		return d + dom
	}
	doms := []int64{0, 14, 27}
	start := verifMidnight(dayOf(ms, doms[verifChoose("startDom", 3)])) + verifRange("startMs", 0, 86399999)
	end := verifMidnight(dayOf(me, doms[verifChoose("endDom", 3)])) + verifRange("endMs", 0, 86399999)
	verifAssume(start <= end && start >= 0)
	interval := timeutil.Interval(3600000) // 1 hour: year type
	store := &verifFamilyStore{}
	for m := 1; m <= 12; m++ {
		store.names = append(store.names, strconv.Itoa(m))
	}
	newDataFamilyFunc = func(_ Shard, _ Segment, _ timeutil.Interval, tr timeutil.TimeRange, _ int64, _ kv.Family) DataFamily {
		return &verifQueryFamily{tr: tr}
	}
	seg := &segment{kvStore: store, families: map[int]DataFamily{}, baseTime: verifMidnight(yearStart), interval: interval}
	got := seg.GetDataFamilies(timeutil.TimeRange{Start: start, End: end})
	selected := map[int64]bool{}
	for _, f := range got {
		for num, sf := range seg.families {
			if sf == f {
				selected[int64(num-1)] = true
				verifAssert(f.(*verifQueryFamily).tr.Start == verifMidnight(dayOf(int64(num-1), 0)), "a family's range starts at the local midnight of the first day of its month")
			}
		}
	}
	verifAssert(len(selected) == len(got), "every returned family is a family of the segment, once")
	lo, hi := ms, me
	if lo < 0 {
		lo = 0
	}
	if hi > 11 {
		hi = 11
	}
	for m := int64(0); m < 12; m++ {
		verifAssert(selected[m] == (m >= lo && m <= hi), "a family is returned exactly when the query range touches its month")
	}
	verifReach("end")
}

func verifC11FamiliesReach() {
	verifZone()
	monthStart := verifDaysBeforeYear(2000) + 31 // February 2000
	start := verifMidnight(monthStart+3) + verifRange("startMs", 0, 86399999)
	end := verifMidnight(monthStart+5) + verifRange("endMs", 0, 86399999)
	store := &verifFamilyStore{}
	for d := 1; d <= 29; d++ {
		store.names = append(store.names, strconv.Itoa(d))
	}
	newDataFamilyFunc = func(_ Shard, _ Segment, _ timeutil.Interval, tr timeutil.TimeRange, _ int64, _ kv.Family) DataFamily {
		return &verifQueryFamily{tr: tr}
	}
	seg := &segment{kvStore: store, families: map[int]DataFamily{}, baseTime: verifMidnight(monthStart), interval: timeutil.Interval(300000)}
	got := seg.GetDataFamilies(timeutil.TimeRange{Start: start, End: end})
	verifObserve("families", len(got))
	verifAssert(len(got) != 3, "reach")
}
