package tsdb

import (
	"strconv"
	"time"

	"github.com/lindb/lindb/kv"
	"github.com/lindb/lindb/pkg/option"
	"github.com/lindb/lindb/pkg/timeutil"
)

// C11 (family selection of a query): the real segment.GetDataFamilies for a month-type segment
// (one family per day) and a year-type segment (one family per month) that holds every family, and
// a query range whose ends lie before, inside or after the segment: the families returned are
// exactly the families of this segment that the query range touches. (intervalSegment hands the
// whole query range to every segment it overlaps, so the ends are not confined to the segment.)

type verifFamilyStore struct {
	kv.Store
	names []string
}

func (s *verifFamilyStore) ListFamilyNames() []string   { return s.names }
func (s *verifFamilyStore) GetFamily(string) kv.Family { return nil }

type verifQueryFamily struct {
	DataFamily
	n  int
	tr timeutil.TimeRange
}

func (f *verifQueryFamily) TimeRange() timeutil.TimeRange { return f.tr }

// day offsets relative to the first day of the segment's month; -1, -3: previous month; beyond the
// month length: next month
func verifDayOffset(tag string, monthLen int64) int64 {
	c := []int64{-3, -1, 0, 1, 14, monthLen - 2, monthLen - 1, monthLen, monthLen + 2}
	return c[verifChoose(tag, len(c))]
}

func verifC11MonthSegmentFamilies() {
	verifZone()
	// quick: the leap year 2000 and the months January, February, April, December; thorough: also 2099, every month
	years := []int64{2000}
	months := []int64{0, 1, 3, 11}
	if verifThorough() {
		years = []int64{2000, 2099}
		months = []int64{0, 1, 2, 3, 4, 5, 6, 7, 8, 9, 10, 11}
	}
	year := years[verifChoose("year", len(years))]
	month := months[verifChoose("month", len(months))]
	mlen := []int64{31, 28, 31, 30, 31, 30, 31, 31, 30, 31, 30, 31}
	if verifIsLeap(year) {
		mlen[1] = 29
	}
	monthStart := verifDaysBeforeYear(year)
	for i := int64(0); i < month; i++ {
		monthStart += mlen[i]
	}
	n := mlen[month]
	ds := verifDayOffset("startDay", n)
	de := verifDayOffset("endDay", n)
	verifAssume(ds <= de)
	verifAssume(ds < n && de >= 0) // the query touches the segment (intervalSegment's filter)
	start := verifMidnight(monthStart+ds) + verifRange("startMs", 0, 86399999)
	end := verifMidnight(monthStart+de) + verifRange("endMs", 0, 86399999)
	verifAssume(start <= end && start >= 0)

	interval := timeutil.Interval(300000) // 5 minutes: month type
	store := &verifFamilyStore{}
	for d := int64(1); d <= n; d++ {
		store.names = append(store.names, strconv.Itoa(int(d)))
	}
	newDataFamilyFunc = func(_ Shard, _ Segment, _ timeutil.Interval, tr timeutil.TimeRange, _ int64, _ kv.Family) DataFamily {
		return &verifQueryFamily{tr: tr}
	}
	seg := &segment{kvStore: store, families: map[int]DataFamily{}, baseTime: verifMidnight(monthStart), interval: interval}
	got := seg.GetDataFamilies(timeutil.TimeRange{Start: start, End: end})
	selected := map[int64]bool{}
	for _, f := range got {
		// which day is it: the segment keeps its families by family number (concrete), and the
		// family's range starts at the local midnight of that day
		for num, sf := range seg.families {
			if sf == f {
				selected[int64(num-1)] = true
				verifAssert(f.(*verifQueryFamily).tr.Start == verifMidnight(monthStart+int64(num-1)), "a family's range starts at the local midnight of its day")
			}
		}
	}
	verifAssert(len(selected) == len(got), "every returned family is a family of the segment, once")
	lo, hi := ds, de
	if lo < 0 {
		lo = 0
	}
	if hi > n-1 {
		hi = n - 1
	}
	for d := int64(0); d < n; d++ {
		verifAssert(selected[d] == (d >= lo && d <= hi), "a family is returned exactly when the query range touches its day")
	}
	verifReach("end")
}

func verifC11YearSegmentFamilies() {
	verifZone()
	years := []int64{2000, 2098}
	year := years[verifChoose("year", len(years))]
	mlenOf := func(y int64) []int64 {
		m := []int64{31, 28, 31, 30, 31, 30, 31, 31, 30, 31, 30, 31}
		if verifIsLeap(y) {
			m[1] = 29
		}
		return m
	}
	yearStart := verifDaysBeforeYear(year)
	// month offsets relative to January of the segment's year: -1 = December before, 12 = January after
	mo := []int64{-1, 0, 1, 6, 11, 12}
	ms := mo[verifChoose("startMonth", len(mo))]
	me := mo[verifChoose("endMonth", len(mo))]
	verifAssume(ms <= me && ms <= 11 && me >= 0)
	dayOf := func(m int64, dom int64) int64 { // day number of day `dom` (0-based) of month offset m
		y := year
		if m < 0 {
			y, m = year-1, 11
			d := verifDaysBeforeYear(y)
			for i := int64(0); i < m; i++ {
				d += mlenOf(y)[i]
			}
			return d + dom
		}
		if m > 11 {
			y, m = year+1, 0
			return verifDaysBeforeYear(y) + dom
		}
		d := yearStart
		for i := int64(0); i < m; i++ {
			d += mlenOf(y)[i]
		}
		return d + dom
	}
	doms := []int64{0, 14, 27}
	start := verifMidnight(dayOf(ms, doms[verifChoose("startDom", 3)])) + verifRange("startMs", 0, 86399999)
	end := verifMidnight(dayOf(me, doms[verifChoose("endDom", 3)])) + verifRange("endMs", 0, 86399999)
	verifAssume(start <= end && start >= 0)
	interval := timeutil.Interval(3600000) // 1 hour: year type
	store := &verifFamilyStore{}
	for m := 1; m <= 12; m++ {
		store.names = append(store.names, strconv.Itoa(m))
	}
	newDataFamilyFunc = func(_ Shard, _ Segment, _ timeutil.Interval, tr timeutil.TimeRange, _ int64, _ kv.Family) DataFamily {
		return &verifQueryFamily{tr: tr}
	}
	seg := &segment{kvStore: store, families: map[int]DataFamily{}, baseTime: verifMidnight(yearStart), interval: interval}
	got := seg.GetDataFamilies(timeutil.TimeRange{Start: start, End: end})
	selected := map[int64]bool{}
	for _, f := range got {
		for num, sf := range seg.families {
			if sf == f {
				selected[int64(num-1)] = true
				verifAssert(f.(*verifQueryFamily).tr.Start == verifMidnight(dayOf(int64(num-1), 0)), "a family's range starts at the local midnight of the first day of its month")
			}
		}
	}
	verifAssert(len(selected) == len(got), "every returned family is a family of the segment, once")
	lo, hi := ms, me
	if lo < 0 {
		lo = 0
	}
	if hi > 11 {
		hi = 11
	}
	for m := int64(0); m < 12; m++ {
		verifAssert(selected[m] == (m >= lo && m <= hi), "a family is returned exactly when the query range touches its month")
	}
	verifReach("end")
}

func verifC11FamiliesReach() {
	verifZone()
	monthStart := verifDaysBeforeYear(2000) + 31 // February 2000
	start := verifMidnight(monthStart+3) + verifRange("startMs", 0, 86399999)
	end := verifMidnight(monthStart+5) + verifRange("endMs", 0, 86399999)
	store := &verifFamilyStore{}
	for d := 1; d <= 29; d++ {
		store.names = append(store.names, strconv.Itoa(d))
	}
	newDataFamilyFunc = func(_ Shard, _ Segment, _ timeutil.Interval, tr timeutil.TimeRange, _ int64, _ kv.Family) DataFamily {
		return &verifQueryFamily{tr: tr}
	}
	seg := &segment{kvStore: store, families: map[int]DataFamily{}, baseTime: verifMidnight(monthStart), interval: timeutil.Interval(300000)}
	got := seg.GetDataFamilies(timeutil.TimeRange{Start: start, End: end})
	verifObserve("families", len(got))
	verifAssert(len(got) != 3, "reach")
}

// C11 / C13 (which segments a query reads): the real intervalSegment.GetDataFamilies (walkSegment over
// the segment directories, ParseSegmentTime, the expiry and range filters, getOrLoadSegment) over the
// month-type segments January, February and March 2000, each a real segment holding every family
// (one per day), and a query range whose ends lie on chosen days around the segment boundaries at
// symbolic milliseconds - in particular an end that falls exactly on the first millisecond of a
// segment. A family is returned exactly when the query range (both ends inclusive, as
// TimeRange.Contains has it) touches its day.
type verifSegShard struct{ Shard }

func verifC11IntervalSegmentFamilies() {
	// a fixed zone per path (UTC, +08:00, -05:30): segment names are parsed in the local zone
	zones := []int{0, 8 * 3600, -5*3600 - 1800}
	off := zones[verifChoose("zone", len(zones))]
	time.Local = time.FixedZone("verif", off)
	verifZoneSec = int64(off)
	mlen := []int64{31, 29, 31}
	jan1 := verifDaysBeforeYear(2000)
	// day offsets from 1 January 2000: 30/31 January, 1/2 February, 29 February, 1/2 March, 31 March
	days := []int64{29, 30, 31, 32, 59, 60, 61, 90}
	ds := days[verifChoose("startDay", len(days))]
	de := days[verifChoose("endDay", len(days))]
	verifAssume(ds <= de)
	start := verifMidnight(jan1+ds) + verifRange("startMs", 0, 86399999)
	end := verifMidnight(jan1+de) + verifRange("endMs", 0, 86399999)
	verifAssume(start <= end)
	interval := timeutil.Interval(300000) // 5 minutes: month type
	newDataFamilyFunc = func(_ Shard, _ Segment, _ timeutil.Interval, tr timeutil.TimeRange, _ int64, _ kv.Family) DataFamily {
		return &verifQueryFamily{tr: tr}
	}
	names := []string{"200001", "200002", "200003"}
	listDir = func(string) ([]string, error) { return names, nil }
	segs := map[string]*segment{}
	newSegmentFunc = func(_ Shard, segmentName string, iv timeutil.Interval) (Segment, error) {
		base, err := iv.Calculator().ParseSegmentTime(segmentName)
		if err != nil {
			return nil, err
		}
		store := &verifFamilyStore{}
		for i, nm := range names {
			if nm == segmentName {
				for d := int64(1); d <= mlen[i]; d++ {
					store.names = append(store.names, strconv.Itoa(int(d)))
				}
			}
		}
		seg := &segment{kvStore: store, families: map[int]DataFamily{}, baseTime: base, interval: iv}
		segs[segmentName] = seg
		return seg, nil
	}
	is := &intervalSegment{
		shard:    &verifSegShard{},
		segments: map[string]Segment{},
		dir:      "/seg",
		interval: option.Interval{Interval: interval, Retention: timeutil.Interval(200 * 366 * 86400000)},
	}
	got := is.GetDataFamilies(timeutil.TimeRange{Start: start, End: end})
	selected := map[int64]bool{}
	count := 0
	monthStart := []int64{0, 31, 60}
	for _, f := range got {
		for i, nm := range names {
			seg := segs[nm]
			if seg == nil {
				continue
			}
			for num, sf := range seg.families {
				if sf == f {
					day := monthStart[i] + int64(num-1)
					if !selected[day] {
						count++
					}
					selected[day] = true
					verifAssert(f.(*verifQueryFamily).tr.Start == verifMidnight(jan1+day), "a family's range starts at the local midnight of its day")
				}
			}
		}
	}
	verifAssert(count == len(got), "every returned family is a family of a segment, once")
	for d := int64(0); d < 91; d++ {
		dayStart := verifMidnight(jan1 + d)
		dayEnd := verifMidnight(jan1+d+1) - 1
		verifAssert(selected[d] == (dayStart <= end && dayEnd >= start), "a family is returned exactly when the query range touches its day (across segments)")
	}
	verifReach("end")
}
