package index

import (
	"github.com/hashicorp/golang-lru/v2/expirable"

	"github.com/lindb/lindb/models"
	"github.com/lindb/lindb/pkg/imap"
	"github.com/lindb/lindb/series/field"
	"github.com/lindb/lindb/series/metric"
)

// C09 for field and tag-key IDs (index/metric_schema_store.go): the real metricSchemaStore
// (genFieldID, genTagKeyID, GetSchema, PrepareFlush, Flush through the real v1 schema flusher and
// the real Schema.Write / UnmarshalFromPersist) over the persisting family stand-in of the flush
// harness; every interleaving within the pre-emption bound.

func verifSchemaStoreOn(fam *verifKVFamily) *metricSchemaStore {
	return &metricSchemaStore{
		family:  fam,
		mutable: imap.NewIntMap[*metric.Schema](),
		cache:   expirable.NewLRU[metric.ID, *metric.Schema](8, nil, 0),
	}
}

func verifFieldIDOf(s *metricSchemaStore, id metric.ID, name string) (field.ID, bool) {
	schema, err := s.GetSchema(id)
	if err != nil || schema == nil {
		return 0, false
	}
	fm, ok := schema.Fields.Find(field.Name(name))
	return fm.ID, ok
}

// two callers create fields (the same or two different ones) of one metric at the same time; the
// metric has no schema yet, or one in memory, or one that was flushed (so that each caller may load
// its own copy from the kv store); optionally a flush is being prepared meanwhile.
func verifC09SchemaConcurrent3() { verifC09SchemaConcurrent() }

func verifC09SchemaConcurrent() {
	fam := &verifKVFamily{persisted: map[uint32][][]byte{}}
	s := verifSchemaStoreOn(fam)
	limits := models.NewDefaultLimits()
	used := map[field.ID]string{}
	switch verifChoose("schemaBefore", 3) {
	case 1: // in memory
		id, err := s.genFieldID(7, field.Meta{Name: "old", Type: field.SumField}, limits)
		verifAssert(err == nil, "setup create")
		used[id] = "old"
	case 2: // flushed, memory part gone
		id, err := s.genFieldID(7, field.Meta{Name: "old", Type: field.SumField}, limits)
		verifAssert(err == nil, "setup create")
		used[id] = "old"
		s.PrepareFlush()
		verifAssert(s.Flush() == nil, "setup flush")
	}
	names := []string{"a", "b"}
	n1 := names[0]
	n2 := names[verifChoose("secondField", 2)]
	var id1, id2 field.ID
	var err1, err2 error
	verifSpawn(func() { id1, err1 = s.genFieldID(7, field.Meta{Name: field.Name(n1), Type: field.SumField}, limits) })
	verifSpawn(func() { id2, err2 = s.genFieldID(7, field.Meta{Name: field.Name(n2), Type: field.SumField}, limits) })
	if verifChoose("withPrepareFlush", 2) == 1 {
		verifSpawn(func() { s.PrepareFlush() })
	}
	verifJoinAll()
	verifAssert(err1 == nil && err2 == nil, "field creation succeeds")
	if n1 == n2 {
		verifAssert(id1 == id2, "all callers get one and the same ID for a field")
	} else {
		verifAssert(id1 != id2, "two different fields of a metric never share an ID")
	}
	_, taken1 := used[id1]
	_, taken2 := used[id2]
	verifAssert(!taken1 && !taken2, "a new field never gets the ID of an existing field")
	g1, ok1 := verifFieldIDOf(s, 7, n1)
	g2, ok2 := verifFieldIDOf(s, 7, n2)
	verifAssert(ok1 && g1 == id1, "a later lookup returns the ID the creating caller got")
	verifAssert(ok2 && g2 == id2, "a later lookup returns the ID the creating caller got (second field)")
	// flush everything, restart (fresh memory and cache over the same family): the IDs are as before
	s.PrepareFlush()
	verifAssert(s.Flush() == nil, "flush")
	s.PrepareFlush()
	verifAssert(s.Flush() == nil, "second flush")
	s2 := verifSchemaStoreOn(fam)
	r1, ok1 := verifFieldIDOf(s2, 7, n1)
	r2, ok2 := verifFieldIDOf(s2, 7, n2)
	verifAssert(ok1 && r1 == id1, "after restart the field has the ID it had before")
	verifAssert(ok2 && r2 == id2, "after restart the field has the ID it had before (second field)")
	verifReach("end")
}

// a field is created while a flush of the metric's schema runs; after a further flush and a restart
// every field has the ID it had, and a field created after the restart gets a fresh ID.
func verifC09SchemaFlush() {
	fam := &verifKVFamily{persisted: map[uint32][][]byte{}}
	s := verifSchemaStoreOn(fam)
	limits := models.NewDefaultLimits()
	if verifChoose("emptyFlushRoundBefore", 2) == 1 {
		// a flush round in which the schema store has nothing new
		s.PrepareFlush()
		verifAssert(s.Flush() == nil, "empty flush round")
	}
	id0, err := s.genFieldID(7, field.Meta{Name: "f0", Type: field.SumField}, limits)
	verifAssert(err == nil, "first create")
	var id1 field.ID
	var tk uint32
	var errF, err1, errT error
	nextKey := uint32(0)
	withTag := verifChoose("alsoTagKey", 2) == 1
	verifKVYield = true
	verifSpawn(func() {
		s.PrepareFlush()
		errF = s.Flush()
	})
	verifSpawn(func() {
		id1, err1 = s.genFieldID(7, field.Meta{Name: "f1", Type: field.SumField}, limits)
		if withTag {
			var k uint32
			kk, e := s.genTagKeyID(7, []byte("host"), limits, func() uint32 { nextKey++; return nextKey })
			k, errT = uint32(kk), e
			tk = k
		}
	})
	verifJoinAll()
	verifKVYield = false
	verifAssert(errF == nil && err1 == nil && errT == nil, "flush and create succeed")
	verifAssert(id1 != id0, "two different fields of a metric never share an ID")
	// everything created so far is persisted by the next flush at the latest
	s.PrepareFlush()
	verifAssert(s.Flush() == nil, "second flush")
	s.PrepareFlush()
	verifAssert(s.Flush() == nil, "third flush")
	s2 := verifSchemaStoreOn(fam)
	r0, ok0 := verifFieldIDOf(s2, 7, "f0")
	r1, ok1 := verifFieldIDOf(s2, 7, "f1")
	verifAssert(ok0 && r0 == id0, "after restart the field has the ID it had before")
	verifAssert(ok1 && r1 == id1, "after restart a field created during a flush has the ID it had before")
	if withTag {
		schema, _ := s2.GetSchema(7)
		tm, ok := schema.TagKeys.Find("host")
		verifAssert(ok && uint32(tm.ID) == tk, "after restart a tag key created during a flush has the ID it had before")
	}
	id2, err := s2.genFieldID(7, field.Meta{Name: "f2", Type: field.SumField}, limits)
	verifAssert(err == nil, "create after restart")
	verifAssert(id2 != id0 && id2 != id1, "a field created after restart never gets an ID that is in use")
	schema, _ := s2.GetSchema(7)
	verifAssert(len(schema.Fields) == 3, "the recovered schema lists every field once")
	verifReach("end")
}

func verifC09SchemaReach() {
	fam := &verifKVFamily{persisted: map[uint32][][]byte{}}
	s := verifSchemaStoreOn(fam)
	limits := models.NewDefaultLimits()
	t := verifChoose("type", 3)
	id0, _ := s.genFieldID(7, field.Meta{Name: "f0", Type: field.Type(t + 1)}, limits)
	id1, _ := s.genFieldID(7, field.Meta{Name: "f1", Type: field.SumField}, limits)
	s.PrepareFlush()
	_ = s.Flush()
	s2 := verifSchemaStoreOn(fam)
	schema, _ := s2.GetSchema(7)
	verifObserve("schema", t, id0, id1, len(schema.Fields), int(schema.Fields[0].Type), len(fam.persisted[7]))
	verifAssert(t != 1, "reach")
}
