package index

import (
	"os"

	"github.com/hashicorp/golang-lru/v2/expirable"

	"github.com/lindb/lindb/index/model"
	"github.com/lindb/lindb/metrics"
	"github.com/lindb/lindb/pkg/imap"
)

// C09 (IDs across a crash inside the metadata flush): the real metricMetaDatabase (GenMetricID,
// PrepareFlush, Flush), the real Sequence (NewSequence on reopen, Sync) and the real index kv
// stores over kv families that really persist what the real index flusher writes. The process dies
// before any one of the durable steps of Flush (sequence sync, commit of the namespace store,
// commit of the metric store, ...) or not at all; then the database is reopened from what reached
// the disk and further names are created: a name found after recovery has the ID it had, and a name
// created afterwards gets an ID no recovered name has.

type verifDisk struct {
	seq      []byte // persisted image of the sequence file
	ops      int
	crashAt  int // the durable operation with this index and all later ones are lost; -1: none
	families map[string]*verifKVFamily
}

func (d *verifDisk) alive() bool {
	ok := d.crashAt < 0 || d.ops < d.crashAt
	d.ops++
	return ok
}

// a family whose commits obey the crash point
type verifCrashFamily struct {
	*verifKVFamily
	disk *verifDisk
}

type verifSchemaStub struct{ MetricSchemaStore }

func (verifSchemaStub) PrepareFlush() {}
func (verifSchemaStub) Flush() error  { return nil }

var verifTheDisk *verifDisk

func verifOpenMetaDB(d *verifDisk) *metricMetaDatabase {
	verifTheDisk = d
	openFileFn = func(string, int, os.FileMode) (*os.File, error) { return nil, nil }
	rwMapFn = func(_ *os.File, size int) ([]byte, error) {
		buf := make([]byte, size)
		copy(buf, verifTheDisk.seq) // the mapped file shows what was synced
		return buf, nil
	}
	syncFn = func(buf []byte) error {
		if verifTheDisk.alive() {
			verifTheDisk.seq = append([]byte{}, buf...)
		}
		return nil
	}
	seq, err := NewSequence("sequence")
	verifAssume(err == nil)
	store := func(name string) *indexKVStore {
		fam := d.families[name]
		return &indexKVStore{
			family:      fam,
			snapshot:    fam.GetSnapshot(),
			mutable:     imap.NewIntMap[map[string]uint32](),
			bucketCache: expirable.NewLRU[uint32, *model.TrieBucket](8, nil, 0),
		}
	}
	return &metricMetaDatabase{
		databaseName: "db",
		ns:           store("ns"),
		metric:       store("metric"),
		tagValue:     store("tagValue"),
		schemaStore:  verifSchemaStub{},
		sequence:     seq,
		statistics:   metrics.NewMetaDBStatistics("db"),
	}
}

func verifC09CrashInFlush() {
	d := &verifDisk{seq: make([]byte, SeqSize), crashAt: -1, families: map[string]*verifKVFamily{}}
	for _, n := range []string{"ns", "metric", "tagValue"} {
		d.families[n] = &verifKVFamily{persisted: map[uint32][][]byte{}}
	}
	verifCommitGate = func() bool { return verifTheDisk.alive() }
	mm := verifOpenMetaDB(d)
	ns := []byte("default")
	ids := map[string]uint32{}
	gen := func(db *metricMetaDatabase, name string) uint32 {
		id, err := db.GenMetricID(ns, []byte(name))
		verifAssert(err == nil, "an ID is generated")
		return uint32(id)
	}
	// optionally an earlier, complete flush
	if verifChoose("earlierFlush", 2) == 1 {
		ids["old"] = gen(mm, "old")
		mm.PrepareFlush()
		verifAssert(mm.Flush() == nil, "earlier flush")
	}
	ids["a"] = gen(mm, "a")
	ids["b"] = gen(mm, "b")
	mm.PrepareFlush()
	ids["late"] = gen(mm, "late") // created after PrepareFlush: not part of this flush
	// the process dies before durable operation k of the flush (k = 0..3), or not at all
	k := verifChoose("crashBeforeDurableOp", 5)
	if k < 4 {
		d.crashAt = d.ops + k
	}
	_ = mm.Flush()
	// reopen on what reached the disk
	d.crashAt = -1
	mm2 := verifOpenMetaDB(d)
	used := map[uint32]string{}
	for _, name := range []string{"old", "a", "b", "late"} {
		want, created := ids[name]
		if !created {
			continue
		}
		nsID, okNS, _ := mm2.ns.GetValue(uint32(ns[0]), ns)
		if !okNS {
			continue
		}
		id, ok, err := mm2.metric.GetValue(nsID, []byte(name))
		verifAssert(err == nil, "lookup after recovery")
		if ok {
			verifAssert(id == want, "a name found after recovery has the ID it had before")
			used[id] = name
		}
	}
	if k == 4 {
		_, okA := used[ids["a"]]
		verifAssert(okA, "a completed flush makes the flushed names durable")
	}
	// names created after the recovery get fresh IDs
	for _, name := range []string{"x", "y"} {
		id := gen(mm2, name)
		_, clash := used[id]
		verifAssert(!clash, "a name created after recovery never gets the ID of a recovered name")
		used[id] = name
	}
	verifReach("end")
}

// C09 (IDs created while a flush is being prepared): another caller (a shard's index goroutine)
// creates a new metric name and a new tag value while PrepareFlush runs - every interleaving at the
// stores' locks within the pre-emption bound -, the flush completes, and the node dies before the
// next flush round. After recovery every name found has the ID it had, and names created afterwards
// never get an ID that a recovered name holds.
func verifC09PrepareVsCreate3() { verifC09PrepareVsCreate() }

func verifC09PrepareVsCreate() {
	d := &verifDisk{seq: make([]byte, SeqSize), crashAt: -1, families: map[string]*verifKVFamily{}}
	for _, n := range []string{"ns", "metric", "tagValue"} {
		d.families[n] = &verifKVFamily{persisted: map[uint32][][]byte{}}
	}
	verifCommitGate = func() bool { return verifTheDisk.alive() }
	mm := verifOpenMetaDB(d)
	ns := []byte("default")
	ids := map[string]uint32{}
	gen := func(db *metricMetaDatabase, name string) uint32 {
		id, err := db.GenMetricID(ns, []byte(name))
		verifAssert(err == nil, "an ID is generated")
		return uint32(id)
	}
	ids["a"] = gen(mm, "a")
	verifSpawn(func() { mm.PrepareFlush() })
	verifSpawn(func() { ids["mid"] = gen(mm, "mid") })
	verifJoinAll()
	verifAssert(mm.Flush() == nil, "the flush completes")
	// the node dies before the next flush round: reopen on what reached the disk
	mm2 := verifOpenMetaDB(d)
	used := map[uint32]string{}
	for _, name := range []string{"a", "mid"} {
		want := ids[name]
		nsID, okNS, _ := mm2.ns.GetValue(uint32(ns[0]), ns)
		if !okNS {
			continue
		}
		id, ok, err := mm2.metric.GetValue(nsID, []byte(name))
		verifAssert(err == nil, "lookup after recovery")
		if ok {
			verifAssert(id == want, "a name found after recovery has the ID it had before")
			used[id] = name
		}
	}
	_, okA := used[ids["a"]]
	verifAssert(okA, "a completed flush makes the flushed names durable")
	for _, name := range []string{"x", "y"} {
		id := gen(mm2, name)
		_, clash := used[id]
		verifAssert(!clash, "a name created after recovery never gets the ID of a recovered name")
		used[id] = name
	}
	verifReach("end")
}
