package index

import (
	flatbuffers "github.com/google/flatbuffers/go"
	"github.com/hashicorp/golang-lru/v2/expirable"
	"github.com/lindb/common/proto/gen/v1/flatMetricsV1"

	"github.com/lindb/lindb/index/model"
	"github.com/lindb/lindb/metrics"
	"github.com/lindb/lindb/pkg/imap"
	"github.com/lindb/lindb/series/metric"
)

// C09 (series ids): two writers create the series of two different tag sets of one metric at the
// same time through the real metricIndexDatabase.GenSeriesID (createSeriesID, the sequence cache,
// the metric posting list) on the real indexKVStore: different tag sets get different series ids,
// the same tag set gets one id, and a later GenSeriesID returns the id again.
//
// Rows: in the engine the flat-buffer accessors GenSeriesID uses are replaced by lookups of the
// row's fields (stubs, see manifest); natively a real flat-buffer row with the same hash is built.

type verifRowSpec struct {
	key  *byte
	hash uint64
}

var verifRowSpecs []verifRowSpec

func verifRowOf(m *flatMetricsV1.Metric) *verifRowSpec {
	p := &m.Table().Bytes[0]
	for i := range verifRowSpecs {
		if verifRowSpecs[i].key == p {
			return &verifRowSpecs[i]
		}
	}
	panic("row spec not found")
}

func verifStubKvsHash(m *flatMetricsV1.Metric) uint64 { return verifRowOf(m).hash }
func verifStubKVLen(m *flatMetricsV1.Metric) int      { return 0 }
func verifStubName(m *flatMetricsV1.Metric) []byte    { return []byte("m") }
func verifStubNS(m *flatMetricsV1.Metric) []byte      { return nil }

func verifRow(hash uint64) *metric.StorageRow {
	row := &metric.StorageRow{}
	if verifIsSymbolic() {
		buf := make([]byte, 8)
		verifRowSpecs = append(verifRowSpecs, verifRowSpec{key: &buf[0], hash: hash})
		row.Unmarshal(buf)
		return row
	}
	b := flatbuffers.NewBuilder(64)
	name := b.CreateString("m")
	flatMetricsV1.MetricStart(b)
	flatMetricsV1.MetricAddName(b, name)
	flatMetricsV1.MetricAddKvsHash(b, hash)
	b.Finish(flatMetricsV1.MetricEnd(b))
	row.Unmarshal(b.FinishedBytes())
	return row
}

type verifMetaDB struct{ MetricMetaDatabase }

func (verifMetaDB) Name() string { return "db" }

func verifIndexDB() *metricIndexDatabase {
	fam := &verifKVFamily{persisted: map[uint32][][]byte{}}
	return &metricIndexDatabase{
		metaDB: verifMetaDB{},
		series: &indexKVStore{
			family:      fam,
			snapshot:    fam.GetSnapshot(),
			mutable:     imap.NewIntMap[map[string]uint32](),
			bucketCache: expirable.NewLRU[uint32, *model.TrieBucket](8, nil, 0),
		},
		metricInverted: newInvertedIndex(&verifKVFamily{persisted: map[uint32][][]byte{}}),
		statistics:     metrics.NewIndexDBStatistics("db"),
		sequenceCache:  expirable.NewLRU[metric.ID, uint32](16, nil, 0),
	}
}

func verifC09SeriesID() {
	db := verifIndexDB()
	if verifChoose("existing", 2) == 1 {
		// the metric already has a series
		_, _ = db.GenSeriesID(7, verifRow(100))
	}
	h1 := uint64(1)
	h2 := uint64(1 + verifChoose("secondTags", 2)) // the same tag set or another one
	var id1, id2 uint32
	var err1, err2 error
	verifSpawn(func() { id1, err1 = db.GenSeriesID(7, verifRow(h1)) })
	verifSpawn(func() { id2, err2 = db.GenSeriesID(7, verifRow(h2)) })
	verifJoinAll()
	verifAssert(err1 == nil && err2 == nil, "series ids are generated")
	if h1 == h2 {
		verifAssert(id1 == id2, "one tag set has one series id for all writers")
	} else {
		verifAssert(id1 != id2, "two tag sets of a metric never share a series id")
	}
	id3, _ := db.GenSeriesID(7, verifRow(h1))
	verifAssert(id3 == id1, "a later write of the tag set gets the same series id")
	// a third tag set created afterwards is new as well
	id4, _ := db.GenSeriesID(7, verifRow(9))
	verifAssert(id4 != id1 && id4 != id2, "a tag set created later gets an id of its own")
	ids, err := db.GetSeriesIDsForMetric(7)
	verifAssert(err == nil && ids.Contains(id1) && ids.Contains(id2) && ids.Contains(id4), "the metric's posting list holds the series")
	verifReach("end")
}

func verifC09SeriesReach() {
	db := verifIndexDB()
	h := verifNondetUint64("hash")
	id1, err1 := db.GenSeriesID(7, verifRow(h))
	id2, err2 := db.GenSeriesID(7, verifRow(h+1))
	id3, _ := db.GenSeriesID(7, verifRow(h))
	verifObserve("series", h, id1, id2, id3, err1 == nil, err2 == nil)
	verifAssert(h != 77, "reach")
}
