package index

import (
	"github.com/hashicorp/golang-lru/v2/expirable"

	"github.com/lindb/lindb/index/model"
	"github.com/lindb/lindb/kv/version"
	"github.com/lindb/lindb/pkg/imap"
)

// persisted part of the dictionary: nothing (fake snapshot); the memory part is the real code
type verifSnapshot struct {
	version.Snapshot
}

func (s *verifSnapshot) Load(key uint32, loader func(value []byte) error) error { return nil }
func (s *verifSnapshot) Close()                                                {}

func verifStore() *indexKVStore {
	return &indexKVStore{
		snapshot:    &verifSnapshot{},
		mutable:     imap.NewIntMap[map[string]uint32](),
		bucketCache: expirable.NewLRU[uint32, *model.TrieBucket](8, nil, 0),
	}
}

// C09 (concurrent get-or-create): two callers ask for the ID of a name (equal or different names of
// one scope); every interleaving at the store's lock boundaries within the pre-emption bound.
func verifC09Concurrent() {
	s := verifStore()
	next := uint32(0)
	create := func() (uint32, error) { // as the sequence-backed create callbacks do
		next++
		return next, nil
	}
	names := [][]byte{[]byte("cpu"), []byte("mem")}
	n1 := names[0]
	n2 := names[verifChoose("secondName", 2)]
	var id1, id2 uint32
	var err1, err2 error
	verifSpawn(func() { id1, _, err1 = s.GetOrCreateValue(1, n1, create) })
	verifSpawn(func() { id2, _, err2 = s.GetOrCreateValue(1, n2, create) })
	if verifChoose("withPrepareFlush", 2) == 1 {
		// a flush is being prepared at an arbitrary moment: the mutable map becomes the immutable one
		verifSpawn(func() { s.PrepareFlush() })
	}
	verifJoinAll()
	verifAssert(err1 == nil && err2 == nil, "get-or-create succeeds")
	if string(n1) == string(n2) {
		verifAssert(id1 == id2, "all callers get one and the same ID for a name")
	} else {
		verifAssert(id1 != id2, "two different names never share an ID")
	}
	// later lookups are stable
	id3, ok, _ := s.GetValue(1, n1)
	verifAssert(ok && id3 == id1, "a later lookup returns the ID the creating caller got")
	id4, ok, _ := s.GetValue(1, n2)
	verifAssert(ok && id4 == id2, "a later lookup returns the ID the creating caller got (second name)")
	verifReach("end")
}

func verifC09Reach() {
	s := verifStore()
	next := uint32(0)
	create := func() (uint32, error) { next++; return next, nil }
	k := verifSymBytes("name", 2)
	id, isNew, _ := s.GetOrCreateValue(1, k, create)
	id2, _, _ := s.GetValue(1, k)
	verifObserve("ids", k[0], k[1], id, isNew, id2)
	verifAssert(k[0] != 'q', "reach")
}
