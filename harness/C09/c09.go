package index

import (
	"github.com/hashicorp/golang-lru/v2/expirable"

	"github.com/lindb/lindb/index/model"
	"github.com/lindb/lindb/kv"
	"github.com/lindb/lindb/kv/table"
	"github.com/lindb/lindb/kv/version"
	"github.com/lindb/lindb/pkg/imap"
)

// persisted part of the dictionary: nothing (fake snapshot); the memory part is the real code
type verifSnapshot struct {
	version.Snapshot
}

func (s *verifSnapshot) Load(key uint32, loader func(value []byte) error) error { return nil }
func (s *verifSnapshot) Close()                                                 {}

func verifStore() *indexKVStore {
	return &indexKVStore{
		snapshot:    &verifSnapshot{},
		mutable:     imap.NewIntMap[map[string]uint32](),
		bucketCache: expirable.NewLRU[uint32, *model.TrieBucket](8, nil, 0),
	}
}

// C09 (concurrent get-or-create): two callers ask for the ID of a name (equal or different names of
// one scope); every interleaving at the store's lock boundaries within the pre-emption bound.
// thorough: the same threads under pre-emption bound 3 (time-boxed)
func verifC09Concurrent3() { verifC09Concurrent() }

func verifC09Concurrent() {
	s := verifStore()
	next := uint32(0)
	create := func() (uint32, error) { // as the sequence-backed create callbacks do
		next++
		return next, nil
	}
	names := [][]byte{[]byte("cpu"), []byte("mem")}
	n1 := names[0]
	n2 := names[verifChoose("secondName", 2)]
	var id1, id2 uint32
	var err1, err2 error
	verifSpawn(func() { id1, _, err1 = s.GetOrCreateValue(1, n1, create) })
	verifSpawn(func() { id2, _, err2 = s.GetOrCreateValue(1, n2, create) })
	if verifChoose("withPrepareFlush", 2) == 1 {
		// a flush is being prepared at an arbitrary moment: the mutable map becomes the immutable one
		verifSpawn(func() { s.PrepareFlush() })
	}
	verifJoinAll()
	verifAssert(err1 == nil && err2 == nil, "get-or-create succeeds")
	if string(n1) == string(n2) {
		verifAssert(id1 == id2, "all callers get one and the same ID for a name")
	} else {
		verifAssert(id1 != id2, "two different names never share an ID")
	}
	// later lookups are stable
	id3, ok, _ := s.GetValue(1, n1)
	verifAssert(ok && id3 == id1, "a later lookup returns the ID the creating caller got")
	id4, ok, _ := s.GetValue(1, n2)
	verifAssert(ok && id4 == id2, "a later lookup returns the ID the creating caller got (second name)")
	verifReach("end")
}

func verifC09Reach() {
	s := verifStore()
	next := uint32(0)
	create := func() (uint32, error) { next++; return next, nil }
	k := verifSymBytes("name", 2)
	id, isNew, _ := s.GetOrCreateValue(1, k, create)
	id2, _, _ := s.GetValue(1, k)
	verifObserve("ids", k[0], k[1], id, isNew, id2)
	verifAssert(k[0] != 'q', "reach")
}

// ---- flush: a kv family stand-in that really persists what the real index flusher writes
// (trie buckets through the real v1.IndexKVFlusher / model.TrieBucketBuilder) and serves it to the
// real v1.IndexKVReader through snapshots.

type verifKVFamily struct {
	kv.Family
	persisted map[uint32][][]byte // bucket -> flushed trie buckets, in commit order
}

type verifKVSnapshot struct {
	version.Snapshot
	data map[uint32][][]byte
}

func (s *verifKVSnapshot) Load(key uint32, loader func(value []byte) error) error {
	for _, v := range s.data[key] {
		if err := loader(v); err != nil {
			return err
		}
	}
	return nil
}
func (s *verifKVSnapshot) Close() {}

func (f *verifKVFamily) GetSnapshot() version.Snapshot {
	data := map[uint32][][]byte{}
	for k, v := range f.persisted {
		data[k] = append([][]byte{}, v...)
	}
	return &verifKVSnapshot{data: data}
}

type verifKVFlusher struct {
	kv.Flusher
	fam     *verifKVFamily
	pending map[uint32][]byte
	w       *verifStreamWriter
}

type verifStreamWriter struct {
	table.StreamWriter
	fl  *verifKVFlusher
	key uint32
	buf []byte
}

func (w *verifStreamWriter) Prepare(key uint32) { w.key = key; w.buf = nil }
func (w *verifStreamWriter) Write(p []byte) (int, error) {
	w.buf = append(w.buf, p...)
	return len(p), nil
}
func (w *verifStreamWriter) Size() uint32 { return uint32(len(w.buf)) }
func (w *verifStreamWriter) Commit() error {
	w.fl.pending[w.key] = w.buf
	if verifKVYield {
		verifYield()
	}
	return nil
}

// verifKVYield makes the family stand-in's commits scheduling points (harnesses that look at what
// happens between a writer's Write and the end of a flush)
var verifKVYield bool

func (f *verifKVFamily) NewFlusher() kv.Flusher {
	fl := &verifKVFlusher{fam: f, pending: map[uint32][]byte{}}
	fl.w = &verifStreamWriter{fl: fl}
	return fl
}
func (fl *verifKVFlusher) StreamWriter() (table.StreamWriter, error) { return fl.w, nil }

// verifCommitGate, when set, decides whether a commit still reaches the disk (crash points)
var verifCommitGate func() bool

func (fl *verifKVFlusher) Commit() error {
	if verifCommitGate != nil && !verifCommitGate() {
		return nil
	}
	if verifKVYield {
		verifYield()
	}
	for k, v := range fl.pending {
		fl.fam.persisted[k] = append(fl.fam.persisted[k], v)
	}
	return nil
}
func (fl *verifKVFlusher) Release() {}

// C09 (flush): a name created before the flush keeps its ID for every caller while the flush is
// prepared, runs and completes - with a concurrent lookup of that name (verifC09FlushLookup) or with
// another caller creating a different name of the same bucket at the same time (verifC09FlushCreate);
// afterwards (everything persisted, memory parts gone) the names still have their IDs and asking
// again creates nothing. The bucket cache is an expiring LRU: its entry may be gone at any time.
func verifFlush(withLookup, withCreate bool) {
	fam := &verifKVFamily{persisted: map[uint32][][]byte{}}
	s := &indexKVStore{
		family:      fam,
		snapshot:    fam.GetSnapshot(),
		mutable:     imap.NewIntMap[map[string]uint32](),
		bucketCache: expirable.NewLRU[uint32, *model.TrieBucket](8, nil, 0),
	}
	next := uint32(0)
	create := func() (uint32, error) {
		next++
		return next, nil
	}
	cpu, mem := []byte("cpu"), []byte("mem")
	if verifChoose("persistedBefore", 2) == 1 {
		// an earlier flush left a persisted bucket with another name
		_, _, _ = s.GetOrCreateValue(1, []byte("old"), create)
		s.PrepareFlush()
		verifAssert(s.Flush() == nil, "earlier flush")
	}
	if verifChoose("emptyFlushRoundBefore", 2) == 1 {
		// a flush round in which this dictionary has nothing new
		s.PrepareFlush()
		verifAssert(s.Flush() == nil, "empty flush round")
	}
	id0, isNew, err := s.GetOrCreateValue(1, cpu, create)
	verifAssert(err == nil && isNew, "first create")
	if verifChoose("cacheEntryExpired", 2) == 1 {
		s.bucketCache.Remove(1)
	}
	idCPU, idMem := id0, uint32(0)
	var newCPU bool
	var errF, errA, errB error
	verifSpawn(func() {
		s.PrepareFlush()
		errF = s.Flush()
	})
	if withCreate {
		verifSpawn(func() { idMem, _, errA = s.GetOrCreateValue(1, mem, create) })
	}
	if withLookup {
		verifSpawn(func() { idCPU, newCPU, errB = s.GetOrCreateValue(1, cpu, create) })
	}
	verifJoinAll()
	verifAssert(errF == nil && errA == nil && errB == nil, "flush and lookups succeed")
	verifAssert(idCPU == id0 && !newCPU, "a name created before the flush keeps its ID while the flush runs")
	verifAssert(idMem != id0, "two different names never share an ID")
	// right after the flush (memory part of the flushed names gone, bucket cache as the lookups left it)
	idNow, newNow, _ := s.GetOrCreateValue(1, cpu, create)
	verifAssert(idNow == id0 && !newNow, "right after the flush the name still has its ID and nothing is created")
	// a second flush persists what was created meanwhile; then everything is read from the kv store
	s.PrepareFlush()
	verifAssert(s.Flush() == nil, "second flush")
	id1, isNew1, _ := s.GetOrCreateValue(1, cpu, create)
	verifAssert(id1 == id0 && !isNew1, "after the flush the name still has its ID and nothing is created")
	if withCreate {
		id2, isNew2, _ := s.GetOrCreateValue(1, mem, create)
		verifAssert(id2 == idMem && !isNew2, "after the flush the second name still has its ID and nothing is created")
	}
	// restart: a fresh store over what the family persisted knows every name under its ID
	s2 := &indexKVStore{
		family:      fam,
		snapshot:    fam.GetSnapshot(),
		mutable:     imap.NewIntMap[map[string]uint32](),
		bucketCache: expirable.NewLRU[uint32, *model.TrieBucket](8, nil, 0),
	}
	idR, okR, _ := s2.GetValue(1, cpu)
	verifAssert(okR && idR == id0, "after a restart the name is found under the ID it had")
	if withCreate {
		idR2, okR2, _ := s2.GetValue(1, mem)
		verifAssert(okR2 && idR2 == idMem, "after a restart the second name is found under the ID it had")
	}
	verifReach("end")
}

func verifC09FlushLookup() { verifFlush(true, false) }
func verifC09FlushCreate() { verifFlush(false, true) }
func verifC09FlushBoth()   { verifFlush(true, true) }
