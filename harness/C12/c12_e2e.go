package context

import (
	stdctx "context"
	"encoding/binary"
	"math"
	"time"

	commonmodels "github.com/lindb/common/models"

	"github.com/lindb/lindb/aggregation"
	"github.com/lindb/lindb/aggregation/function"
	"github.com/lindb/lindb/flow"
	"github.com/lindb/lindb/models"
	"github.com/lindb/lindb/pkg/timeutil"
	protoCommonV1 "github.com/lindb/lindb/proto/gen/v1/common"
	trackerpkg "github.com/lindb/lindb/query/tracker"
	"github.com/lindb/lindb/series/field"
	"github.com/lindb/lindb/sql/stmt"
)

// C12 end to end at the leaf -> root boundary: the same points are held by one leaf or spread over
// two leaves (each point's leaf is a choice), a further leaf may hold no matching data at all, and
// the responses arrive in any order. Each leaf's payload is built by the real LeafReduceContext (real
// series / grouping aggregators, real marshalling of the field series), merged by the real
// RootMetricContext (HandleResponse, real grouping aggregator, expression evaluation, order-by) and
// the final result set is compared with the placement-free reference: per group and slot the sum of
// the points.

const (
	verifE2EInterval = int64(10 * 1000)
	verifE2EStart    = int64(1699999200000)
	verifE2ESlots    = 6
)

type verifPoint struct {
	group uint32 // tag value id on the leaf
	slot  int
	val   float64
}

func verifE2EQuery(groupBy, twoFuncs bool) *stmt.Query {
	q := &stmt.Query{
		MetricName:  "cpu",
		Namespace:   "default-ns",
		Limit:       20,
		SelectItems: []stmt.Expr{&stmt.SelectItem{Expr: &stmt.FieldExpr{Name: "f"}}},
	}
	if twoFuncs {
		// select sum(f) as s, max(f) as m
		q.SelectItems = []stmt.Expr{
			&stmt.SelectItem{Expr: &stmt.CallExpr{FuncType: function.Sum, Params: []stmt.Expr{&stmt.FieldExpr{Name: "f"}}}, Alias: "s"},
			&stmt.SelectItem{Expr: &stmt.CallExpr{FuncType: function.Max, Params: []stmt.Expr{&stmt.FieldExpr{Name: "f"}}}, Alias: "m"},
		}
	}
	if groupBy {
		q.GroupBy = []string{"host"}
	}
	q.TimeRange = timeutil.TimeRange{Start: verifE2EStart, End: verifE2EStart + verifE2ESlots*verifE2EInterval}
	q.Interval = timeutil.Interval(verifE2EInterval)
	q.StorageInterval = timeutil.Interval(verifE2EInterval)
	q.IntervalRatio = 1
	return q
}

func verifE2ELeaf(q *stmt.Query, pts []verifPoint, tagValues map[uint32]string) *protoCommonV1.TaskResponse {
	spec := aggregation.NewAggregatorSpec("f", field.SumField)
	spec.AddFunctionType(function.Sum)
	if len(q.SelectItems) == 2 {
		spec.AddFunctionType(function.Max)
	}
	storageCtx := &flow.StorageExecuteContext{Query: q, AggregatorSpecs: aggregation.AggregatorSpecs{spec}}
	groupingCtx := &LeafGroupingContext{
		tagsMap:      make(map[string]string),
		tagValuesMap: []map[uint32]string{tagValues},
		tagValues:    make([]string, 1),
	}
	reduceCtx := NewLeafReduceContext(storageCtx, groupingCtx)
	// one down-sampling result per group that has points on this leaf
	for _, g := range []uint32{1, 2} {
		var sAgg aggregation.SeriesAggregator
		for _, p := range pts {
			if p.group != g {
				continue
			}
			if sAgg == nil {
				sAgg = aggregation.NewSeriesAggregator(q.Interval, q.IntervalRatio, q.TimeRange, spec)
			}
			fAgg := sAgg.GetAggregator(q.TimeRange.Start)
			fAgg.AggregateBySlot(p.slot, p.val)
		}
		if sAgg == nil {
			continue
		}
		key := ""
		if q.HasGroupBy() {
			var buf [4]byte
			binary.LittleEndian.PutUint32(buf[:], g)
			key = string(buf[:])
		}
		reduceCtx.Reduce(aggregation.FieldAggregates{sAgg}.ResultSet(key))
	}
	rs := reduceCtx.BuildResultSet(&models.Target{}, []string{"root"})
	return &protoCommonV1.TaskResponse{Completed: true, Payload: rs[0]}
}

func verifE2ERoot(q *stmt.Query, responses []*protoCommonV1.TaskResponse) (*commonmodels.ResultSet, error) {
	root := NewRootMetricContext(&RootMetricContextDeps{Ctx: stdctx.TODO(), Statement: q})
	root.SetTracker(trackerpkg.NewStageTracker(&flow.TaskContext{Ctx: stdctx.Background()}))
	root.expectResults = len(responses)
	root.tolerantNotFounds = int32(len(responses))
	nodes := []string{"leaf-0", "leaf-1", "leaf-2"}
	for idx, resp := range responses {
		root.HandleResponse(resp, nodes[idx])
	}
	rs, err := root.WaitResponse()
	if err != nil {
		return nil, err
	}
	return rs.(*commonmodels.ResultSet), nil
}

func verifC12EndToEnd() {
	time.Local = time.UTC
	groupBy := verifChoose("groupBy", 2) == 1
	q := verifE2EQuery(groupBy, false)
	tagValues := map[uint32]string{1: "host-1", 2: "host-2"}
	// three points: two of one group in different slots or the same slot, one of the other group
	pts := []verifPoint{
		{group: 1, slot: 0, val: 1},
		{group: 1, slot: verifChoose("slotOfSecondPoint", 2) * 3, val: 2},
		{group: 2, slot: 5, val: float64(verifRange("value", 1, 1000))},
	}
	leaves := [][]verifPoint{nil, nil}
	for i := range pts {
		l := verifChoose("leafOfPoint", 2)
		leaves[l] = append(leaves[l], pts[i])
	}
	withEmpty := verifChoose("leafWithoutData", 2) == 1
	var resps []*protoCommonV1.TaskResponse
	resps = append(resps, verifE2ELeaf(q, leaves[0], tagValues), verifE2ELeaf(q, leaves[1], tagValues))
	if withEmpty {
		resps = append(resps, verifE2ELeaf(q, nil, tagValues))
	}
	// arrival order: a rotation / swap of the responses
	switch verifChoose("arrival", 3) {
	case 1:
		resps[0], resps[1] = resps[1], resps[0]
	case 2:
		last := len(resps) - 1
		resps[0], resps[last] = resps[last], resps[0]
	}
	rs, err := verifE2ERoot(q, resps)
	verifAssert(err == nil, "a leaf without matching data never turns the answer into an error")
	if err != nil {
		return
	}
	// reference: per group (or overall) and slot the sum of the points
	type key struct {
		tags string
		slot int
	}
	want := map[key]float64{}
	for _, p := range pts {
		t := ""
		if groupBy {
			t = tagValues[p.group]
		}
		want[key{t, p.slot}] += p.val
	}
	got := map[key]float64{}
	cells := 0
	for _, s := range rs.Series {
		points := s.Fields["f"]
		for ts, v := range points {
			got[key{s.TagValues, int((ts - verifE2EStart) / verifE2EInterval)}] = v
			cells++
			verifObserve("cell", s.TagValues, ts, math.Float64bits(v))
		}
	}
	verifAssert(cells == len(want), "the answer has exactly the slots that hold points, whatever the placement and arrival order")
	for k, v := range want {
		g, ok := got[k]
		verifAssert(ok && g == v, "every slot of the answer is the sum of its points, whatever the placement and arrival order")
	}
	verifReach("end")
}

func verifC12EndToEndReach() {
	time.Local = time.UTC
	q := verifE2EQuery(true, false)
	tagValues := map[uint32]string{1: "host-1", 2: "host-2"}
	v := float64(verifRange("value", 1, 1000))
	pts := []verifPoint{{group: 1, slot: 2, val: v}}
	rs, _ := verifE2ERoot(q, []*protoCommonV1.TaskResponse{verifE2ELeaf(q, pts, tagValues)})
	n := len(rs.Series)
	var got float64
	if n == 1 {
		got = rs.Series[0].Fields["f"][verifE2EStart+2*verifE2EInterval]
	}
	verifObserve("e2e", math.Float64bits(v), n, math.Float64bits(got))
	verifAssert(v != 17, "reach")
}

// two functions over one field (select sum(f) as s, max(f) as m): each function's value per slot is
// that function over the slot's points, on one leaf or spread over two, in any arrival order.
func verifC12EndToEndTwoFuncs() {
	time.Local = time.UTC
	q := verifE2EQuery(false, true)
	tagValues := map[uint32]string{1: "host-1", 2: "host-2"}
	pts := []verifPoint{
		{group: 1, slot: 2, val: 1},
		{group: 1, slot: 2, val: float64(verifRange("value", 2, 1000))},
		{group: 1, slot: 4, val: 7},
	}
	leaves := [][]verifPoint{nil, nil}
	for i := range pts[:2] {
		l := verifChoose("leafOfPoint", 2)
		leaves[l] = append(leaves[l], pts[i])
	}
	leaves[0] = append(leaves[0], pts[2])
	resps := []*protoCommonV1.TaskResponse{verifE2ELeaf(q, leaves[0], tagValues), verifE2ELeaf(q, leaves[1], tagValues)}
	if verifChoose("arrival", 2) == 1 {
		resps[0], resps[1] = resps[1], resps[0]
	}
	rs, err := verifE2ERoot(q, resps)
	verifAssert(err == nil, "the query succeeds")
	if err != nil {
		return
	}
	verifAssert(len(rs.Series) == 1, "one series without group by")
	if len(rs.Series) != 1 {
		return
	}
	sum, max := rs.Series[0].Fields["s"], rs.Series[0].Fields["m"]
	t2, t4 := verifE2EStart+2*verifE2EInterval, verifE2EStart+4*verifE2EInterval
	verifAssert(len(sum) == 2 && len(max) == 2, "both functions answer for exactly the slots that hold points")
	verifAssert(sum[t2] == pts[0].val+pts[1].val, "sum(f) of a slot is the sum of its points, whatever the placement")
	verifAssert(max[t2] == pts[1].val, "max(f) of a slot is the largest of its points, whatever the placement")
	verifAssert(sum[t4] == 7 && max[t4] == 7, "a slot with one point answers that point for both functions")
	verifReach("end")
}

// C12 (select * over leaves whose local schemas differ): `select *` lets every leaf plan the fields of
// its own node-local schema; a field that only one shard ever saw is in that leaf's answer only. Two
// leaves - A holds field f, B holds f and g - answer in either order: the merged result has f and g
// with all their points, whatever the arrival order.
func verifE2ELeafFields(q *stmt.Query, names []string, pts map[string][]verifPoint) *protoCommonV1.TaskResponse {
	var specs aggregation.AggregatorSpecs
	for _, n := range names {
		spec := aggregation.NewAggregatorSpec(field.Name(n), field.SumField)
		spec.AddFunctionType(function.Sum)
		specs = append(specs, spec)
	}
	storageCtx := &flow.StorageExecuteContext{Query: q, AggregatorSpecs: specs}
	groupingCtx := &LeafGroupingContext{tagsMap: make(map[string]string), tagValues: make([]string, 0)}
	reduceCtx := NewLeafReduceContext(storageCtx, groupingCtx)
	var aggs aggregation.FieldAggregates
	for i, n := range names {
		sAgg := aggregation.NewSeriesAggregator(q.Interval, q.IntervalRatio, q.TimeRange, specs[i])
		for _, p := range pts[n] {
			sAgg.GetAggregator(q.TimeRange.Start).AggregateBySlot(p.slot, p.val)
		}
		aggs = append(aggs, sAgg)
	}
	reduceCtx.Reduce(aggs.ResultSet(""))
	rs := reduceCtx.BuildResultSet(&models.Target{}, []string{"root"})
	return &protoCommonV1.TaskResponse{Completed: true, Payload: rs[0]}
}

func verifC12SelectAllFieldSets() {
	time.Local = time.UTC
	q := verifE2EQuery(false, false)
	q.SelectItems = nil
	q.AllFields = true
	v := float64(verifRange("value", 1, 1000))
	a := verifE2ELeafFields(q, []string{"f"}, map[string][]verifPoint{"f": {{slot: 0, val: 1}}})
	b := verifE2ELeafFields(q, []string{"f", "g"}, map[string][]verifPoint{"f": {{slot: 1, val: 2}}, "g": {{slot: 2, val: v}}})
	resps := []*protoCommonV1.TaskResponse{a, b}
	if verifChoose("arrival", 2) == 1 {
		resps[0], resps[1] = resps[1], resps[0]
	}
	rs, err := verifE2ERoot(q, resps)
	verifAssert(err == nil, "the answer is built")
	if err != nil {
		return
	}
	verifAssert(len(rs.Series) == 1, "one series without group by")
	if len(rs.Series) != 1 {
		return
	}
	f, g := rs.Series[0].Fields["f"], rs.Series[0].Fields["g"]
	verifAssert(len(f) == 2 && f[verifE2EStart] == 1 && f[verifE2EStart+verifE2EInterval] == 2, "a field every leaf holds has all its points, whatever the arrival order")
	verifAssert(len(g) == 1 && g[verifE2EStart+2*verifE2EInterval] == v, "a field only one leaf holds is in the answer of select *, whatever the arrival order")
	verifReach("end")
}
