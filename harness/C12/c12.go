package context

import (
	stdctx "context"

	"github.com/lindb/lindb/aggregation"
	"github.com/lindb/lindb/models"
	"github.com/lindb/lindb/pkg/timeutil"
	protoCommonV1 "github.com/lindb/lindb/proto/gen/v1/common"
	"github.com/lindb/lindb/flow"
	trackerpkg "github.com/lindb/lindb/query/tracker"
	"github.com/lindb/lindb/series"
)

// the grouping aggregator is a recorder: the multiset of (group tags, field bytes) handed to it
type verifRecAgg struct {
	aggregation.GroupingAggregator
	tags   []string
	fields [][]byte
}

func (r *verifRecAgg) Aggregate(it series.GroupedIterator) {
	r.tags = append(r.tags, it.Tags())
	for it.HasNext() {
		f := it.Next()
		b, _ := f.MarshalBinary()
		r.fields = append(r.fields, append([]byte{}, b...))
	}
}

type verifResp struct {
	kind  int // 0 data, 1 empty, 2 not found, 3 other error
	tag   byte
	value byte
}

func verifMakeResp(r verifResp) *protoCommonV1.TaskResponse {
	resp := &protoCommonV1.TaskResponse{Completed: true}
	switch r.kind {
	case 0:
		l := &protoCommonV1.TimeSeriesList{Start: 0, End: 100, Interval: 10,
			FieldAggSpecs: []*protoCommonV1.AggregatorSpec{{FieldName: "f", FieldType: 1, FuncTypeList: []uint32{1}}},
			TimeSeriesList: []*protoCommonV1.TimeSeries{{Tags: string([]byte{'g', r.tag}), Fields: map[string][]byte{"f": {r.value}}}}}
		resp.Payload, _ = l.Marshal()
	case 1:
		l := &protoCommonV1.TimeSeriesList{}
		resp.Payload, _ = l.Marshal()
	case 2:
		resp.ErrMsg = "metric id not found"
	default:
		resp.ErrMsg = "storage node failed"
	}
	return resp
}

// C12 (root bookkeeping): n responses of arbitrary kinds arrive in an arbitrary order; the final
// error, the data handed to the aggregator and the completion do not depend on the order.
func verifC12Responses() {
	maxN := 3
	if verifThorough() {
		maxN = 5
	}
	n := 1 + verifChoose("responses", maxN)
	var rec *verifRecAgg
	newGroupingAgg = func(timeutil.Interval, int, timeutil.TimeRange, aggregation.AggregatorSpecs) aggregation.GroupingAggregator {
		rec = &verifRecAgg{}
		return rec
	}
	mc := newMetricContext(stdctx.Background(), nil)
	mc.SetTracker(trackerpkg.NewStageTracker(&flow.TaskContext{Ctx: stdctx.Background()}))
	plan := &models.PhysicalPlan{}
	nodes := []string{"n0", "n1", "n2", "n3", "n4"}
	for i := 0; i < n; i++ {
		plan.Targets = append(plan.Targets, &models.Target{Indicator: nodes[i]})
	}
	mc.addRequests(&protoCommonV1.TaskRequest{}, plan)
	// the responses, in arrival order; kinds are a case split, tags and values symbolic
	rs := make([]verifResp, n)
	data, notFound, otherErr := 0, 0, 0
	for i := 0; i < n; i++ {
		rs[i] = verifResp{kind: verifChoose("kind", 4), tag: verifNondetByte("tag"), value: verifNondetByte("value")}
		switch rs[i].kind {
		case 0:
			data++
		case 2:
			notFound++
		case 3:
			otherErr++
		}
	}
	// the root's own pipeline (planning and sending the requests) finishes at an arbitrary moment
	// relative to the responses and reports success through Complete(nil), as query/search.go does
	pipelineDoneBefore := verifChoose("rootPipelineCompletesBeforeResponse", n+1)
	for i := 0; i < n; i++ {
		if i == pipelineDoneBefore {
			mc.Complete(nil)
		}
		closedBefore := false
		select {
		case <-mc.doneCh:
			closedBefore = true
		default:
		}
		if i < n-1 && otherErr == 0 && notFound < n {
			verifAssert(!closedBefore || mc.err != nil, "completion does not fire before the last expected response unless an error was recorded")
		}
		mc.HandleResponse(verifMakeResp(rs[i]), nodes[i])
	}
	if pipelineDoneBefore == n {
		mc.Complete(nil)
	}
	closed := false
	select {
	case <-mc.doneCh:
		closed = true
	default:
	}
	verifAssert(closed, "completion fires when the last expected response arrived")
	wantErr := otherErr > 0 || notFound == n
	verifAssert((mc.err != nil) == wantErr, "final error iff some node failed otherwise, or every node answered not-found")
	if !wantErr {
		// every data response was handed to the aggregator, whatever the arrival order
		got := 0
		if rec != nil {
			got = len(rec.tags)
		}
		verifAssert(got == data, "a not-found or empty answer among data answers drops nothing")
		for i := 0; i < n; i++ {
			if rs[i].kind != 0 {
				continue
			}
			found := false
			for k := 0; rec != nil && k < len(rec.tags); k++ {
				if rec.tags[k] == string([]byte{'g', rs[i].tag}) && k < len(rec.fields) && len(rec.fields[k]) == 1 && rec.fields[k][0] == rs[i].value {
					found = true
				}
			}
			verifAssert(found, "every data response reaches the aggregator with its tags and bytes")
		}
	}
	verifReach("end")
}

func verifC12Reach() {
	var rec *verifRecAgg
	newGroupingAgg = func(timeutil.Interval, int, timeutil.TimeRange, aggregation.AggregatorSpecs) aggregation.GroupingAggregator {
		rec = &verifRecAgg{}
		return rec
	}
	mc := newMetricContext(stdctx.Background(), nil)
	mc.SetTracker(trackerpkg.NewStageTracker(&flow.TaskContext{Ctx: stdctx.Background()}))
	plan := &models.PhysicalPlan{Targets: []*models.Target{{Indicator: "n0"}}}
	mc.addRequests(&protoCommonV1.TaskRequest{}, plan)
	r := verifResp{kind: 0, tag: verifNondetByte("tag"), value: verifNondetByte("value")}
	mc.HandleResponse(verifMakeResp(r), "n0")
	verifObserve("resp", r.tag, r.value, len(rec.tags), rec.fields[0][0], mc.err == nil)
	verifAssert(r.tag != 'x', "reach")
}
