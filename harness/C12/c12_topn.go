package aggregation

import (
	"github.com/lindb/lindb/aggregation/function"
	"github.com/lindb/lindb/pkg/collections"
)

// C12 (order by / limit at the root does not depend on the order in which groups arrive): the real
// topNHeap (Add, Less, heap fix-up) with two order-by keys, ascending or descending each, a limit of
// 1-3, and four groups of which three tie on the first key; the groups are added in every order
// (a choice - at the root it is the iteration order of a map filled in arrival order). The rows kept
// are exactly the first `limit` rows of the groups sorted by the two keys. (No symbolic data: the
// comparison subtracts floats; this harness is bounded exhaustive execution of the real code.)

type verifTopRow struct {
	name   string
	k1, k2 float64
}

func (r *verifTopRow) GetValue(field string, _ function.FuncType) float64 {
	if field == "k1" {
		return r.k1
	}
	return r.k2
}
func (r *verifTopRow) ResultSet() (string, map[string]*collections.FloatArray) { return r.name, nil }

var verifPerms4 = [][]int{
	{0, 1, 2, 3}, {0, 1, 3, 2}, {0, 2, 1, 3}, {0, 2, 3, 1}, {0, 3, 1, 2}, {0, 3, 2, 1},
	{1, 0, 2, 3}, {1, 0, 3, 2}, {1, 2, 0, 3}, {1, 2, 3, 0}, {1, 3, 0, 2}, {1, 3, 2, 0},
	{2, 0, 1, 3}, {2, 0, 3, 1}, {2, 1, 0, 3}, {2, 1, 3, 0}, {2, 3, 0, 1}, {2, 3, 1, 0},
	{3, 0, 1, 2}, {3, 0, 2, 1}, {3, 1, 0, 2}, {3, 1, 2, 0}, {3, 2, 0, 1}, {3, 2, 1, 0},
}

func verifC12TopN() {
	rows := []*verifTopRow{{"A", 1, 1}, {"B", 1, 2}, {"C", 1, 3}, {"D", 2, 1}}
	desc1 := verifChoose("firstKeyDesc", 2) == 1
	desc2 := verifChoose("secondKeyDesc", 2) == 1
	limit := 1 + verifChoose("limit", 3)
	perm := verifPerms4[verifChoose("arrivalOrder", len(verifPerms4))]
	h := newTopNHeap([]*OrderByItem{{Name: "k1", Desc: desc1}, {Name: "k2", Desc: desc2}}, limit)
	for _, i := range perm {
		h.Add(rows[i])
	}
	// reference: sort the four groups by (k1, k2) with the requested directions
	before := func(a, b *verifTopRow) bool {
		if a.k1 != b.k1 {
			return (a.k1 < b.k1) != desc1
		}
		return (a.k2 < b.k2) != desc2
	}
	sorted := append([]*verifTopRow{}, rows...)
	for i := 1; i < len(sorted); i++ {
		for j := i; j > 0 && before(sorted[j], sorted[j-1]); j-- {
			sorted[j], sorted[j-1] = sorted[j-1], sorted[j]
		}
	}
	got := h.ResultSet()
	verifAssert(len(got) == limit, "the limit is the number of groups kept")
	for _, w := range sorted[:limit] {
		found := false
		for _, g := range got {
			if g.(*verifTopRow) == w {
				found = true
			}
		}
		verifAssert(found, "the groups kept are the first ones in the requested order, whatever order they arrived in")
	}
	verifReach("end")
}
