package context

import (
	"github.com/lindb/lindb/aggregation"
	"github.com/lindb/lindb/flow"
	protoCommonV1 "github.com/lindb/lindb/proto/gen/v1/common"
	"github.com/lindb/lindb/series"
	"github.com/lindb/lindb/series/field"
	"github.com/lindb/lindb/sql/stmt"
)

// C12 (leaf -> intermediate split): the real LeafReduceContext.BuildResultSet splits the leaf's
// grouped series over the intermediate receivers by the hash of the group tags. Whatever the
// number of receivers (1-3) and whatever the group tag values: every series reaches exactly one
// receiver with its tags and field bytes, and two series with the same group tags (from anywhere)
// reach the same receiver - so one group meets at one node. xxhash is an uninterpreted function.

type verifSplitField struct {
	series.Iterator
	name string
	data []byte
}

func (f *verifSplitField) FieldName() field.Name          { return field.Name(f.name) }
func (f *verifSplitField) MarshalBinary() ([]byte, error) { return f.data, nil }

type verifSplitGroup struct {
	tagIDs string
	fields []*verifSplitField
	pos    int
}

func (g *verifSplitGroup) HasNext() bool { return g.pos < len(g.fields) }
func (g *verifSplitGroup) Next() series.Iterator {
	f := g.fields[g.pos]
	g.pos++
	return f
}
func (g *verifSplitGroup) Tags() string { return g.tagIDs }

type verifSplitAgg struct {
	aggregation.GroupingAggregator
	groups series.GroupedIterators
}

func (a *verifSplitAgg) ResultSet() series.GroupedIterators { return a.groups }

func verifC12Split() {
	maxG, maxR := 3, 3
	if verifThorough() {
		maxG, maxR = 5, 4
	}
	nGroups := 1 + verifChoose("groups", maxG)
	nRecv := 1 + verifChoose("receivers", maxR)
	// group i has tag value id i+1 (4 bytes, little endian) whose tag value is one symbolic byte
	tagValues := map[uint32]string{}
	vals := make([]byte, nGroups)
	datas := make([]byte, nGroups)
	var groups series.GroupedIterators
	for i := 0; i < nGroups; i++ {
		vals[i] = verifNondetByte("tagValue")
		datas[i] = verifNondetByte("fieldByte")
		tagValues[uint32(i+1)] = string([]byte{vals[i]})
		groups = append(groups, &verifSplitGroup{
			tagIDs: string([]byte{byte(i + 1), 0, 0, 0}),
			fields: []*verifSplitField{{name: "f", data: []byte{datas[i], byte(i)}}},
		})
	}
	storageCtx := &flow.StorageExecuteContext{Query: &stmt.Query{GroupBy: []string{"host"}}}
	grouping := &LeafGroupingContext{
		tagsMap:      map[string]string{},
		tagValuesMap: []map[uint32]string{tagValues},
		tagValues:    make([]string, 1),
	}
	ctx := &LeafReduceContext{storageExecuteCtx: storageCtx, leafGroupingCtx: grouping, reduceAgg: &verifSplitAgg{groups: groups}}
	receivers := make([]string, nRecv)
	payloads := ctx.BuildResultSet(nil, receivers)
	verifAssert(len(payloads) == nRecv, "one payload per receiver")
	// where did every group go
	where := make([]int, nGroups)
	count := make([]int, nGroups)
	for r, p := range payloads {
		var l protoCommonV1.TimeSeriesList
		verifAssert(l.Unmarshal(p) == nil, "a payload is a time series list")
		for _, ts := range l.TimeSeriesList {
			f := ts.Fields["f"]
			verifAssert(len(f) == 2 && len(ts.Tags) == 1, "a series arrives with its tags and field bytes")
			if len(f) != 2 || len(ts.Tags) != 1 {
				continue
			}
			i := int(f[1]) // which group it is (the second field byte is concrete)
			verifAssert(i < nGroups && f[0] == datas[i] && ts.Tags[0] == vals[i], "the series carries exactly the group's tag value and field byte")
			if i < nGroups {
				where[i] = r
				count[i]++
			}
		}
	}
	for i := 0; i < nGroups; i++ {
		verifAssert(count[i] == 1, "every series reaches exactly one receiver")
	}
	for i := 0; i < nGroups; i++ {
		for j := i + 1; j < nGroups; j++ {
			// equal group tags -> the same receiver (stated without branching on the symbolic bytes)
			verifAssert(vals[i] != vals[j] || where[i] == where[j], "series with equal group tags reach the same receiver")
		}
	}
	verifReach("end")
}

// C12 (intermediate node): the real IntermediateMetricContext.makeTaskResponse forwards what its
// grouping aggregator holds: every group exactly once, with its own tags and its own field bytes
// (1-3 groups, 1-2 fields, symbolic tag and field bytes).
func verifC12Intermediate() {
	maxG := 3
	if verifThorough() {
		maxG = 5
	}
	nGroups := 1 + verifChoose("groups", maxG)
	nFields := 1 + verifChoose("fields", 2)
	names := []string{"f", "g"}
	tags := make([]byte, nGroups)
	data := make([][]byte, nGroups)
	var groups series.GroupedIterators
	for i := 0; i < nGroups; i++ {
		tags[i] = verifNondetByte("tag")
		data[i] = make([]byte, nFields)
		g := &verifSplitGroup{tagIDs: string([]byte{tags[i], byte('0' + i)})}
		for k := 0; k < nFields; k++ {
			data[i][k] = verifNondetByte("fieldByte")
			g.fields = append(g.fields, &verifSplitField{name: names[k], data: []byte{data[i][k], byte(i)}})
		}
		groups = append(groups, g)
	}
	ctx := &IntermediateMetricContext{req: &protoCommonV1.TaskRequest{RequestID: "r"}}
	ctx.groupAgg = &verifSplitAgg{groups: groups}
	ctx.aggregatorSpecs = map[string]*protoCommonV1.AggregatorSpec{"f": {FieldName: "f"}}
	resp := ctx.makeTaskResponse()
	var l protoCommonV1.TimeSeriesList
	verifAssert(l.Unmarshal(resp.Payload) == nil, "the response payload is a time series list")
	verifAssert(len(l.TimeSeriesList) == nGroups, "every group is forwarded exactly once")
	seen := make([]int, nGroups)
	for _, ts := range l.TimeSeriesList {
		verifAssert(len(ts.Tags) == 2, "a forwarded series carries its tags")
		if len(ts.Tags) != 2 {
			continue
		}
		i := int(ts.Tags[1] - '0') // the second tag byte is concrete: which group
		verifAssert(i >= 0 && i < nGroups, "a forwarded series is one of the groups")
		if i < 0 || i >= nGroups {
			continue
		}
		seen[i]++
		verifAssert(ts.Tags[0] == tags[i], "a forwarded series carries its own tags")
		verifAssert(len(ts.Fields) == nFields, "a forwarded series carries all its fields")
		for k := 0; k < nFields; k++ {
			f := ts.Fields[names[k]]
			verifAssert(len(f) == 2 && f[0] == data[i][k] && int(f[1]) == i, "a forwarded series carries its own field bytes")
		}
	}
	for i := range seen {
		verifAssert(seen[i] == 1, "every group is forwarded exactly once (by group)")
	}
	verifReach("end")
}
