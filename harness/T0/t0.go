package table

import "github.com/lindb/roaring"

func verifT0Roaring() {
	bm := roaring.New()
	bm.Add(3)
	bm.Add(65536)
	bm.Add(70000)
	verifAssert(bm.Contains(3), "contains 3")
	verifAssert(!bm.Contains(4), "not contains 4")
	verifAssert(bm.GetCardinality() == 3, "card")
	verifAssert(bm.Rank(65536) == 2, "rank")
	it := bm.Iterator()
	n := 0
	for it.HasNext() {
		it.Next()
		n++
	}
	verifAssert(n == 3, "iter")
	b2 := roaring.BitmapOf(3, 9)
	b2.And(bm)
	verifAssert(b2.GetCardinality() == 1, "and")
	data, err := bm.MarshalBinary()
	verifAssert(err == nil, "marshal")
	b3 := roaring.New()
	err = b3.UnmarshalBinary(data)
	verifAssert(err == nil && b3.Contains(70000), "unmarshal")
	verifReach("end")
}
