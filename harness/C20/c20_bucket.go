package model

import (
	"bytes"

	"github.com/lindb/roaring"
)

// C20 (bucket layer): a bucket's dictionary is flushed in blocks (one trie each); the blocks of one
// bucket coming from two files are loaded into one TrieBucket and merged (rebuilt) by the real
// TrieBucket.Write, as index compaction does. Key sets of different trie shapes (flat, chains,
// leaves on different levels, a key that is a prefix of another) with symbolic ids: before and after
// the merge every key has its own id, absent keys are absent, and the bucket holds exactly the
// union of the pairs.

var verifBucketSetsA = [][]string{
	{"aa", "ab", "b"},
	{"a", "ab", "abc"},
	{"b", "ice", "zz"},
	{"ab", "abcd", "b", "bcd"},
}

var verifBucketSetsB = [][]string{
	{"x", "y"},
	{"k", "kl", "m"},
	{"q"},
}

func verifBucketBlock(keys []string, ids []uint32) []byte {
	var buf bytes.Buffer
	var ks [][]byte
	for _, k := range keys {
		ks = append(ks, []byte(k))
	}
	b := NewTrieBucketBuilder(100, &buf)
	verifAssume(b.Write(ks, append([]uint32{}, ids...)) == nil)
	return append([]byte{}, buf.Bytes()...)
}

func verifBucketCheck(bucket *TrieBucket, keys []string, ids []uint32, when string) {
	for i, k := range keys {
		id, ok := bucket.GetValue([]byte(k))
		verifAssert(ok, "a key of the bucket is found "+when)
		if ok {
			verifAssert(id == ids[i], "a key has its own id "+when)
		}
	}
	for _, k := range []string{"", "a0", "abd", "z", "kk", "yy"} {
		present := false
		for _, x := range keys {
			if x == k {
				present = true
			}
		}
		if !present {
			_, ok := bucket.GetValue([]byte(k))
			verifAssert(!ok, "an absent key is reported absent "+when)
		}
	}
	verifAssert(len(bucket.GetValues()) == len(keys), "the bucket holds exactly the union of the pairs "+when)
	// reverse lookup: every id resolves to its key (ids are made distinct below)
	want := roaring.New()
	for _, id := range ids {
		want.Add(id)
	}
	result := map[uint32]string{}
	bucket.CollectKVs(want, result)
	for i, k := range keys {
		verifAssert(result[ids[i]] == k, "an id resolves to its key "+when)
	}
}

func verifC20BucketMerge() {
	ka := verifBucketSetsA[verifChoose("setA", len(verifBucketSetsA))]
	kb := verifBucketSetsB[verifChoose("setB", len(verifBucketSetsB))]
	// ids: symbolic base plus a distinct concrete offset per key (distinct ids, as the sequences give)
	base := uint32(verifRange("idBase", 0, 1000000))
	var ia, ib []uint32
	for i := range ka {
		ia = append(ia, base+uint32(7*i+3))
	}
	for i := range kb {
		ib = append(ib, base+uint32(7*(i+len(ka))+5))
	}
	b1, b2 := verifBucketBlock(ka, ia), verifBucketBlock(kb, ib)
	bucket := NewTrieBucketWithBlockSize(100)
	verifAssert(bucket.Unmarshal(b1) == nil && bucket.Unmarshal(b2) == nil, "the flushed blocks load")
	all := append(append([]string{}, ka...), kb...)
	ids := append(append([]uint32{}, ia...), ib...)
	verifBucketCheck(bucket, all, ids, "before the merge")
	var out bytes.Buffer
	verifAssert(bucket.Write(&out) == nil, "the merge of the blocks succeeds")
	merged := NewTrieBucketWithBlockSize(100)
	verifAssert(merged.Unmarshal(append([]byte{}, out.Bytes()...)) == nil, "the merged block loads")
	verifBucketCheck(merged, all, ids, "after the merge")
	verifReach("end")
}

func verifC20BucketReach() {
	id := uint32(verifRange("id", 0, 1000000))
	b1 := verifBucketBlock([]string{"aa", "b"}, []uint32{id, id + 1})
	bucket := NewTrieBucketWithBlockSize(100)
	_ = bucket.Unmarshal(b1)
	got, ok := bucket.GetValue([]byte("b"))
	verifObserve("bucket", id, got, ok, len(b1))
	verifAssert(id != 4242, "reach")
}
