package model

import (
	"bytes"

	"github.com/lindb/roaring"
)

// C20 (bucket layer): a bucket's dictionary is flushed in blocks (one trie each); the blocks of one
// bucket coming from two files are loaded into one TrieBucket and merged (rebuilt) by the real
// TrieBucket.Write, as index compaction does. Key sets of different trie shapes (flat, chains,
// leaves on different levels, a key that is a prefix of another) with symbolic ids: before and after
// the merge every key has its own id, absent keys are absent, and the bucket holds exactly the
// union of the pairs.

var verifBucketSetsA = [][]string{
	{"aa", "ab", "b"},
	{"a", "ab", "abc"},
	{"b", "ice", "zz"},
	{"ab", "abcd", "b", "bcd"},
}

var verifBucketSetsB = [][]string{
	{"x", "y"},
	{"k", "kl", "m"},
	{"q"},
}

func verifBucketBlock(keys []string, ids []uint32) []byte {
	var buf bytes.Buffer
	var ks [][]byte
	for _, k := range keys {
		ks = append(ks, []byte(k))
	}
	b := NewTrieBucketBuilder(100, &buf)
	verifAssume(b.Write(ks, append([]uint32{}, ids...)) == nil)
	return append([]byte{}, buf.Bytes()...)
}

func verifBucketCheck(bucket *TrieBucket, keys []string, ids []uint32, when string) {
	for i, k := range keys {
		id, ok := bucket.GetValue([]byte(k))
		verifAssert(ok, "a key of the bucket is found "+when)
		if ok {
			verifAssert(id == ids[i], "a key has its own id "+when)
		}
	}
	for _, k := range []string{"", "a0", "abd", "z", "kk", "yy"} {
		present := false
		for _, x := range keys {
			if x == k {
				present = true
			}
		}
		if !present {
			_, ok := bucket.GetValue([]byte(k))
			verifAssert(!ok, "an absent key is reported absent "+when)
		}
	}
	verifAssert(len(bucket.GetValues()) == len(keys), "the bucket holds exactly the union of the pairs "+when)
	// reverse lookup: every id resolves to its key (ids are made distinct below)
	want := roaring.New()
	for _, id := range ids {
		want.Add(id)
	}
	result := map[uint32]string{}
	bucket.CollectKVs(want, result)
	for i, k := range keys {
		verifAssert(result[ids[i]] == k, "an id resolves to its key "+when)
	}
}

func verifC20BucketMerge() {
	ka := verifBucketSetsA[verifChoose("setA", len(verifBucketSetsA))]
	kb := verifBucketSetsB[verifChoose("setB", len(verifBucketSetsB))]
	// ids: symbolic base plus a distinct concrete offset per key (distinct ids, as the sequences give)
	base := uint32(verifRange("idBase", 0, 1000000))
	var ia, ib []uint32
	for i := range ka {
		ia = append(ia, base+uint32(7*i+3))
	}
	for i := range kb {
		ib = append(ib, base+uint32(7*(i+len(ka))+5))
	}
	b1, b2 := verifBucketBlock(ka, ia), verifBucketBlock(kb, ib)
	bucket := NewTrieBucketWithBlockSize(100)
	verifAssert(bucket.Unmarshal(b1) == nil && bucket.Unmarshal(b2) == nil, "the flushed blocks load")
	all := append(append([]string{}, ka...), kb...)
	ids := append(append([]uint32{}, ia...), ib...)
	verifBucketCheck(bucket, all, ids, "before the merge")
	var out bytes.Buffer
	verifAssert(bucket.Write(&out) == nil, "the merge of the blocks succeeds")
	merged := NewTrieBucketWithBlockSize(100)
	verifAssert(merged.Unmarshal(append([]byte{}, out.Bytes()...)) == nil, "the merged block loads")
	verifBucketCheck(merged, all, ids, "after the merge")
	verifReach("end")
}

func verifC20BucketReach() {
	id := uint32(verifRange("id", 0, 1000000))
	b1 := verifBucketBlock([]string{"aa", "b"}, []uint32{id, id + 1})
	bucket := NewTrieBucketWithBlockSize(100)
	_ = bucket.Unmarshal(b1)
	got, ok := bucket.GetValue([]byte("b"))
	verifObserve("bucket", id, got, ok, len(b1))
	verifAssert(id != 4242, "reach")
}

// C20 (prefix enumeration over a bucket): the real TrieBucket.Suggest (one prefix iterator per block,
// merged in key order) over two blocks with symbolic key bytes - {a·x, a·y} and {a·z, "b"} - equals
// the sorted list of the bucket's keys that start with the prefix, cut at the limit.
func verifC20BucketSuggest() {
	x, y, z := verifNondetByte("x"), verifNondetByte("y"), verifNondetByte("z")
	verifAssume(x < y && z != x && z != y)
	verifAssume(x >= 'a' && y <= 'z' && z >= 'a' && z <= 'z')
	k1, k2, k3 := []byte{'a', x}, []byte{'a', y}, []byte{'a', z}
	var bufA, bufB bytes.Buffer
	verifAssume(NewTrieBucketBuilder(100, &bufA).Write([][]byte{k1, k2}, []uint32{1, 2}) == nil)
	verifAssume(NewTrieBucketBuilder(100, &bufB).Write([][]byte{k3, []byte("b")}, []uint32{3, 4}) == nil)
	bucket := NewTrieBucketWithBlockSize(100)
	verifAssert(bucket.Unmarshal(append([]byte{}, bufA.Bytes()...)) == nil && bucket.Unmarshal(append([]byte{}, bufB.Bytes()...)) == nil, "the flushed blocks load")
	// the reference: a·x < a·y, a·z somewhere among them, "b" last
	var sorted [][]byte
	switch {
	case z < x:
		sorted = [][]byte{k3, k1, k2}
	case z < y:
		sorted = [][]byte{k1, k3, k2}
	default:
		sorted = [][]byte{k1, k2, k3}
	}
	limit := 1 + verifChoose("limit", 4)
	prefix := []string{"a", ""}[verifChoose("prefix", 2)]
	want := sorted
	if prefix == "" {
		want = append(append([][]byte{}, sorted...), []byte("b"))
	}
	if len(want) > limit {
		want = want[:limit]
	}
	got := bucket.Suggest(prefix, limit)
	verifAssert(len(got) == len(want), "prefix enumeration over the bucket returns every key with the prefix, up to the limit")
	for i := 0; i < len(got) && i < len(want); i++ {
		verifAssert(got[i] == string(want[i]), "prefix enumeration over the bucket returns the keys in order, each once")
	}
	verifReach("end")
}
