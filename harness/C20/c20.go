package trie

import "bytes"

func verifKey(tag string, maxLen int, minLen int) []byte {
	n := minLen + verifChoose(tag+".len", maxLen-minLen+1)
	return verifSymBytes(tag, n)
}

func verifLess(a, b []byte) bool { return bytes.Compare(a, b) < 0 }

func verifHasPrefix(k, p []byte) bool {
	if len(p) > len(k) {
		return false
	}
	for i := range p {
		if k[i] != p[i] {
			return false
		}
	}
	return true
}

func verifEq(a, b []byte) bool {
	if len(a) != len(b) {
		return false
	}
	for i := range a {
		if a[i] != b[i] {
			return false
		}
	}
	return true
}

// C20: a dictionary built from any sorted set of distinct keys answers exact lookup, ordered
// iteration and prefix enumeration like a sorted map - before and after serialisation.
func verifDictionary(maxKeys, maxKeyLen, minKeyLen int, serialise bool) {
	verifDictionaryWith(maxKeys, maxKeyLen, minKeyLen, serialise, false)
}

func verifDictionaryWith(maxKeys, maxKeyLen, minKeyLen int, serialise, reuse bool) {
	n := 1 + verifChoose("nkeys", maxKeys)
	keys := make([][]byte, n)
	vals := make([]uint32, n)
	for i := 0; i < n; i++ {
		keys[i] = verifKey("key", maxKeyLen, minKeyLen)
		vals[i] = verifNondetUint32("val")
		if i > 0 {
			verifAssume(verifLess(keys[i-1], keys[i])) // sorted and distinct: the builder's precondition
		}
	}
	b := NewBuilder()
	if reuse {
		// the builder is pooled by its users (trie bucket builder, index flusher): before this dictionary it
		// built and wrote a larger one (300 keys of two bytes: bit vectors of several words), then Reset
		var bigKeys [][]byte
		var bigVals []uint32
		for i := 0; i < 300; i++ {
			bigKeys = append(bigKeys, []byte{byte('A' + i/20), byte('a' + i%20)})
			bigVals = append(bigVals, uint32(i))
		}
		b.Build(bigKeys, bigVals)
		var big bytes.Buffer
		verifAssert(b.Write(&big) == nil, "write of the earlier dictionary succeeds")
		b.Reset()
	}
	b.Build(keys, vals)
	var tr SuccinctTrie
	if serialise {
		var buf bytes.Buffer
		verifAssert(b.Write(&buf) == nil, "write succeeds")
		t2 := NewTrie()
		verifAssert(t2.UnmarshalBinary(buf.Bytes()) == nil, "a written dictionary loads again")
		tr = t2
	} else {
		tr = b.Trie()
	}
	verifAssert(tr.Size() == n, "size")
	// exact lookup of an arbitrary probe (absent keys, proper prefixes and extensions included)
	probe := verifKey("probe", maxKeyLen+1, minKeyLen)
	got, ok := tr.Get(probe)
	var want uint32
	present := false
	for i := range keys {
		if verifEq(keys[i], probe) {
			want, present = vals[i], true
		}
	}
	if len(probe) == 0 {
		verifAssert(ok == present, "lookup of the empty probe finds it exactly when the empty key is in the dictionary")
	} else {
		verifAssert(ok == present, "lookup finds exactly the keys of the dictionary")
	}
	if ok && present {
		verifAssert(got == want, "lookup returns the key's value")
	}
	// ordered iteration
	it := tr.NewIterator()
	it.SeekToFirst()
	i := 0
	for it.Valid() && i <= n {
		verifAssert(i < n && verifEq(it.Key(), keys[i]) && it.Value() == vals[i], "iteration yields exactly the pairs in key order")
		i++
		it.Next()
	}
	verifAssert(i == n, "iteration is complete")
	// prefix enumeration
	prefix := verifKey("prefix", maxKeyLen, minKeyLen)
	pi := tr.NewPrefixIterator(prefix)
	j := 0
	for k := 0; k < n; k++ {
		if verifHasPrefix(keys[k], prefix) {
			verifAssert(pi.Valid() && verifEq(pi.Key(), keys[k]) && pi.Value() == vals[k], "prefix enumeration yields exactly the keys with the prefix, in order")
			if pi.Valid() {
				pi.Next()
			}
			j++
		}
	}
	verifAssert(!pi.Valid(), "prefix enumeration ends after the last key with the prefix")
	verifReach("end")
}

// keys of 1..2 bytes, probes of 1..3 bytes
func verifC20Dict2()     { verifDictionary(2, 2, 1, true) }
func verifC20Dict3()     { verifDictionary(3, 2, 1, true) }
func verifC20DictInMem() { verifDictionary(2, 2, 1, false) }

// the same through a builder that was used for a larger dictionary before (Reset + reuse)
func verifC20DictReusedBuilder() { verifDictionaryWith(2, 2, 1, true, true) }

// the empty key and the empty probe are part of the space
func verifC20DictEmptyKey() { verifDictionary(2, 1, 0, true) }

// Seek: positions the iterator on the smallest key >= probe (lower bound of a sorted map) and
// reports whether that key equals the probe; from there Next walks the remaining keys in order.
// When no key is >= probe the iterator's state is not specified by the package (it moves to the
// last key) and nothing is asserted.
func verifSeek(maxKeys, maxKeyLen int) {
	n := 1 + verifChoose("nkeys", maxKeys)
	keys := make([][]byte, n)
	vals := make([]uint32, n)
	for i := 0; i < n; i++ {
		keys[i] = verifKey("key", maxKeyLen, 1)
		vals[i] = verifNondetUint32("val")
		if i > 0 {
			verifAssume(verifLess(keys[i-1], keys[i]))
		}
	}
	b := NewBuilder()
	b.Build(keys, vals)
	tr := b.Trie()
	probe := verifKey("probe", maxKeyLen+1, 1)
	lb := n
	for i := n - 1; i >= 0; i-- {
		if !verifLess(keys[i], probe) {
			lb = i
		}
	}
	it := tr.NewIterator()
	found := it.Seek(probe)
	if lb == n {
		verifReach("end")
		return
	}
	verifAssert(it.Valid(), "seek: a key >= probe exists, the iterator is valid")
	if !it.Valid() {
		return
	}
	// where did it land
	at := -1
	for i := 0; i < n; i++ {
		if verifEq(it.Key(), keys[i]) {
			at = i
		}
	}
	verifAssert(at >= 0 && it.Value() == vals[at], "seek lands on a key of the dictionary and shows its value")
	if at < 0 {
		return
	}
	// never beyond the lower bound (no key >= probe is skipped), at most one key before it
	verifAssert(at <= lb && at >= lb-1, "seek lands on the smallest key >= probe or on its predecessor")
	verifAssert(!found || verifEq(keys[at], probe), "seek reports an exact match only for the probe itself")
	for i := at + 1; i < n; i++ {
		it.Next()
		verifAssert(it.Valid() && verifEq(it.Key(), keys[i]) && it.Value() == vals[i], "seek: Next continues in key order")
	}
	it.Next()
	verifAssert(!it.Valid(), "seek: iteration ends after the last key")
	verifReach("end")
	// the sorted-map contract proper comes last (known findings C20-seek-not-lower-bound and
	// C20-seek-exact-flag, see known_findings.json), so that it does not cut the checks above short
	verifAssert(at == lb, "seek lands exactly on the smallest key >= probe")
	verifAssert(found == verifEq(keys[lb], probe), "seek reports an exact match exactly when the probe is a key")
}

func verifC20Seek2() { verifSeek(2, 2) }
func verifC20Seek3() { verifSeek(3, 2) }

// thorough: longer keys (leaf suffixes of two bytes, deeper tries)
func verifC20SeekLong() { verifSeek(2, 3) }
func verifC20DictLong() { verifDictionary(2, 3, 1, true) }

func verifC20Reach() {
	k1 := verifSymBytes("key", 2)
	k2 := verifSymBytes("key", 1)
	verifAssume(verifLess(k1, k2))
	b := NewBuilder()
	b.Build([][]byte{k1, k2}, []uint32{7, 9})
	var buf bytes.Buffer
	_ = b.Write(&buf)
	t2 := NewTrie()
	_ = t2.UnmarshalBinary(buf.Bytes())
	v, ok := t2.Get(k1)
	verifObserve("trie", k1[0], k1[1], k2[0], v, ok, buf.Len())
	verifAssert(k1[0] != 'a', "reach")
}

// a node with many children: n keys "id-<b>" with n distinct last bytes (n around the 64-bit word
// boundaries of the label / has-child bit vectors: the total label count a multiple of 64 or not, the
// last node wider than a word), serialised and loaded; an arbitrary probe "id-<p>": lookup finds it
// exactly when p is one of the bytes, with its value; prefix enumeration of "id-" yields all n keys.
func verifC20WideNode() {
	n := []int{63, 64, 65, 124, 125, 128, 129, 188, 189, 192}[verifChoose("keys", 10)]
	keys := make([][]byte, n)
	vals := make([]uint32, n)
	for i := 0; i < n; i++ {
		keys[i] = []byte{'i', 'd', '-', byte(i + 1)}
		vals[i] = uint32(1000 + i)
	}
	b := NewBuilder()
	b.Build(keys, vals)
	var buf bytes.Buffer
	verifAssert(b.Write(&buf) == nil, "write succeeds")
	tr := NewTrie()
	verifAssert(tr.UnmarshalBinary(buf.Bytes()) == nil, "a written dictionary loads again")
	p := verifNondetByte("probeByte")
	got, ok := tr.Get([]byte{'i', 'd', '-', p})
	present := p >= 1 && int(p) <= n
	verifAssert(ok == present, "lookup finds exactly the keys of the dictionary")
	if ok && present {
		verifAssert(got == 1000+uint32(p)-1, "lookup returns the key's value")
	}
	it := tr.NewPrefixIterator([]byte("id-"))
	cnt := 0
	for it.Valid() && cnt <= n {
		verifAssert(cnt < n && verifEq(it.Key(), keys[cnt]) && it.Value() == vals[cnt], "prefix enumeration yields exactly the keys with the prefix, in order")
		cnt++
		it.Next()
	}
	verifAssert(cnt == n, "prefix enumeration is complete")
	verifReach("end")
}
