package trie

import "bytes"

func verifKey(tag string, maxLen int, minLen int) []byte {
	n := minLen + verifChoose(tag+".len", maxLen-minLen+1)
	return verifSymBytes(tag, n)
}

func verifLess(a, b []byte) bool { return bytes.Compare(a, b) < 0 }

func verifHasPrefix(k, p []byte) bool {
	if len(p) > len(k) {
		return false
	}
	for i := range p {
		if k[i] != p[i] {
			return false
		}
	}
	return true
}

func verifEq(a, b []byte) bool {
	if len(a) != len(b) {
		return false
	}
	for i := range a {
		if a[i] != b[i] {
			return false
		}
	}
	return true
}

// C20: a dictionary built from any sorted set of distinct keys answers exact lookup, ordered
// iteration and prefix enumeration like a sorted map - before and after serialisation.
func verifDictionary(maxKeys, maxKeyLen, minKeyLen int, serialise bool) {
	n := 1 + verifChoose("nkeys", maxKeys)
	keys := make([][]byte, n)
	vals := make([]uint32, n)
	for i := 0; i < n; i++ {
		keys[i] = verifKey("key", maxKeyLen, minKeyLen)
		vals[i] = verifNondetUint32("val")
		if i > 0 {
			verifAssume(verifLess(keys[i-1], keys[i])) // sorted and distinct: the builder's precondition
		}
	}
	b := NewBuilder()
	b.Build(keys, vals)
	var tr SuccinctTrie
	if serialise {
		var buf bytes.Buffer
		verifAssert(b.Write(&buf) == nil, "write succeeds")
		t2 := NewTrie()
		verifAssert(t2.UnmarshalBinary(buf.Bytes()) == nil, "a written dictionary loads again")
		tr = t2
	} else {
		tr = b.Trie()
	}
	verifAssert(tr.Size() == n, "size")
	// exact lookup of an arbitrary probe (absent keys, proper prefixes and extensions included)
	probe := verifKey("probe", maxKeyLen+1, minKeyLen)
	got, ok := tr.Get(probe)
	var want uint32
	present := false
	for i := range keys {
		if verifEq(keys[i], probe) {
			want, present = vals[i], true
		}
	}
	if len(probe) == 0 {
		verifAssert(ok == present, "lookup of the empty probe finds it exactly when the empty key is in the dictionary")
	} else {
		verifAssert(ok == present, "lookup finds exactly the keys of the dictionary")
	}
	if ok && present {
		verifAssert(got == want, "lookup returns the key's value")
	}
	// ordered iteration
	it := tr.NewIterator()
	it.SeekToFirst()
	i := 0
	for it.Valid() && i <= n {
		verifAssert(i < n && verifEq(it.Key(), keys[i]) && it.Value() == vals[i], "iteration yields exactly the pairs in key order")
		i++
		it.Next()
	}
	verifAssert(i == n, "iteration is complete")
	// prefix enumeration
	prefix := verifKey("prefix", maxKeyLen, minKeyLen)
	pi := tr.NewPrefixIterator(prefix)
	j := 0
	for k := 0; k < n; k++ {
		if verifHasPrefix(keys[k], prefix) {
			verifAssert(pi.Valid() && verifEq(pi.Key(), keys[k]) && pi.Value() == vals[k], "prefix enumeration yields exactly the keys with the prefix, in order")
			if pi.Valid() {
				pi.Next()
			}
			j++
		}
	}
	verifAssert(!pi.Valid(), "prefix enumeration ends after the last key with the prefix")
	verifReach("end")
}

// keys of 1..2 bytes, probes of 1..3 bytes
func verifC20Dict2()       { verifDictionary(2, 2, 1, true) }
func verifC20Dict3()       { verifDictionary(3, 2, 1, true) }
func verifC20DictInMem()   { verifDictionary(2, 2, 1, false) }
// the empty key and the empty probe are part of the space
func verifC20DictEmptyKey() { verifDictionary(2, 1, 0, true) }

func verifC20Reach() {
	k1 := verifSymBytes("key", 2)
	k2 := verifSymBytes("key", 1)
	verifAssume(verifLess(k1, k2))
	b := NewBuilder()
	b.Build([][]byte{k1, k2}, []uint32{7, 9})
	var buf bytes.Buffer
	_ = b.Write(&buf)
	t2 := NewTrie()
	_ = t2.UnmarshalBinary(buf.Bytes())
	v, ok := t2.Get(k1)
	verifObserve("trie", k1[0], k1[1], k2[0], v, ok, buf.Len())
	verifAssert(k1[0] != 'a', "reach")
}
