package replica

import (
	"github.com/lindb/common/pkg/logger"
	protoMetricsV1 "github.com/lindb/common/proto/gen/v1/linmetrics"

	"github.com/lindb/lindb/metrics"
	"github.com/lindb/lindb/models"
	"github.com/lindb/lindb/series/metric"
	"github.com/lindb/lindb/tsdb"
)

// C07 (flush racing with local replication) with both sides real: the real localReplicator.Replica
// (validate the sequence, unmarshal the rows, write them, commit the sequence) applies three log
// entries to the real dataFamily (seam tsdb.VerifNewFamily: WriteRows, CommitSequence, Flush with
// freeze and sequence capture, acknowledgement callbacks) while another thread flushes twice; every
// interleaving within the pre-emption bound. Every durable commit is a possible crash image: every
// entry at or below the sequence stored with the flushed data is contained in flushed data, and the
// log is never acknowledged beyond that sequence.

type verifPassReader struct{}

func (verifPassReader) Uncompress(b []byte) ([]byte, error) { return b, nil }

func verifLocalMsg(entry int) []byte {
	conv := metric.NewProtoConverter(models.NewDefaultLimits())
	m := &protoMetricsV1.Metric{Name: "cpu", Timestamp: int64(entry + 1),
		Tags:         []*protoMetricsV1.KeyValue{{Key: "host", Value: "a"}},
		SimpleFields: []*protoMetricsV1.SimpleField{{Name: "f", Type: protoMetricsV1.SimpleFieldType_DELTA_SUM, Value: 1}}}
	b, err := conv.MarshalProtoMetricV1(m)
	if err != nil {
		panic(err)
	}
	return append([]byte{}, b...)
}

func verifC07LocalReplica3() { verifC07LocalReplica() }

func verifC07LocalReplica() {
	out := tsdb.VerifNewDurable()
	fam := tsdb.VerifNewFamily(out)
	fam.AckSequence(1, func(s int64) { out.AddAck(s) })
	lr := &localReplicator{
		leader:     1,
		replicator: replicator{channel: &ReplicatorChannel{State: &models.ReplicaState{Database: "db", ShardID: 1, Leader: 1, Follower: 1}}},
		family:     fam,
		reader:     verifPassReader{},
		batchRows:  metric.NewStorageBatchRows(),
		statistics: metrics.NewStorageLocalReplicatorStatistics("db", "1"),
		logger:     logger.GetLogger("Replica", "LocalReplicator"),
	}
	const k = 3
	msgs := make([][]byte, k)
	for s := 0; s < k; s++ {
		msgs[s] = verifLocalMsg(s)
	}
	verifSpawn(func() {
		for s := 0; s < k; s++ {
			lr.Replica(int64(s), msgs[s])
		}
	})
	verifSpawn(func() {
		_ = fam.Flush()
		_ = fam.Flush()
	})
	verifJoinAll()
	_ = fam.Flush()
	var durable []int
	stored := int64(-1)
	contains := func(x int) bool {
		for _, v := range durable {
			if v == x {
				return true
			}
		}
		return false
	}
	for i := 0; i < out.Commits(); i++ {
		durable = append(durable, out.Rows(i)...)
		if out.Seq(i) > stored {
			stored = out.Seq(i)
		}
		for s := 0; s < k; s++ {
			if int64(s) <= stored {
				verifAssert(contains(s), "every entry at or below the sequence stored with the flushed data is contained in flushed data")
			}
		}
	}
	for _, a := range out.Acks() {
		verifAssert(a <= stored, "the log is never acknowledged beyond the sequence stored with flushed data")
	}
	for s := 0; s < k; s++ {
		verifAssert(contains(s), "after the last flush every applied entry is in flushed data")
	}
	if stored >= 0 {
		verifAssert(!tsdb.VerifReopenedValidate(out, stored, stored), "an entry at the stored sequence is never applied again")
	}
	verifAssert(tsdb.VerifReopenedValidate(out, stored, stored+1), "the entry after the stored sequence is applied")
	verifReach("end")
}

func verifC07LocalReach() {
	out := tsdb.VerifNewDurable()
	fam := tsdb.VerifNewFamily(out)
	lr := &localReplicator{
		leader:     1,
		replicator: replicator{channel: &ReplicatorChannel{State: &models.ReplicaState{Database: "db", ShardID: 1, Leader: 1, Follower: 1}}},
		family:     fam,
		reader:     verifPassReader{},
		batchRows:  metric.NewStorageBatchRows(),
		statistics: metrics.NewStorageLocalReplicatorStatistics("db", "1"),
		logger:     logger.GetLogger("Replica", "LocalReplicator"),
	}
	n := verifChoose("entries", 3)
	for s := 0; s <= n; s++ {
		lr.Replica(int64(s), verifLocalMsg(s))
	}
	_ = fam.Flush()
	verifObserve("flushed", out.Commits(), out.Seq(0), len(out.Rows(0)))
	verifAssert(out.Seq(0) != int64(n), "reach")
}
