package replica

import (
	"context"
	"path/filepath"
	"strconv"
	"time"

	"github.com/lindb/lindb/config"
	"github.com/lindb/lindb/coordinator/storage"
	"github.com/lindb/lindb/models"
	"github.com/lindb/lindb/pkg/queue"
	"github.com/lindb/lindb/pkg/timeutil"
	"github.com/lindb/lindb/rpc"
	"github.com/lindb/lindb/tsdb"
)

// C07 (what is replayed after a restart): the real writeAheadLog.recovery (walk over shard / family /
// leader directories, GetOrCreatePartition, partition.recovery, buildReplica) and the real
// NewLocalReplicator on a node that restarts with a family log on disk - its own log (it is the
// leader) or the log of another leader it follows. The sequence stored with the family's flushed
// data is kept per LEADER: the recovered local replicator registers its acknowledgement callback,
// validates and commits sequences under the leader of the log it replays, so that what was durably
// flushed before the restart is acknowledged at once and not applied again.

type verifWalFamily struct {
	tsdb.DataFamily
	ackLeaders []int32
	stored     map[int32]int64 // sequences stored with flushed data
	retained   int
}

func (f *verifWalFamily) TimeRange() timeutil.TimeRange {
	return timeutil.TimeRange{Start: 0, End: 3600000 - 1}
}
func (f *verifWalFamily) Retain()  { f.retained++ }
func (f *verifWalFamily) Release() {}

// as tsdb/data_family.go AckSequence: remember the callback, tell it the persisted sequence at once
func (f *verifWalFamily) AckSequence(leader int32, fn func(seq int64)) {
	f.ackLeaders = append(f.ackLeaders, leader)
	if s, ok := f.stored[leader]; ok {
		fn(s)
	}
}

type verifWalDB struct{ tsdb.Database }

func (verifWalDB) Name() string { return "db" }

type verifWalShard struct {
	tsdb.Shard
	fam *verifWalFamily
}

func (s *verifWalShard) Database() tsdb.Database { return verifWalDB{} }
func (s *verifWalShard) ShardID() models.ShardID { return 1 }
func (s *verifWalShard) GetOrCrateDataFamily(int64) (tsdb.DataFamily, error) {
	return s.fam, nil
}

type verifWalEngine struct {
	tsdb.Engine
	shard *verifWalShard
}

func (e *verifWalEngine) GetShard(string, models.ShardID) (tsdb.Shard, bool) { return e.shard, true }

// a partition whose replica loop is not started (the loop is the subject of other harnesses)
type verifWalPartition struct{ Partition }

func (verifWalPartition) StartReplica() {}

func verifC07WalRecovery() {
	verifInstallFS()
	time.Local = time.UTC
	current := models.NodeID(2)
	leader := models.NodeID([]int{1, 2, 3}[verifChoose("leaderOfTheLog", 3)])
	appended := int64(verifChoose("appended", 3)) // 0..2
	stored := int64(verifChoose("storedWithFlushedData", int(appended)+2)) - 1
	base := verifDir("wal")
	family := "20231114230000"
	dir := filepath.Join(base, "db", "1", family, strconv.Itoa(int(leader)))
	// what the node left on disk: the leader's log with the local node's consumer group, whose
	// acknowledged position is behind what was flushed (the node died before the acknowledgement)
	log, err := queue.NewFanOutQueue(dir, 0)
	if err != nil {
		panic(err)
	}
	verifFill(log, 0, appended+1, 'm')
	g, _ := log.GetOrCreateConsumerGroup(strconv.Itoa(int(current)))
	g.SetConsumedSeq(appended)
	log.Close()

	fam := &verifWalFamily{stored: map[int32]int64{}}
	if stored >= 0 {
		fam.stored[int32(leader)] = stored
	}
	NewPartitionFn = func(ctx context.Context, shard tsdb.Shard, f tsdb.DataFamily, cur models.NodeID, q queue.FanOutQueue,
		cliFct rpc.ClientStreamFactory, stateMgr storage.StateManager) Partition {
		return verifWalPartition{NewPartition(ctx, shard, f, cur, q, cliFct, stateMgr)}
	}
	w := NewWriteAheadLog(context.Background(), config.WAL{Dir: base}, current, "db",
		&verifWalEngine{shard: &verifWalShard{fam: fam}}, nil, nil).(*writeAheadLog)
	verifAssert(w.recovery() == nil, "the write ahead log recovers")
	verifAssert(len(fam.ackLeaders) == 1, "one local replicator is rebuilt for the family log")
	if len(fam.ackLeaders) == 1 {
		verifAssert(fam.ackLeaders[0] == int32(leader), "the recovered local replicator works under the leader of the log it replays")
	}
	p, err := w.GetOrCreatePartition(1, 1700002800000, leader)
	verifAssert(err == nil && p != nil, "the recovered partition is there")
	if p != nil {
		for _, rs := range p.(verifWalPartition).Partition.(*partition).replicators {
			verifAssert(rs.ReplicaState().Leader == leader && rs.ReplicaState().Follower == current, "the replica state names the log's leader and the local node")
			if stored >= 0 {
				verifAssert(rs.AckIndex() >= stored, "what was stored with flushed data before the restart is acknowledged at once")
				verifAssert(rs.ReplicaIndex() == rs.AckIndex()+1, "replay starts right behind the acknowledged position")
			}
		}
	}
	verifReach("end")
}
