package tsdb

import (
	"sync"

	"github.com/lindb/common/pkg/logger"
	"go.uber.org/atomic"

	"github.com/lindb/lindb/kv"
	"github.com/lindb/lindb/kv/version"
	"github.com/lindb/lindb/metrics"
	"github.com/lindb/lindb/models"
	"github.com/lindb/lindb/pkg/timeutil"
	"github.com/lindb/lindb/series/metric"
	"github.com/lindb/lindb/tsdb/memdb"
	"github.com/lindb/lindb/tsdb/tblstore/metricsdata"
)

// Seam for the C07 harness in package replica (the real localReplicator against the real dataFamily):
// the family machinery of harness/C07/c07.go, exported.
//
// C07 (ordering protocol between applying a log entry, the sequence record and the data commit).
// Real: dataFamily.{WriteRows, GetOrCreateMemoryDatabase, Flush, flushMemoryDatabase,
// ValidateSequence, CommitSequence, AckSequence}. Models: the memory database is the set of applied
// log entries with the real one's synchronisation skeleton (write permits on a WaitGroup, flush
// waits for them); the kv flusher's commit is one atomic durable record {flushed entries, sequences}
// (that atomicity is C01's business).

type verifDurable struct {
	rows  [][]int // flushed entry sets, one per commit
	seqs  []int64 // sequence stored with each commit (leader 1)
	seqs2 []int64 // sequence stored with each commit (leader 2)
	acks2 []int64
	acks  []int64 // acknowledgements handed to the log
}

type verifMemDB struct {
	memdb.MemoryDatabase
	wc      sync.WaitGroup
	mu      sync.Mutex
	entries []int
	out     *verifDurable
	pending []int // snapshot taken by FlushFamilyTo, made durable by the flusher's commit
}

func (m *verifMemDB) MarkReadOnly()  {}
func (m *verifMemDB) AcquireWrite()  { m.wc.Add(1) }
func (m *verifMemDB) CompleteWrite() { m.wc.Done() }
func (m *verifMemDB) NumOfSeries() int {
	m.mu.Lock()
	defer m.mu.Unlock()
	return len(m.entries)
}
func (m *verifMemDB) MemSize() int64 { return 1 }
func (m *verifMemDB) Close() error   { return nil }
func (m *verifMemDB) WriteRow(r *metric.StorageRow) error {
	m.mu.Lock()
	defer m.mu.Unlock()
	if id, ok := verifRowEntry[r]; ok {
		m.entries = append(m.entries, id)
	} else {
		// rows that come through the real replicator are identified by their timestamp (entry + 1)
		m.entries = append(m.entries, int(r.Timestamp())-1)
		// the real memory database hands the row to the metadata and index workers, which release it
		r.Done()
		r.Done()
	}
	return nil
}
func (m *verifMemDB) FlushFamilyTo(fl metricsdata.Flusher) error {
	m.wc.Wait() // the real memory database waits for in-flight writers before it flushes
	m.mu.Lock()
	snapshot := append([]int{}, m.entries...)
	m.mu.Unlock()
	verifPendingRows = snapshot
	return fl.Close()
}

var verifRowEntry = map[*metric.StorageRow]int{}
var verifPendingRows []int

// kv flusher: Sequence records, Commit makes {rows, sequences} durable in one step
type verifKVFlusher struct {
	kv.Flusher
	out  *verifDurable
	seqs map[int32]int64
}

func (f *verifKVFlusher) Sequence(leader int32, seq int64) { f.seqs[leader] = seq }
func (f *verifKVFlusher) Commit() error {
	f.out.rows = append(f.out.rows, verifPendingRows)
	s, ok := f.seqs[1]
	if !ok {
		s = -1
	}
	f.out.seqs = append(f.out.seqs, s)
	s2, ok := f.seqs[2]
	if !ok {
		s2 = -1
	}
	f.out.seqs2 = append(f.out.seqs2, s2)
	return nil
}
func (f *verifKVFlusher) Release() {}

type verifKVFamily struct {
	kv.Family
	out *verifDurable
}

func (f *verifKVFamily) NewFlusher() kv.Flusher {
	return &verifKVFlusher{out: f.out, seqs: map[int32]int64{}}
}

type verifDataFlusher struct {
	metricsdata.Flusher
	kvf kv.Flusher
}

func (d *verifDataFlusher) Close() error { return d.kvf.Commit() }

func verifNewFamily(out *verifDurable) *dataFamily {
	newMemoryDBFunc = func(*memdb.MemoryDatabaseCfg) (memdb.MemoryDatabase, error) {
		return &verifMemDB{out: out}, nil
	}
	newMetricDataFlusher = func(kvFlusher kv.Flusher) (metricsdata.Flusher, error) {
		return &verifDataFlusher{kvf: kvFlusher}, nil
	}
	return &dataFamily{
		shard:      verifShard{},
		interval:   timeutil.Interval(10000),
		family:     &verifKVFamily{out: out},
		seq:        make(map[int32]atomic.Int64),
		persistSeq: make(map[int32]atomic.Int64),
		callbacks:  make(map[int32][]func(seq int64)),
		statistics: metrics.NewFamilyStatistics("db", "1"),
		logger:     logger.GetLogger("TSDB", "Family"),
	}
}

// reopen: the real newDataFamily reads the stored sequences from the kv family's current version
type verifStoredVersion struct {
	version.Version
	seqs map[int32]int64
}

func (v *verifStoredVersion) GetSequences() map[int32]int64 { return v.seqs }

type verifStoredSnapshot struct {
	version.Snapshot
	v *verifStoredVersion
}

func (s *verifStoredSnapshot) GetCurrent() version.Version { return s.v }
func (s *verifStoredSnapshot) Close()                      {}

type verifReopenedKVFamily struct {
	verifKVFamily
	seqs map[int32]int64
}

func (f *verifReopenedKVFamily) GetSnapshot() version.Snapshot {
	return &verifStoredSnapshot{v: &verifStoredVersion{seqs: f.seqs}}
}

func verifReopenFamily(out *verifDurable, stored int64) *dataFamily {
	seqs := map[int32]int64{}
	if stored >= 0 {
		seqs[1] = stored
	}
	fam := &verifReopenedKVFamily{verifKVFamily: verifKVFamily{out: out}, seqs: seqs}
	df := newDataFamily(verifShard{}, nil, timeutil.Interval(10000), timeutil.TimeRange{Start: 0, End: 3600000 - 1}, 0, fam)
	return df.(*dataFamily)
}

func verifReopenFamily2(out *verifDurable, stored []int64) *dataFamily {
	seqs := map[int32]int64{}
	for i, s := range stored {
		if s >= 0 {
			seqs[int32(i+1)] = s
		}
	}
	fam := &verifReopenedKVFamily{verifKVFamily: verifKVFamily{out: out}, seqs: seqs}
	df := newDataFamily(verifShard{}, nil, timeutil.Interval(10000), timeutil.TimeRange{Start: 0, End: 3600000 - 1}, 0, fam)
	return df.(*dataFamily)
}

type verifDB struct{ Database }

func (verifDB) Name() string { return "db" }

type verifShard struct{ Shard }

func (verifShard) Database() Database                 { return verifDB{} }
func (verifShard) ShardID() models.ShardID            { return 1 }
func (verifShard) MemIndexDB() memdb.IndexDatabase    { return nil }
func (verifShard) BufferManager() memdb.BufferManager { return nil }

func verifContains(l []int, x int) bool {
	for _, v := range l {
		if v == x {
			return true
		}
	}
	return false
}

func VerifNewDurable() *verifDurable { return &verifDurable{} }

// VerifNewFamily is the real dataFamily over the model memory database / kv flusher
func VerifNewFamily(out *verifDurable) DataFamily { return verifNewFamily(out) }

func (d *verifDurable) Commits() int     { return len(d.rows) }
func (d *verifDurable) Rows(i int) []int { return d.rows[i] }
func (d *verifDurable) Seq(i int) int64  { return d.seqs[i] }
func (d *verifDurable) Acks() []int64    { return d.acks }
func (d *verifDurable) AddAck(s int64)   { d.acks = append(d.acks, s) }
func VerifReopenedValidate(out *verifDurable, stored int64, seq int64) bool {
	return verifReopenFamily(out, stored).ValidateSequence(1, seq)
}
