package tsdb

import (
	"sync"

	"github.com/lindb/common/pkg/logger"
	"go.uber.org/atomic"

	"github.com/lindb/lindb/kv"
	"github.com/lindb/lindb/kv/version"
	"github.com/lindb/lindb/metrics"
	"github.com/lindb/lindb/models"
	"github.com/lindb/lindb/pkg/timeutil"
	"github.com/lindb/lindb/series/metric"
	"github.com/lindb/lindb/tsdb/memdb"
	"github.com/lindb/lindb/tsdb/tblstore/metricsdata"
)

// C07 (ordering protocol between applying a log entry, the sequence record and the data commit).
// Real: dataFamily.{WriteRows, GetOrCreateMemoryDatabase, Flush, flushMemoryDatabase,
// ValidateSequence, CommitSequence, AckSequence}. Models: the memory database is the set of applied
// log entries with the real one's synchronisation skeleton (write permits on a WaitGroup, flush
// waits for them); the kv flusher's commit is one atomic durable record {flushed entries, sequences}
// (that atomicity is C01's business).

type verifDurable struct {
	rows  [][]int // flushed entry sets, one per commit
	seqs  []int64 // sequence stored with each commit (leader 1)
	seqs2 []int64 // sequence stored with each commit (leader 2)
	acks2 []int64
	acks  []int64 // acknowledgements handed to the log
}

type verifMemDB struct {
	memdb.MemoryDatabase
	wc      sync.WaitGroup
	mu      sync.Mutex
	entries []int
	out     *verifDurable
	pending []int // snapshot taken by FlushFamilyTo, made durable by the flusher's commit
}

func (m *verifMemDB) MarkReadOnly()  {}
func (m *verifMemDB) AcquireWrite()  { m.wc.Add(1) }
func (m *verifMemDB) CompleteWrite() { m.wc.Done() }
func (m *verifMemDB) NumOfSeries() int {
	m.mu.Lock()
	defer m.mu.Unlock()
	return len(m.entries)
}
func (m *verifMemDB) MemSize() int64 { return 1 }
func (m *verifMemDB) Close() error   { return nil }
func (m *verifMemDB) WriteRow(r *metric.StorageRow) error {
	m.mu.Lock()
	defer m.mu.Unlock()
	m.entries = append(m.entries, verifRowEntry[r])
	return nil
}
func (m *verifMemDB) FlushFamilyTo(fl metricsdata.Flusher) error {
	m.wc.Wait() // the real memory database waits for in-flight writers before it flushes
	m.mu.Lock()
	snapshot := append([]int{}, m.entries...)
	m.mu.Unlock()
	verifPendingRows = snapshot
	return fl.Close()
}

var verifRowEntry = map[*metric.StorageRow]int{}
var verifPendingRows []int

// kv flusher: Sequence records, Commit makes {rows, sequences} durable in one step
type verifKVFlusher struct {
	kv.Flusher
	out  *verifDurable
	seqs map[int32]int64
}

func (f *verifKVFlusher) Sequence(leader int32, seq int64) { f.seqs[leader] = seq }
func (f *verifKVFlusher) Commit() error {
	f.out.rows = append(f.out.rows, verifPendingRows)
	s, ok := f.seqs[1]
	if !ok {
		s = -1
	}
	f.out.seqs = append(f.out.seqs, s)
	s2, ok := f.seqs[2]
	if !ok {
		s2 = -1
	}
	f.out.seqs2 = append(f.out.seqs2, s2)
	return nil
}
func (f *verifKVFlusher) Release() {}

type verifKVFamily struct {
	kv.Family
	out *verifDurable
}

func (f *verifKVFamily) NewFlusher() kv.Flusher {
	return &verifKVFlusher{out: f.out, seqs: map[int32]int64{}}
}

type verifDataFlusher struct {
	metricsdata.Flusher
	kvf kv.Flusher
}

func (d *verifDataFlusher) Close() error { return d.kvf.Commit() }

func verifNewFamily(out *verifDurable) *dataFamily {
	newMemoryDBFunc = func(*memdb.MemoryDatabaseCfg) (memdb.MemoryDatabase, error) {
		return &verifMemDB{out: out}, nil
	}
	newMetricDataFlusher = func(kvFlusher kv.Flusher) (metricsdata.Flusher, error) {
		return &verifDataFlusher{kvf: kvFlusher}, nil
	}
	return &dataFamily{
		shard:      verifShard{},
		interval:   timeutil.Interval(10000),
		family:     &verifKVFamily{out: out},
		seq:        make(map[int32]atomic.Int64),
		persistSeq: make(map[int32]atomic.Int64),
		callbacks:  make(map[int32][]func(seq int64)),
		statistics: metrics.NewFamilyStatistics("db", "1"),
		logger:     logger.GetLogger("TSDB", "Family"),
	}
}

// reopen: the real newDataFamily reads the stored sequences from the kv family's current version
type verifStoredVersion struct {
	version.Version
	seqs map[int32]int64
}

func (v *verifStoredVersion) GetSequences() map[int32]int64 { return v.seqs }

type verifStoredSnapshot struct {
	version.Snapshot
	v *verifStoredVersion
}

func (s *verifStoredSnapshot) GetCurrent() version.Version { return s.v }
func (s *verifStoredSnapshot) Close()                      {}

type verifReopenedKVFamily struct {
	verifKVFamily
	seqs map[int32]int64
}

func (f *verifReopenedKVFamily) GetSnapshot() version.Snapshot {
	return &verifStoredSnapshot{v: &verifStoredVersion{seqs: f.seqs}}
}

func verifReopenFamily(out *verifDurable, stored int64) *dataFamily {
	seqs := map[int32]int64{}
	if stored >= 0 {
		seqs[1] = stored
	}
	fam := &verifReopenedKVFamily{verifKVFamily: verifKVFamily{out: out}, seqs: seqs}
	df := newDataFamily(verifShard{}, nil, timeutil.Interval(10000), timeutil.TimeRange{Start: 0, End: 3600000 - 1}, 0, fam)
	return df.(*dataFamily)
}

func verifReopenFamily2(out *verifDurable, stored []int64) *dataFamily {
	seqs := map[int32]int64{}
	for i, s := range stored {
		if s >= 0 {
			seqs[int32(i+1)] = s
		}
	}
	fam := &verifReopenedKVFamily{verifKVFamily: verifKVFamily{out: out}, seqs: seqs}
	df := newDataFamily(verifShard{}, nil, timeutil.Interval(10000), timeutil.TimeRange{Start: 0, End: 3600000 - 1}, 0, fam)
	return df.(*dataFamily)
}

type verifDB struct{ Database }

func (verifDB) Name() string { return "db" }

type verifShard struct{ Shard }

func (verifShard) Database() Database                 { return verifDB{} }
func (verifShard) ShardID() models.ShardID            { return 1 }
func (verifShard) MemIndexDB() memdb.IndexDatabase    { return nil }
func (verifShard) BufferManager() memdb.BufferManager { return nil }

func verifContains(l []int, x int) bool {
	for _, v := range l {
		if v == x {
			return true
		}
	}
	return false
}

// one replication thread applying k log entries (as localReplicator.Replica does: validate, write,
// commit the sequence) against a flush thread; every interleaving within the pre-emption bound.
func verifC07FlushVsReplica() {
	out := &verifDurable{}
	f := verifNewFamily(out)
	f.AckSequence(1, func(s int64) { out.acks = append(out.acks, s) })
	k := 3
	applied := make([]bool, k)
	verifSpawn(func() {
		for s := 0; s < k; s++ {
			if f.ValidateSequence(1, int64(s)) {
				r := &metric.StorageRow{}
				verifRowEntry[r] = s
				_ = f.WriteRows([]*metric.StorageRow{r})
				f.CommitSequence(1, int64(s))
				applied[s] = true
			}
		}
	})
	verifSpawn(func() {
		_ = f.Flush()
		_ = f.Flush()
	})
	verifJoinAll()
	_ = f.Flush() // a final flush after both threads are done
	// every durable commit is a possible crash image: at that moment every entry at or below the
	// sequence stored with the flushed data must already be contained in flushed data
	var durable []int
	stored := int64(-1)
	for i := range out.rows {
		durable = append(durable, out.rows[i]...)
		if out.seqs[i] > stored {
			stored = out.seqs[i]
		}
		for s := 0; s < k; s++ {
			if int64(s) <= stored {
				verifAssert(verifContains(durable, s), "every entry at or below the sequence stored with the flushed data is contained in flushed data")
			}
		}
	}
	for _, a := range out.acks {
		verifAssert(a <= stored, "the log is never acknowledged beyond the sequence stored with flushed data")
	}
	// a replicator that registers now (rebuilt after a stop) is told the persisted sequence at once:
	// it must not be ahead of what is stored with flushed data either
	f.AckSequence(1, func(s int64) {
		verifAssert(s <= stored, "a newly registered acknowledgement callback is never told a sequence beyond the stored one")
	})
	// after a restart an entry at or below the stored sequence is rejected, a later one accepted
	// (the family is reopened by the real constructor from the sequences stored with the kv version)
	f2 := verifReopenFamily(out, stored)
	if stored >= 0 {
		verifAssert(!f2.ValidateSequence(1, stored), "an entry at the stored sequence is never applied again")
	}
	verifAssert(f2.ValidateSequence(1, stored+1), "the entry after the stored sequence is applied")
	verifReach("end")
}

func verifC07Reach() {
	out := &verifDurable{}
	f := verifNewFamily(out)
	r := &metric.StorageRow{}
	verifRowEntry[r] = 0
	_ = f.WriteRows([]*metric.StorageRow{r})
	s := verifRange("seq", 0, 100)
	f.CommitSequence(1, s)
	_ = f.Flush()
	verifObserve("flush", s, len(out.rows), out.seqs[0])
	verifAssert(s != 42, "reach")
}

// thorough: two leaders replicate into the family side by side (each with its own sequence) while
// the flush thread flushes twice. Per leader the same guarantees as above.
func verifC07TwoLeaders3() { verifC07TwoLeaders() } // same, pre-emption bound 3, time-boxed

func verifC07TwoLeaders() {
	out := &verifDurable{}
	f := verifNewFamily(out)
	f.AckSequence(1, func(s int64) { out.acks = append(out.acks, s) })
	f.AckSequence(2, func(s int64) { out.acks2 = append(out.acks2, s) })
	const k = 2
	for l := int32(1); l <= 2; l++ {
		leader := l
		verifSpawn(func() {
			for s := 0; s < k; s++ {
				if f.ValidateSequence(leader, int64(s)) {
					r := &metric.StorageRow{}
					verifRowEntry[r] = int(leader)*10 + s
					_ = f.WriteRows([]*metric.StorageRow{r})
					f.CommitSequence(leader, int64(s))
				}
			}
		})
	}
	verifSpawn(func() {
		_ = f.Flush()
		_ = f.Flush()
	})
	verifJoinAll()
	_ = f.Flush()
	var durable []int
	stored := []int64{-1, -1}
	for i := range out.rows {
		durable = append(durable, out.rows[i]...)
		if out.seqs[i] > stored[0] {
			stored[0] = out.seqs[i]
		}
		if out.seqs2[i] > stored[1] {
			stored[1] = out.seqs2[i]
		}
		for l := 0; l < 2; l++ {
			for s := 0; s < k; s++ {
				if int64(s) <= stored[l] {
					verifAssert(verifContains(durable, (l+1)*10+s), "two leaders: every entry at or below the sequence stored with the flushed data is contained in flushed data")
				}
			}
		}
	}
	for _, a := range out.acks {
		verifAssert(a <= stored[0], "two leaders: the log of leader 1 is never acknowledged beyond its stored sequence")
	}
	for _, a := range out.acks2 {
		verifAssert(a <= stored[1], "two leaders: the log of leader 2 is never acknowledged beyond its stored sequence")
	}
	// (not asserted: that the last sequences are stored - a flush with an empty memory database
	// stores nothing, an entry whose sequence was committed after the flush captured the
	// sequences is flushed but replayed after a restart; the property allows that)
	f2 := verifReopenFamily2(out, stored)
	for l := int32(1); l <= 2; l++ {
		if stored[l-1] >= 0 {
			verifAssert(!f2.ValidateSequence(l, stored[l-1]), "two leaders: an entry at the stored sequence is never applied again")
		}
		verifAssert(f2.ValidateSequence(l, stored[l-1]+1), "two leaders: the entry after the stored sequence is applied")
	}
	verifReach("end")
}
