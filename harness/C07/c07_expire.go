package replica

import (
	"go.uber.org/atomic"

	"github.com/lindb/lindb/metrics"
	"github.com/lindb/lindb/models"
	"github.com/lindb/lindb/pkg/option"
	commontimeutil "github.com/lindb/common/pkg/timeutil"

	"github.com/lindb/lindb/pkg/queue"
	"github.com/lindb/lindb/pkg/timeutil"
	"github.com/lindb/lindb/tsdb"
)

// C07 (the log is given up only when nothing in it is still needed): the real partition.IsExpire on
// a real write-ahead log (fan-out queue over the page model) with one or two consumer groups in an
// arbitrary state acknowledged <= consumed <= appended - the local replicator's group acknowledges
// only from the callback that runs after a flush committed, so "acknowledged" is what is durably in
// flushed data. writeAheadLog.destroy closes the log and removes its directory when IsExpire says
// yes: that answer is only allowed when the family is outside the writable window AND every group
// has acknowledged everything appended; otherwise entries that are in no flushed data would go.

type verifExpDB struct {
	tsdb.Database
	opt *option.DatabaseOption
}

func (d *verifExpDB) GetOption() *option.DatabaseOption { return d.opt }

type verifExpShard struct {
	tsdb.Shard
	db *verifExpDB
}

func (s *verifExpShard) Database() tsdb.Database { return s.db }

type verifExpFamily struct {
	tsdb.DataFamily
	tr timeutil.TimeRange
}

func (f *verifExpFamily) TimeRange() timeutil.TimeRange { return f.tr }

var verifExpNow int64

func verifStubTimeNow() int64 { return verifExpNow }

func verifC07Expire() {
	verifInstallFS()
	log, err := queue.NewFanOutQueue(verifDir("wal"), 0)
	if err != nil {
		panic(err)
	}
	appended := int64(verifChoose("appended", 4)) - 1 // -1..2
	verifFill(log, 0, appended+1, 'm')
	names := []string{"1", "2"}
	n := 1 + verifChoose("groups", 2)
	acks := make([]int64, n)
	for i := 0; i < n; i++ {
		g, _ := log.GetOrCreateConsumerGroup(names[i])
		consumed := int64(verifChoose("consumed", int(appended)+2)) - 1
		acked := int64(verifChoose("acked", int(consumed)+2)) - 1
		g.SetConsumedSeq(consumed)
		g.Ack(acked)
		acks[i] = g.AcknowledgedSeq()
	}
	const hour = 3600000
	// now relative to the end of the family: inside the writable window, inside the 15 minute buffer, beyond
	familyEnd, nowOff := int64(1700003600000), verifRange("nowAfterFamilyEnd", 0, 3*hour)
	if !verifIsSymbolic() {
		// natively the clock is the real one: place the family relative to it
		familyEnd = commontimeutil.Now() - nowOff
		if nowOff > hour+15*60000 {
			familyEnd -= 2000 // the clock moves on between here and the call
		}
	}
	verifExpNow = familyEnd + nowOff
	p := &partition{
		log:         log,
		shard:       &verifExpShard{db: &verifExpDB{opt: &option.DatabaseOption{Ahead: "1h", Behind: "1h"}}},
		family:      &verifExpFamily{tr: timeutil.TimeRange{Start: familyEnd - hour, End: familyEnd}},
		closed:      atomic.NewBool(false),
		statistics:  metrics.NewStorageWriteAheadLogStatistics("db", "1"),
		replicators: map[models.NodeID]Replicator{},
	}
	expire := p.IsExpire()
	allAcked := true
	for i := 0; i < n; i++ {
		if acks[i] < appended {
			allAcked = false
		}
	}
	outOfWindow := familyEnd+hour+15*60000 <= verifExpNow
	if expire {
		verifAssert(outOfWindow, "a log is given up only when its family is outside the writable window")
		verifAssert(allAcked, "a log is given up only when every entry appended is acknowledged (durably flushed / replicated) by every group")
	}
	if outOfWindow && allAcked {
		verifAssert(expire, "a log that nobody needs any more expires")
	}
	// a group that still has unacknowledged entries keeps existing
	if outOfWindow {
		for i := 0; i < n; i++ {
			if acks[i] < appended {
				found := false
				for _, nm := range log.ConsumerGroupNames() {
					if nm == names[i] {
						found = true
					}
				}
				verifAssert(found, "a group with unacknowledged entries is not stopped")
			}
		}
	}
	verifReach("end")
}

func verifC07ExpireReach() {
	verifInstallFS()
	log, _ := queue.NewFanOutQueue(verifDir("wal"), 0)
	verifFill(log, 0, 2, 'm')
	g, _ := log.GetOrCreateConsumerGroup("1")
	g.SetConsumedSeq(1)
	g.Ack(1)
	familyEnd, nowOff := int64(1700003600000), verifRange("nowAfterFamilyEnd", 0, 3*3600000)
	if !verifIsSymbolic() {
		familyEnd = commontimeutil.Now() - nowOff - 2000
	}
	verifExpNow = familyEnd + nowOff
	p := &partition{
		log:         log,
		shard:       &verifExpShard{db: &verifExpDB{opt: &option.DatabaseOption{Ahead: "1h", Behind: "1h"}}},
		family:      &verifExpFamily{tr: timeutil.TimeRange{Start: familyEnd - 3600000, End: familyEnd}},
		closed:      atomic.NewBool(false),
		statistics:  metrics.NewStorageWriteAheadLogStatistics("db", "1"),
		replicators: map[models.NodeID]Replicator{},
	}
	e := p.IsExpire()
	verifObserve("expire", nowOff, e)
	verifAssert(!e, "reach")
}

// C07 (a message that cannot be applied is skipped without acknowledging entries before it): the real
// replicator.IgnoreMessage on a real log with the replicator's group in an arbitrary state
// acknowledged <= consumed <= appended. The acknowledged position is what the family stored durably
// with its last flush; entries between it and the ignored message are applied to memory only, so the
// acknowledgement may move onto the ignored message only when that message directly follows it.
func verifC07IgnoreMessage() {
	verifInstallFS()
	log, err := queue.NewFanOutQueue(verifDir("wal"), 0)
	if err != nil {
		panic(err)
	}
	appended := int64(verifChoose("appended", 5)) - 1 // -1..3
	verifFill(log, 0, appended+1, 'm')
	g, _ := log.GetOrCreateConsumerGroup("1")
	consumed := int64(verifChoose("consumed", int(appended)+2)) - 1
	acked := int64(verifChoose("acked", int(consumed)+2)) - 1
	g.SetConsumedSeq(consumed)
	g.Ack(acked)
	acked = g.AcknowledgedSeq()
	r := &replicator{channel: &ReplicatorChannel{State: &models.ReplicaState{Database: "db", Leader: 1, Follower: 1}, ConsumerGroup: g}}
	// the message that cannot be applied is one that was consumed (handed to the replicator)
	idx := int64(verifChoose("ignoredMessage", int(consumed)+2)) - 1
	verifAssume(idx >= 0 && idx <= consumed)
	r.IgnoreMessage(idx)
	after := g.AcknowledgedSeq()
	verifAssert(after == acked || after == idx, "ignoring a message leaves the acknowledged position or moves it onto that message")
	if after != acked {
		verifAssert(idx == acked+1, "the acknowledged position moves onto an ignored message only when no unacknowledged entry lies before it")
	}
	if idx == acked+1 {
		verifAssert(after == idx, "an ignored message right behind the acknowledged position is acknowledged (the log does not get stuck)")
	}
	verifAssert(g.ConsumedSeq() == consumed, "ignoring a message does not move the consumed position")
	verifReach("end")
}

// C07 / C06 (an acknowledgement that arrives after the log was given up): a family's flush calls the
// acknowledgement callbacks of every leader it ever had - also of a leader whose log expired and
// was stopped (partition.IsExpire -> stopReplicator -> StopConsumerGroup closes the group and unmaps
// its meta page; writeAheadLog.destroy then removes the directory). The stale callback's Ack must not
// store into the unmapped page (natively: SIGSEGV of the storage node at the acknowledgement step of
// a flush), and it must not change what the group persisted.
func verifC07StaleAck() {
	verifInstallFS()
	verifFaultOnClosedStore = true
	defer func() { verifFaultOnClosedStore = false }()
	log, err := queue.NewFanOutQueue(verifDir("wal"), 0)
	if err != nil {
		panic(err)
	}
	appended := int64(verifChoose("appended", 3)) // 0..2
	verifFill(log, 0, appended+1, 'm')
	g, _ := log.GetOrCreateConsumerGroup("1")
	g.SetConsumedSeq(appended)
	g.Ack(appended) // everything flushed and acknowledged
	stop := verifChoose("howTheGroupEnded", 2)
	if stop == 0 {
		log.StopConsumerGroup("1") // the log expired: the replicator and its group were stopped
	} else {
		log.Close() // the whole log was closed (destroy)
	}
	// the family is flushed once more (another leader wrote to it, or it is closed at shutdown):
	// the old callback acknowledges the sequence it already acknowledged, or a sequence below
	ackArg := appended - int64(verifChoose("ackBelow", 2))
	g.Ack(ackArg)
	g.SetConsumedSeq(appended)
	verifAssert(g.AcknowledgedSeq() == appended, "a stopped group's acknowledged position is what it was when it stopped")
	verifReach("end")
}
