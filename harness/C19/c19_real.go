package query

import (
	"context"
	"errors"

	"github.com/lindb/lindb/internal/concurrent"
	stagepkg "github.com/lindb/lindb/query/stage"
	trackerpkg "github.com/lindb/lindb/query/tracker"
)

// C19 with the real stage machinery: stages whose Execute is the real baseStage.Execute (plan tree
// walk, completion / error hand-over, submission to the pool with the stage's error handler as panic
// handler), the real plan node, the real worker task execution of internal/concurrent (recover, panic
// routed to the task's panic handler) - the pool's dispatcher is replaced by one engine thread per
// submitted task. A stage's operator returns, fails or panics, or the stage panics when it is asked
// for its next stages (which happens inside its own completion handler, on the worker for a pooled
// stage). Every completion order within the pre-emption bound.

type verifPool struct{ concurrent.Pool }

func (verifPool) Submit(_ context.Context, task *concurrent.Task) {
	verifSpawn(func() { concurrent.VerifExecTask(task) })
}

type verifOp struct {
	outcome int
	run     *verifRun
}

func (o *verifOp) Identifier() string { return "op" }
func (o *verifOp) Execute() error {
	o.run.started++
	switch o.outcome {
	case 1:
		o.run.failed++
		return errors.New("operator failed")
	case 2:
		o.run.failed++
		o.run.anyPanic = true
		panic("operator panicked")
	}
	return nil
}

func verifRealStage(run *verifRun, id string, children ...stagepkg.Stage) stagepkg.Stage {
	outcome := verifChoose("outcome", 4) // 0 ok, 1 operator error, 2 operator panic, 3 panic in NextStages
	async := verifChoose("async", 2) == 1
	var pool concurrent.Pool
	if async {
		pool = verifPool{}
	}
	st := stagepkg.VerifNewStage(id, pool,
		func() stagepkg.PlanNode { return stagepkg.NewPlanNode(&verifOp{outcome: outcome, run: run}) },
		func() []stagepkg.Stage {
			if outcome == 3 {
				run.failed++
				run.anyPanic = true
				panic("next stages panicked")
			}
			return children
		})
	verifOutcomes[st] = verifOutcome{outcome: outcome, children: children}
	return st
}

// does some inline stage panic (operator or NextStages) while one of its ancestors runs on the pool?
// (known finding C19-inline-panic-under-pool; decided on the choices made)
func verifRealPipeline(shape int) {
	run := &verifRun{}
	calls := 0
	var got error
	p := NewExecutePipeline(&trackerpkg.StageTracker{}, func(err error) {
		calls++
		got = err
	})
	var root stagepkg.Stage
	switch shape {
	case 0:
		root = verifRealStage(run, "root")
	case 1:
		root = verifRealStage(run, "root", verifRealStage(run, "A"))
	default:
		root = verifRealStage(run, "root", verifRealStage(run, "A"), verifRealStage(run, "B"))
	}
	inlineUnderPool := verifRealInlinePanicUnderPool(root, false)
	p.Execute(root)
	verifJoinAll()
	verifAssert(calls <= 1, "completion is signalled at most once")
	if inlineUnderPool {
		verifAssert(calls >= 1, "completion is signalled at least once [an inline stage panicked under a pooled ancestor]")
	} else {
		verifAssert(calls >= 1, "completion is signalled at least once")
	}
	if calls == 1 {
		if run.failed > 0 {
			verifAssert(got != nil, "completion carries an error when a started stage failed or panicked")
		} else {
			verifAssert(got == nil, "completion carries no error when every stage succeeded")
		}
	}
	verifReach("end")
}

// the outcome / async choices of a stage are read back from the real stage object
func verifRealInlinePanicUnderPool(s stagepkg.Stage, pooledAncestor bool) bool {
	vs := s.(*stagepkg.VerifStage)
	o := verifOutcomes[vs]
	if o.outcome >= 2 && !s.IsAsync() && pooledAncestor {
		return true
	}
	for _, c := range o.children {
		if verifRealInlinePanicUnderPool(c, pooledAncestor || s.IsAsync()) {
			return true
		}
	}
	return false
}

type verifOutcome struct {
	outcome  int
	children []stagepkg.Stage
}

var verifOutcomes = map[*stagepkg.VerifStage]verifOutcome{}

func verifC19RealSingle() { verifOutcomes = map[*stagepkg.VerifStage]verifOutcome{}; verifRealPipeline(0) }
func verifC19RealChain()  { verifOutcomes = map[*stagepkg.VerifStage]verifOutcome{}; verifRealPipeline(1) }
func verifC19RealFanOut() { verifOutcomes = map[*stagepkg.VerifStage]verifOutcome{}; verifRealPipeline(2) }
