package query

import (
	"errors"

	"github.com/lindb/common/models"

	errorpkg "github.com/lindb/lindb/pkg/error"
	stagepkg "github.com/lindb/lindb/query/stage"
	trackerpkg "github.com/lindb/lindb/query/tracker"
)

// C19: stages with arbitrary outcome {ok, error, panic}, run inline or on a "pool" (a thread of the
// engine; the pool's panic routing - recover, then the stage's error handler - is reproduced as
// internal/concurrent.execTask does it), in every completion order within the pre-emption bound.

type verifRun struct {
	started, handled, failed int
	anyPanic                 bool
}

type verifStage struct {
	id       string
	children []stagepkg.Stage
	outcome  int // 0 ok, 1 error, 2 panic
	async    bool
	run      *verifRun
}

func (s *verifStage) Type() stagepkg.Type            { return 0 }
func (s *verifStage) Plan() stagepkg.PlanNode        { return nil }
func (s *verifStage) NextStages() []stagepkg.Stage   { return s.children }
func (s *verifStage) Complete()                      {}
func (s *verifStage) Identifier() string             { return s.id }
func (s *verifStage) IsAsync() bool                  { return s.async }
func (s *verifStage) Stats() []*models.OperatorStats { return nil }
func (s *verifStage) Execute(_ stagepkg.PlanNode, complete func(), errh func(err error)) {
	s.run.started++
	body := func() {
		switch s.outcome {
		case 0:
			s.run.handled++
			complete()
		case 1:
			s.run.failed++
			s.run.handled++
			errh(errors.New("stage failed"))
		default:
			s.run.failed++
			s.run.anyPanic = true
			panic("stage panicked")
		}
	}
	if !s.async {
		body()
		return
	}
	verifSpawn(func() {
		defer func() {
			if r := recover(); r != nil {
				// internal/concurrent: a panic of a pooled task goes to the task's panic handler
				s.run.handled++
				errh(errorpkg.Error(r))
			}
		}()
		body()
	})
}

// verifInlinePanicUnderPool: some stage that runs inline panics while one of its ancestors runs on a pool.
func verifInlinePanicUnderPool(s *verifStage, pooledAncestor bool) bool {
	if s.outcome == 2 && !s.async && pooledAncestor {
		return true
	}
	for _, c := range s.children {
		if verifInlinePanicUnderPool(c.(*verifStage), pooledAncestor || s.async) {
			return true
		}
	}
	return false
}

func verifNewStage(run *verifRun, id string, children ...stagepkg.Stage) *verifStage {
	return &verifStage{id: id, children: children, outcome: verifChoose("outcome", 3), async: verifChoose("async", 2) == 1, run: run}
}

func verifPipeline(shape int) {
	run := &verifRun{}
	calls := 0
	var got error
	pendingAtCallback := -1
	p := NewExecutePipeline(&trackerpkg.StageTracker{}, func(err error) {
		calls++
		got = err
		pendingAtCallback = run.started - run.handled
	})
	var root *verifStage
	switch shape {
	case 0: // a single stage
		root = verifNewStage(run, "root")
	case 1: // fan-out 2
		root = verifNewStage(run, "root", verifNewStage(run, "A"), verifNewStage(run, "B"))
	case 2: // depth 3
		root = verifNewStage(run, "root", verifNewStage(run, "A", verifNewStage(run, "B")))
	default: // fan-out with a grandchild
		root = verifNewStage(run, "root", verifNewStage(run, "A", verifNewStage(run, "C")), verifNewStage(run, "B"))
	}
	p.Execute(root)
	verifJoinAll()
	verifAssert(calls <= 1, "completion is signalled at most once")
	if verifInlinePanicUnderPool(root, false) {
		// known finding: see known_findings.json (C19-inline-panic-under-pool)
		verifAssert(calls >= 1, "completion is signalled at least once [an inline stage panicked under a pooled ancestor]")
	} else {
		verifAssert(calls >= 1, "completion is signalled at least once")
	}
	if calls == 0 {
		verifReach("end")
		return
	}
	if run.failed > 0 {
		verifAssert(got != nil, "completion carries an error when a started stage failed or panicked")
	} else {
		verifAssert(got == nil, "completion carries no error when every stage succeeded")
	}
	if !run.anyPanic {
		verifAssert(pendingAtCallback == 0, "when no stage panics completion is signalled only after every started stage finished")
	}
	verifReach("end")
}

func verifC19Single() { verifPipeline(0) }
func verifC19FanOut() { verifPipeline(1) }
func verifC19Chain()  { verifPipeline(2) }
func verifC19Tree()   { verifPipeline(3) }

func verifC19Reach() {
	run := &verifRun{}
	calls := 0
	p := NewExecutePipeline(&trackerpkg.StageTracker{}, func(err error) { calls++ })
	root := verifNewStage(run, "root", verifNewStage(run, "A"))
	p.Execute(root)
	verifJoinAll()
	verifObserve("pipeline", calls, run.started, run.handled, run.failed)
	verifAssert(run.failed == 0, "reach")
}
