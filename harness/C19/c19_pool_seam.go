package concurrent

import (
	"github.com/lindb/common/pkg/logger"

	"github.com/lindb/lindb/internal/linmetric"
	"github.com/lindb/lindb/metrics"
)

// Seam for the C19 real-stage harness: the worker's real task execution (panic recovery, routing of
// the panic to the task's panic handler) without the dispatcher / worker goroutines around it.
func VerifExecTask(task *Task) {
	p := &workerPool{
		statistics: metrics.NewConcurrentStatistics("verif", linmetric.BrokerRegistry),
		logger:     logger.GetLogger("Verif", "Pool"),
	}
	p.execTask(task)
}

// VerifNewPool is a worker pool without its dispatcher goroutine: Submit is the real one (the task
// queue, the rejection on a done context or a stopped pool), VerifRunQueued plays the dispatcher /
// worker (real execTask) for whatever was queued.
func VerifNewPool(stopped bool, queue int) Pool {
	p := &workerPool{
		tasks:      make(chan *Task, queue),
		statistics: metrics.NewConcurrentStatistics("verif", linmetric.BrokerRegistry),
		logger:     logger.GetLogger("Verif", "Pool"),
	}
	p.stopped.Store(stopped)
	return p
}

func VerifRunQueued(pool Pool) int {
	p := pool.(*workerPool)
	n := 0
	for {
		select {
		case t := <-p.tasks:
			p.execTask(t)
			n++
		default:
			return n
		}
	}
}
