package concurrent

import (
	"github.com/lindb/common/pkg/logger"

	"github.com/lindb/lindb/internal/linmetric"
	"github.com/lindb/lindb/metrics"
)

// Seam for the C19 real-stage harness: the worker's real task execution (panic recovery, routing of
// the panic to the task's panic handler) without the dispatcher / worker goroutines around it.
func VerifExecTask(task *Task) {
	p := &workerPool{
		statistics: metrics.NewConcurrentStatistics("verif", linmetric.BrokerRegistry),
		logger:     logger.GetLogger("Verif", "Pool"),
	}
	p.execTask(task)
}
