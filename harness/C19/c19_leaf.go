package context

import (
	stdctx "context"
	"errors"
	"time"

	"github.com/lindb/roaring"

	"github.com/lindb/lindb/aggregation"
	"github.com/lindb/lindb/aggregation/function"
	"github.com/lindb/lindb/flow"
	"github.com/lindb/lindb/models"
	protoCommonV1 "github.com/lindb/lindb/proto/gen/v1/common"
	"github.com/lindb/lindb/rpc"
	trackerpkg "github.com/lindb/lindb/query/tracker"
	"github.com/lindb/lindb/series/field"
)

// C19 (each request produces one response, never none and never two; a failure is not turned into
// a successful partial answer): the real LeafExecuteContext.SendResponse / waitCollectGroupingTags-
// Completed / sendResponse with the real reduce context behind stand-in streams that count what is
// sent. The pipeline's completion calls SendResponse(nil) or SendResponse(err); for a group-by query
// that found grouping tag value ids the collection of their tag values has completed, or the task
// context is done first (deadline / cancellation); a second SendResponse(err) (the failing
// collect task, or a second completion path) may run before, after or concurrently.

type verifLeafStream struct {
	protoCommonV1.TaskService_HandleServer
	sent []*protoCommonV1.TaskResponse
}

func (s *verifLeafStream) Send(r *protoCommonV1.TaskResponse) error {
	s.sent = append(s.sent, r)
	return nil
}

type verifLeafFactory struct {
	rpc.TaskServerFactory
	streams map[string]*verifLeafStream
}

func (f *verifLeafFactory) GetStream(node string) protoCommonV1.TaskService_HandleServer {
	if s, ok := f.streams[node]; ok {
		return s
	}
	return nil
}

// a context whose Done channel is under the harness's control
type verifLeafCtx struct {
	stdctx.Context
	done chan struct{}
	err  error
}

func (c *verifLeafCtx) Done() <-chan struct{} { return c.done }
func (c *verifLeafCtx) Err() error            { return c.err }

func verifC19Leaf() {
	groupBy := verifChoose("groupBy", 2) == 1
	hasTagValueIDs := groupBy && verifChoose("foundGroupingTagValueIDs", 2) == 1
	q := verifE2EQuery(groupBy, false)
	spec := aggregation.NewAggregatorSpec("f", field.SumField)
	spec.AddFunctionType(function.Sum)
	cx := &verifLeafCtx{done: make(chan struct{})}
	taskCtx := &flow.TaskContext{Ctx: cx, Cancel: func() {}, Start: time.Unix(0, 0)}
	receivers := []string{"r0", "r1"}[:1+verifChoose("receivers", 2)]
	fct := &verifLeafFactory{streams: map[string]*verifLeafStream{}}
	for _, r := range receivers {
		fct.streams[r] = &verifLeafStream{}
	}
	// the connection to the first of two receivers may be gone: the other one still gets its answer
	missing := len(receivers) == 2 && verifChoose("streamOfFirstReceiverGone", 2) == 1
	if missing {
		delete(fct.streams, "r0")
	}
	ctx := NewLeafExecuteContext(taskCtx, trackerpkg.NewStageTracker(taskCtx), q,
		&protoCommonV1.TaskRequest{RequestID: "req"}, fct, &models.Target{}, receivers, nil)
	ctx.StorageExecuteCtx.AggregatorSpecs = aggregation.AggregatorSpecs{spec}
	if hasTagValueIDs {
		ctx.StorageExecuteCtx.GroupingTagValueIDs = []*roaring.Bitmap{roaring.BitmapOf(1, 2)}
	}
	// what happens to the collection of the grouping tag values: completed before the pipeline
	// finishes, or the task's deadline passes first (the collect task is slow or has failed)
	collectDone := true
	if hasTagValueIDs {
		collectDone = verifChoose("collectCompletedBeforeDeadline", 2) == 1
		if collectDone {
			close(ctx.GroupingCtx.collectGroupingTagsCompleted)
		} else {
			cx.err = stdctx.DeadlineExceeded
			close(cx.done)
		}
	}
	pipelineErr := verifChoose("pipelineFailed", 2) == 1
	second := verifChoose("secondCompletion", 4) // 0 none, 1 before, 2 after, 3 concurrently
	failure := errors.New("stage failed")
	first := func() {
		if pipelineErr {
			ctx.SendResponse(failure)
		} else {
			ctx.SendResponse(nil)
		}
	}
	other := func() { ctx.SendResponse(errors.New("collect failed")) }
	switch second {
	case 0:
		first()
	case 1:
		other()
		first()
	case 2:
		first()
		other()
	case 3:
		verifSpawn(first)
		verifSpawn(other)
		verifJoinAll()
	}
	for _, r := range receivers {
		if missing && r == "r0" {
			continue
		}
		sent := fct.streams[r].sent
		verifAssert(len(sent) == 1, "each receiver gets exactly one response per request")
		if len(sent) == 0 {
			continue
		}
		for _, resp := range sent {
			verifAssert(resp.Completed && resp.RequestID == "req", "the response belongs to the request")
		}
		mustFail := pipelineErr || !collectDone || second == 1
		if mustFail {
			for _, resp := range sent {
				verifAssert(resp.ErrMsg != "", "a failed request is answered with an error, not with a successful partial answer")
			}
		}
		if !pipelineErr && collectDone && second == 0 {
			verifAssert(sent[0].ErrMsg == "" && len(sent[0].Payload) > 0, "a successful request is answered with its result set")
		}
	}
	verifReach("end")
}

func verifC19LeafReach() {
	q := verifE2EQuery(false, false)
	spec := aggregation.NewAggregatorSpec("f", field.SumField)
	spec.AddFunctionType(function.Sum)
	cx := &verifLeafCtx{done: make(chan struct{})}
	taskCtx := &flow.TaskContext{Ctx: cx, Cancel: func() {}, Start: time.Unix(0, 0)}
	fct := &verifLeafFactory{streams: map[string]*verifLeafStream{"r0": {}}}
	ctx := NewLeafExecuteContext(taskCtx, trackerpkg.NewStageTracker(taskCtx), q,
		&protoCommonV1.TaskRequest{RequestID: "req"}, fct, &models.Target{}, []string{"r0"}, nil)
	ctx.StorageExecuteCtx.AggregatorSpecs = aggregation.AggregatorSpecs{spec}
	if verifNondetBool("fail") {
		ctx.SendResponse(errors.New("x"))
	} else {
		ctx.SendResponse(nil)
	}
	verifObserve("sent", len(fct.streams["r0"].sent), fct.streams["r0"].sent[0].ErrMsg == "")
	verifAssert(fct.streams["r0"].sent[0].ErrMsg != "", "reach")
}
