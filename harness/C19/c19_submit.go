package query

import (
	"context"

	"github.com/lindb/lindb/internal/concurrent"
	stagepkg "github.com/lindb/lindb/query/stage"
	trackerpkg "github.com/lindb/lindb/query/tracker"
)

// C19 with the real Pool.Submit: a root stage with one or two pooled children, submitted through the
// real workerPool.Submit (task queue; rejection when the task's context is done or the pool is
// stopped) - the task context may be done (deadline passed, query cancelled) and the pool may have
// been stopped, in which case Submit may turn the task away; whatever was queued is then executed
// by the real execTask. The pipeline's completion is signalled exactly once, and it carries an
// error when a stage that was started by the pipeline never ran.

type verifDoneCtx struct {
	context.Context
	done chan struct{}
}

func (c *verifDoneCtx) Done() <-chan struct{} { return c.done }
func (c *verifDoneCtx) Err() error {
	select {
	case <-c.done:
		return context.Canceled
	default:
		return nil
	}
}

func verifC19Submit() {
	run := &verifRun{}
	calls := 0
	var got error
	p := NewExecutePipeline(&trackerpkg.StageTracker{}, func(err error) {
		calls++
		got = err
	})
	ctx := &verifDoneCtx{Context: context.Background(), done: make(chan struct{})}
	// the task context is done while the task queue has no room (Submit waits for room or for the
	// context, whichever comes first), or the context is live and the queue has room
	queue := 8
	if verifChoose("taskContextDoneWhileQueueFull", 2) == 1 {
		close(ctx.done)
		queue = 0
	}
	pool := concurrent.VerifNewPool(verifChoose("poolStopped", 2) == 1, queue)
	n := 1 + verifChoose("children", 2)
	ran := 0
	var children []stagepkg.Stage
	for i := 0; i < n; i++ {
		children = append(children, stagepkg.VerifNewStageCtx("child", pool, ctx,
			func() stagepkg.PlanNode {
				return stagepkg.NewPlanNode(&verifOp{outcome: 0, run: run})
			},
			func() []stagepkg.Stage { return nil }))
	}
	root := stagepkg.VerifNewStage("root", nil,
		func() stagepkg.PlanNode { return stagepkg.NewPlanNode(&verifOp{outcome: 0, run: run}) },
		func() []stagepkg.Stage { return children })
	p.Execute(root)
	ran = concurrent.VerifRunQueued(pool)
	verifAssert(calls <= 1, "completion is signalled at most once")
	verifAssert(calls >= 1, "completion is signalled at least once (also when the pool turned a stage away)")
	if calls == 1 {
		if ran < n {
			verifAssert(got != nil, "completion carries an error when a stage of the pipeline never ran")
		} else {
			verifAssert(got == nil, "completion carries no error when every stage succeeded")
		}
	}
	verifReach("end")
}
