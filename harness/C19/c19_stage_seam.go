package stage

import (
	"context"

	"github.com/lindb/lindb/internal/concurrent"
)

// Seam for the C19 real-stage harness: a stage whose Execute is the real baseStage.Execute (inline,
// or submitted to the pool with the stage's error handler as the task's panic handler); what the
// stage plans and which stages follow is supplied by the harness.
type VerifStage struct {
	baseStage
	ID     string
	PlanFn func() PlanNode
	NextFn func() []Stage
}

func VerifNewStage(id string, pool concurrent.Pool, planFn func() PlanNode, nextFn func() []Stage) *VerifStage {
	s := &VerifStage{ID: id, PlanFn: planFn, NextFn: nextFn}
	if pool != nil {
		s.baseStage = baseStage{ctx: context.Background(), execPool: pool}
	}
	return s
}

func (s *VerifStage) Identifier() string  { return s.ID }
func (s *VerifStage) Plan() PlanNode      { return s.PlanFn() }
func (s *VerifStage) NextStages() []Stage { return s.NextFn() }

// VerifNewStageCtx is VerifNewStage with the stage's context supplied (a task context that may be done)
func VerifNewStageCtx(id string, pool concurrent.Pool, ctx context.Context, planFn func() PlanNode, nextFn func() []Stage) *VerifStage {
	s := &VerifStage{ID: id, PlanFn: planFn, NextFn: nextFn}
	s.baseStage = baseStage{ctx: ctx, execPool: pool}
	return s
}
