package replica

import (
	"context"
	"errors"
	"os"

	"google.golang.org/grpc"

	"github.com/lindb/lindb/coordinator/storage"
	"github.com/lindb/lindb/metrics"
	"github.com/lindb/lindb/models"
	"github.com/lindb/lindb/pkg/queue"
	protoReplicaV1 "github.com/lindb/lindb/proto/gen/v1/replica"
	"github.com/lindb/lindb/rpc"
	"go.uber.org/atomic"
)

// ---- the follower side is the real partition code (ReplicaLog / ReplicaAckIndex / ResetReplicaIndex)
// on its own real log; the rpc client and stream are in-process calls into it, with a fault per call.

type verifStateMgr struct{ storage.StateManager }

// verifFollowerOffline: what the cluster state says about the follower node
var verifFollowerOffline bool

func (f *verifStateMgr) GetLiveNode(models.NodeID) (models.StatefulNode, bool) {
	return models.StatefulNode{}, !verifFollowerOffline
}
func (f *verifStateMgr) WatchNodeStateChangeEvent(models.NodeID, func(models.NodeStateType)) {}

type verifFollower struct {
	p *partition
	// faults: 0 none, 1 request lost (send fails), 2 reply lost (request delivered, recv fails),
	// 3 the follower's partition is closed while the stream is still open (expired family, shutdown),
	// 4 the follower's partition expired and was destroyed under the open stream; a late write makes the
	//   follower create a fresh, empty partition (the handshake calls resolve the partition per call, the
	//   stream keeps the one it was bound to)
	streamFault int
	pending     *protoReplicaV1.ReplicaResponse
	resets      []int64
	// positions the follower really stored at some time (initial content, successful ReplicaLog calls)
	everHeld  map[int64]bool
	recreated bool
	// generation of the connection to the follower node: the follower going offline closes and evicts
	// the pooled connection (coordinator/storage onNodeFailure); clients and streams made on an
	// older connection fail from then on, a client created afterwards gets a new connection
	gen int
}

type verifCli struct {
	protoReplicaV1.ReplicaServiceClient
	f   *verifFollower
	gen int
}

var errVerifConnClosing = errors.New("grpc: the client connection is closing")

func (c *verifCli) GetReplicaAckIndex(context.Context, *protoReplicaV1.GetReplicaAckIndexRequest, ...grpc.CallOption) (*protoReplicaV1.GetReplicaAckIndexResponse, error) {
	if c.gen != c.f.gen {
		return nil, errVerifConnClosing
	}
	return &protoReplicaV1.GetReplicaAckIndexResponse{AckIndex: c.f.p.ReplicaAckIndex()}, nil
}
func (c *verifCli) Reset(_ context.Context, in *protoReplicaV1.ResetIndexRequest, _ ...grpc.CallOption) (*protoReplicaV1.ResetIndexResponse, error) {
	if c.gen != c.f.gen {
		return nil, errVerifConnClosing
	}
	c.f.resets = append(c.f.resets, in.AppendIndex)
	c.f.p.ResetReplicaIndex(in.AppendIndex)
	return &protoReplicaV1.ResetIndexResponse{}, nil
}
func (c *verifCli) Replica(context.Context, ...grpc.CallOption) (protoReplicaV1.ReplicaService_ReplicaClient, error) {
	// the follower-side handler binds its partition once per stream (app/storage/rpc ReplicaHandler.Replica)
	if c.gen != c.f.gen {
		return nil, errVerifConnClosing
	}
	return &verifStream{f: c.f, p: c.f.p, gen: c.gen}, nil
}

type verifStream struct {
	protoReplicaV1.ReplicaService_ReplicaClient
	f   *verifFollower
	p   *partition // the partition this stream was bound to when it was created
	gen int
}

var errVerifFault = errors.New("stream fault")

func (s *verifStream) Send(req *protoReplicaV1.ReplicaRequest) error {
	if s.gen != s.f.gen {
		return errVerifConnClosing
	}
	if s.f.streamFault == 1 {
		return errVerifFault
	}
	if s.f.streamFault == 3 {
		s.p.closed.Store(true)
	} else {
		if s.p == s.f.p { // a partition that was destroyed stays closed
			s.p.closed.Store(false)
		}
	}
	// the follower-side handler (app/storage/rpc ReplicaHandler.Replica): ReplicaLog, then the reply
	appendedIdx, err := s.p.ReplicaLog(req.ReplicaIndex, req.Record)
	resp := &protoReplicaV1.ReplicaResponse{ReplicaIndex: req.ReplicaIndex, AckIndex: appendedIdx}
	if err != nil {
		resp.Err = err.Error()
	}
	if got, gerr := s.p.log.Queue().Get(req.ReplicaIndex); s.p == s.f.p && err == nil && gerr == nil && verifSameMsg(got, req.Record) {
		s.f.everHeld[req.ReplicaIndex] = true
	}
	s.f.pending = resp
	return nil
}
func (s *verifStream) Recv() (*protoReplicaV1.ReplicaResponse, error) {
	if s.gen != s.f.gen {
		return nil, errVerifConnClosing
	}
	if s.f.streamFault == 2 {
		return nil, errVerifFault
	}
	return s.f.pending, nil
}
func (s *verifStream) CloseSend() error { return nil }

type verifFct struct {
	rpc.ClientStreamFactory
	cli *verifCli
}

func (f *verifFct) CreateReplicaServiceClient(models.Node) (protoReplicaV1.ReplicaServiceClient, error) {
	// a client on the node's current connection
	return &verifCli{f: f.cli.f, gen: f.cli.f.gen}, nil
}

func verifDir(name string) string {
	if verifIsSymbolic() {
		return "/" + name
	}
	d, err := os.MkdirTemp("", "verif-"+name+"-")
	if err != nil {
		panic(err)
	}
	return d
}

// a log that holds messages 0..n-1 whose bytes are (tag, seq)
func verifFill(q queue.FanOutQueue, from, n int64, tag byte) {
	for i := from; i < n; i++ {
		_ = q.Queue().Put([]byte{tag, byte(i)})
	}
}

type verifPair struct {
	leader   queue.FanOutQueue
	follower *verifFollower
	rr       *remoteReplicator
	cg       queue.ConsumerGroup
}

// verifSetup: leader holds 0..la (same bytes as the follower for the common part), the follower
// holds 0..fa; the leader's consumer group for this follower remembers (consumed, acked).
func verifSetup(la, fa int64, consumed, acked int64) *verifPair {
	if verifIsSymbolic() {
		verifInstallFS()
	}
	lead, err := queue.NewFanOutQueue(verifDir("leader"), 0)
	if err != nil {
		panic(err)
	}
	fol, err := queue.NewFanOutQueue(verifDir("follower"), 0)
	if err != nil {
		panic(err)
	}
	verifFill(lead, 0, la+1, 'm')
	verifFill(fol, 0, fa+1, 'm')
	cg, _ := lead.GetOrCreateConsumerGroup("2")
	cg.SetConsumedSeq(consumed)
	cg.Ack(acked)
	f := &verifFollower{p: &partition{log: fol, closed: atomic.NewBool(false), statistics: metrics.NewStorageWriteAheadLogStatistics("db", "1")}, everHeld: map[int64]bool{}}
	for i := int64(0); i <= fa; i++ {
		f.everHeld[i] = true
	}
	rr := NewRemoteReplicator(context.Background(),
		&ReplicatorChannel{State: &models.ReplicaState{Database: "db", Leader: 1, Follower: 2}, ConsumerGroup: cg},
		&verifStateMgr{}, &verifFct{cli: &verifCli{f: f}}).(*remoteReplicator)
	return &verifPair{leader: lead, follower: f, rr: rr, cg: cg}
}

func verifSameMsg(a, b []byte) bool {
	if len(a) != len(b) {
		return false
	}
	for i := range a {
		if a[i] != b[i] {
			return false
		}
	}
	return true
}

// every position both sides hold carries the same bytes
func (p *verifPair) checkIdentical(upTo int64, label string) {
	for i := int64(0); i <= upTo; i++ {
		lm, lerr := p.leader.Queue().Get(i)
		fm, ferr := p.follower.p.log.Queue().Get(i)
		if lerr == nil && ferr == nil && i <= p.leader.Queue().AppendedSeq() && i <= p.follower.p.log.Queue().AppendedSeq() &&
			i > p.leader.Queue().AcknowledgedSeq() && i > p.follower.p.log.Queue().AcknowledgedSeq() {
			verifAssert(verifSameMsg(lm, fm), label+": follower holds the same bytes as the leader at a position both hold")
		}
	}
}

// C08 handshake + one replication round, for every relative position of the two logs within the
// bound: the leader's log ends at la, the follower's at fa (follower behind, equal, or ahead because
// the leader lost its tail; follower empty because it lost its log), the leader's group for the
// follower remembers an arbitrary (consumed, acked) pair that an earlier run may have left.
func verifC08Handshake() {
	maxSeq, rounds := 4, 3
	if verifThorough() {
		maxSeq, rounds = 6, 5 // longer logs, more replication rounds after the fault
	}
	la := int64(verifChoose("leaderAppended", maxSeq+1)) - 1      // -1..3
	fa := int64(verifChoose("followerAppended", maxSeq+2)) - 1    // -1..4
	consumed := int64(verifChoose("groupConsumed", maxSeq+2)) - 1 // -1..4
	acked := int64(verifChoose("groupAcked", maxSeq+2)) - 1
	verifAssume(acked <= consumed)
	// single-fault pre-states: either the follower really holds what the leader counts as acknowledged
	// (the leader may have lost its tail), or the leader still holds what it handed out (the follower
	// may have lost its log)
	verifAssume(acked <= fa || consumed <= la)
	p := verifSetup(la, fa, consumed, acked)
	acked = p.cg.AcknowledgedSeq()
	ready := p.rr.IsReady()
	verifAssert(ready, "the handshake succeeds when no fault is injected")
	if !ready {
		return
	}
	fnext := p.follower.p.ReplicaAckIndex() + 1
	verifAssert(p.rr.ReplicaIndex() == fnext, "after the handshake the leader resumes at the first position the follower lacks")
	verifAssert(p.rr.AckIndex() <= p.follower.p.ReplicaAckIndex(), "the leader never treats a position as acknowledged that the follower has not appended")
	verifAssert(p.rr.AppendIndex() >= fnext, "the leader will not store a new message at a position the follower already holds")
	p.checkIdentical(int64(maxSeq), "after handshake")
	// the leader appends a new message and replicates whatever is pending, with an arbitrary fault on the way
	_ = p.leader.Queue().Put([]byte{'n', 'e', 'w'})
	ackBase := int64(-1)
	p.follower.streamFault = verifChoose("streamFault", 6)
	verifAssert(p.rr.Connect(), "connect")
	if p.follower.streamFault == 5 {
		// the follower node went offline and came back: the connection the open stream (and the
		// client it was made from) uses is closed; whatever is created from now on works
		p.follower.gen++
		p.follower.streamFault = 0
	}
	if p.follower.streamFault == 4 {
		// destroyed under the open stream, re-created empty
		p.follower.p.closed.Store(true)
		fresh, err := queue.NewFanOutQueue(verifDir("follower2"), 0)
		if err != nil {
			panic(err)
		}
		p.follower.p = &partition{log: fresh, closed: atomic.NewBool(false), statistics: metrics.NewStorageWriteAheadLogStatistics("db", "1")}
		p.follower.recreated = true      // (everHeld keeps its history: "stored at some time")
		ackBase = p.cg.AcknowledgedSeq() // acknowledged before the follower lost everything
	}
	for round := 0; round < rounds; round++ {
		if !p.rr.IsReady() || !p.rr.Connect() {
			continue
		}
		idx := p.cg.ConsumedSeq() + 1
		if idx > p.leader.Queue().AppendedSeq() {
			break
		}
		p.cg.SetConsumedSeq(idx)
		msg, err := p.rr.GetMessage(idx)
		if err != nil {
			p.rr.IgnoreMessage(idx)
			continue
		}
		p.rr.Replica(idx, msg)
		p.follower.streamFault = 0 // faults stop: the channel must resynchronise by itself
		verifAssert(p.rr.AckIndex() <= p.follower.p.ReplicaAckIndex() || p.rr.AckIndex() <= ackBase, "ack never runs ahead of the follower's log")
	}
	p.checkIdentical(int64(maxSeq)+1, "after replication")
	// no holes: whatever the leader came to count as acknowledged by this follower during the run is a
	// position the follower really stored
	for i := acked + 1; i <= p.cg.AcknowledgedSeq(); i++ {
		verifAssert(p.follower.everHeld[i], "the leader never counts a position as acknowledged that the follower never stored (no hole in the follower's log)")
	}
	// resynchronisation without operator action: the faults stopped after the first round; with the
	// rounds that followed the follower caught up with everything the leader still holds
	if rounds >= 3 && p.leader.Queue().AppendedSeq()-p.follower.p.ReplicaAckIndex() > int64(rounds)-2 {
		// more pending messages than rounds left after the fault: not expected within the bound
	} else if p.leader.Queue().AppendedSeq() >= 0 {
		verifAssert(p.follower.p.ReplicaAckIndex() > fa || p.follower.p.ReplicaAckIndex() == p.leader.Queue().AppendedSeq() || p.follower.recreated && p.follower.p.ReplicaAckIndex() >= 0,
			"after the fault the channel resynchronises and the follower makes progress")
	}
	fa2 := p.follower.p.ReplicaAckIndex()
	verifAssert(fa2 >= fa || len(p.follower.resets) > 0 || p.follower.recreated, "the follower's log only shrinks when the leader asked for a reset")
	verifReach("end")
}

func verifC08Reach() {
	p := verifSetup(2, 0, 0, 0)
	ready := p.rr.IsReady()
	verifObserve("handshake", ready, p.rr.ReplicaIndex(), p.rr.AckIndex(), p.rr.AppendIndex(), p.follower.p.ReplicaAckIndex())
	x := verifRange("x", 0, 10)
	verifAssert(x != 3, "reach")
}

// serialisation of the replica state into the stream's metadata is not the subject (stubs)
func verifStubJSONMarshal(v interface{}) []byte                              { return []byte("{}") }
func verifStubOutgoingCtx(ctx context.Context, kv ...string) context.Context { return ctx }

// C08 (follower offline / online notifications): the handshake finds the follower offline and is about
// to suspend the replicator while, on another thread, the follower comes online and the state
// manager delivers the notification - every interleaving within the pre-emption bound. The
// replicator does not stay suspended for a follower that is alive: the handshake returns (nobody is
// left waiting for a notification that was already delivered), and it succeeds.
func verifC08OnlineRace3() { verifC08OnlineRace() }

func verifC08OnlineRace() {
	verifFollowerOffline = true
	p := verifSetup(1, 0, 0, 0)
	if !verifIsSymbolic() {
		// natively the spawned functions run one after the other: the first would wait for ever
		verifFollowerOffline = false
	}
	ready := false
	verifSpawn(func() { ready = p.rr.IsReady() })
	verifSpawn(func() {
		verifFollowerOffline = false // the cluster state changes first, then the watchers are told
		p.rr.handleNodeStateChangeEvent(models.NodeOnline)
	})
	verifJoinAll()
	verifFollowerOffline = false
	verifAssert(ready, "the handshake succeeds once the follower is online")
	verifReach("end")
}
