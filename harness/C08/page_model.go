package replica

import (
	"errors"
	"path/filepath"
	"sort"
	"strings"

	"github.com/lindb/lindb/pkg/queue/page"
)

// In-memory model of the mapped-page files behind the seams pkg/queue already has
// (newPageFactoryFunc, existFunc, mkDirFunc, listDirFunc). A "file" is a byte slice kept in
// verifFS across close/reopen; natively (replay) the model is not installed and the real mmap
// pages in a temporary directory are used instead.

// verifFaultOnClosedStore: a store to a page that was closed (unmapped) is a fault, as it is for
// the real mapped pages (SIGSEGV, not recoverable); harnesses that look for stale writers set it
var verifFaultOnClosedStore bool

func (p *verifPage) checkMapped() {
	if verifFaultOnClosedStore && p.closed {
		panic("store to an unmapped page (SIGSEGV natively)")
	}
}

type verifPage struct {
	path   string
	data   []byte
	closed bool
	fs     *verifFS
}

func (p *verifPage) FilePath() string { return p.path }
func (p *verifPage) WriteBytes(data []byte, offset int) {
	p.checkMapped()
	if p.fs.dead() {
		return
	}
	copy(p.data[offset:], data)
}
func (p *verifPage) ReadBytes(offset, length int) []byte { return p.data[offset : offset+length] }
func (p *verifPage) PutUint64(v uint64, offset int) {
	p.checkMapped()
	if p.fs.dead() {
		return
	}
	for i := 0; i < 8; i++ {
		p.data[offset+i] = byte(v >> (8 * uint(i)))
	}
}
func (p *verifPage) ReadUint64(offset int) uint64 {
	var v uint64
	for i := 7; i >= 0; i-- {
		v = v<<8 | uint64(p.data[offset+i])
	}
	return v
}
func (p *verifPage) PutUint32(v uint32, offset int) {
	p.checkMapped()
	if p.fs.dead() {
		return
	}
	for i := 0; i < 4; i++ {
		p.data[offset+i] = byte(v >> (8 * uint(i)))
	}
}
func (p *verifPage) ReadUint32(offset int) uint32 {
	var v uint32
	for i := 3; i >= 0; i-- {
		v = v<<8 | uint32(p.data[offset+i])
	}
	return v
}
func (p *verifPage) PutUint8(v uint8, offset int) {
	p.checkMapped()
	if p.fs.dead() {
		return
	}
	p.data[offset] = v
}
func (p *verifPage) ReadUint8(offset int) uint8 { return p.data[offset] }
func (p *verifPage) Sync() error                { return nil }
func (p *verifPage) Close() error               { p.closed = true; return nil }
func (p *verifPage) Closed() bool               { return p.closed }
func (p *verifPage) Size() int                  { return len(p.data) }

type verifFactory struct {
	fs       *verifFS
	path     string
	pageSize int
	pages    map[int64]*verifPage
	closed   bool
}

var errVerifClosed = errors.New("page factory is closed")

func (f *verifFactory) Close() error {
	f.closed = true
	for _, p := range f.pages {
		p.closed = true
	}
	return nil
}
func (f *verifFactory) AcquirePage(index int64) (page.MappedPage, error) {
	if f.closed {
		return nil, errVerifClosed
	}
	if p, ok := f.pages[index]; ok {
		return p, nil
	}
	name := f.fs.pageName(f.path, index)
	data, ok := f.fs.files[name]
	if !ok {
		data = f.fs.newFile(name, f.pageSize)
		f.fs.files[name] = data
	}
	p := &verifPage{path: name, data: data, fs: f.fs}
	f.pages[index] = p
	return p, nil
}
func (f *verifFactory) GetPage(index int64) (page.MappedPage, bool) {
	p, ok := f.pages[index]
	if !ok {
		return nil, false
	}
	return p, true
}
func (f *verifFactory) TruncatePages(index int64) {
	if f.closed {
		return
	}
	f.fs.truncated = append(f.fs.truncated, verifTruncate{path: f.path, index: index})
	var ids []int64
	for id := range f.pages {
		ids = append(ids, id)
	}
	for _, id := range ids {
		if id < index {
			f.pages[id].closed = true
			delete(f.fs.files, f.fs.pageName(f.path, id))
			delete(f.pages, id)
		}
	}
}
func (f *verifFactory) Size() int64 { return int64(len(f.pages) * f.pageSize) }

type verifTruncate struct {
	path  string
	index int64
}

type verifFS struct {
	files     map[string][]byte
	ops       int
	truncated []verifTruncate
	// crashAt >= 0: the process dies right before store number crashAt (stores after it are lost)
	crashAt int
	// newFile allocates the content of a file that does not exist yet
	newFile func(name string, size int) []byte
}

// dead counts one store to a mapped page and reports whether the process was already killed.
func (fs *verifFS) dead() bool {
	if fs.crashAt >= 0 && fs.ops >= fs.crashAt {
		return true
	}
	fs.ops++
	return false
}

func (fs *verifFS) pageName(dir string, index int64) string {
	return filepath.Join(dir, verifItoa(index)+".bat")
}

func verifItoa(i int64) string {
	if i == 0 {
		return "0"
	}
	neg := i < 0
	if neg {
		i = -i
	}
	s := ""
	for i > 0 {
		s = string(rune('0'+i%10)) + s
		i /= 10
	}
	if neg {
		s = "-" + s
	}
	return s
}

func verifAtoi(s string) int64 {
	var v int64
	for _, c := range s {
		v = v*10 + int64(c-'0')
	}
	return v
}

func (fs *verifFS) newFactory(path string, pageSize int) (page.Factory, error) {
	f := &verifFactory{fs: fs, path: path, pageSize: pageSize, pages: map[int64]*verifPage{}}
	// load the pages that exist, as page.NewFactory does
	var names []string
	for name := range fs.files {
		names = append(names, name)
	}
	sort.Strings(names)
	for _, name := range names {
		if filepath.Dir(name) == path && strings.HasSuffix(name, ".bat") {
			base := filepath.Base(name)
			idx := verifAtoi(base[:len(base)-4])
			f.pages[idx] = &verifPage{path: name, data: fs.files[name], fs: fs}
		}
	}
	return f, nil
}

func (fs *verifFS) exist(name string) bool {
	_, ok := fs.files[name]
	return ok
}

func (fs *verifFS) listDir(dir string) ([]string, error) {
	seen := map[string]bool{}
	var out []string
	for name := range fs.files {
		if strings.HasPrefix(name, dir+"/") {
			rest := name[len(dir)+1:]
			if i := strings.Index(rest, "/"); i >= 0 {
				rest = rest[:i]
			}
			if !seen[rest] {
				seen[rest] = true
				out = append(out, rest)
			}
		}
	}
	sort.Strings(out)
	return out, nil
}

var verifCurrentFS *verifFS

func verifStubExist(name string) bool { return verifCurrentFS.exist(name) }

// verifInstallFS creates the model; it is wired in through function stubs (see manifest): the queue
// package's seams are unexported, so page.NewFactory and the fileutil helpers are replaced instead.
func verifInstallFS() *verifFS {
	fs := &verifFS{files: map[string][]byte{}, crashAt: -1}
	fs.newFile = func(name string, size int) []byte {
		if size > 1<<16 {
			return verifSymArray("page", size)
		}
		return make([]byte, size)
	}
	verifCurrentFS = fs
	return fs
}

func verifStubNewFactory(path string, pageSize int) (page.Factory, error) {
	return verifCurrentFS.newFactory(path, pageSize)
}
func verifStubMkDir(string) error                   { return nil }
func verifStubListDir(dir string) ([]string, error) { return verifCurrentFS.listDir(dir) }
