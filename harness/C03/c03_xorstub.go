package encoding

// Fixed-width stand-in for the XOR value codec (overlaid into pkg/encoding for the C03 harnesses
// that carry symbolic sums through a compaction): every value is written as 64 raw bits through
// the real bit writer and read back through the real bit reader. The XOR codec itself is the
// subject of C14 (round trip of every value sequence within its bounds); with this stand-in block
// sizes are concrete and no path forks on the leading/trailing zeros of a symbolic delta.

func verifStubXORWrite(e *XOREncoder, val uint64) error {
	e.first = false
	e.previousVal = val
	e.err = e.bw.WriteBits(val, 64)
	return nil
}

func verifStubXORNext(d *XORDecoder) bool {
	if d.err != nil {
		return false
	}
	d.first = false
	v, err := d.br.ReadBits(64)
	if err != nil {
		d.err = err
		return false
	}
	d.val = v
	return true
}
