package metricsdata

import (
	"math"

	"github.com/lindb/roaring"

	"github.com/lindb/lindb/flow"
	"github.com/lindb/lindb/kv"
	"github.com/lindb/lindb/pkg/bit"
	"github.com/lindb/lindb/pkg/encoding"
	"github.com/lindb/lindb/pkg/timeutil"
	"github.com/lindb/lindb/series/field"
)

// C03: compaction of flushed metric blocks never changes what a reader observes.
//
// Inputs are built with the real metricsdata.Flusher exactly the way memdb flushes a metric
// (PrepareMetric; per series one FlushField per field - a full-range TSD bit stream or nil -;
// FlushSeries; CommitMetric). They are merged by the real kv.Merger registered for the data
// family (metricsdata.NewMerger -> merger.Merge) into a kv.NopFlusher sink, and the merged block
// is read back on the query path (NewReader, metricReader.Load, metricLoader.Load,
// readSeriesData, TSDDecoder.GetValue).
//
// The shape of each input (field subset, series subset, slot range, which slot holds a value,
// nil field data) is enumerated by verifChoose and therefore concrete on a path; the sample values
// are symbolic: one unconstrained finite float64 per (file, series, field); the k-th sample of that
// stream is the base value with the bits of verifC03Masks[k] flipped (sign / mantissa bits), which
// keeps the control bits of the XOR stream concrete while sign, exponent and mantissa of every
// sample stay symbolic.

const verifC03Base = 10 // first slot of the window

var verifC03Masks = []uint64{0, 1 << 63, 1 << 51, 1<<63 | 1<<50}

type verifC03Cell struct {
	present bool
	val     float64
}

type verifC03File struct {
	fields field.Metas
	rng    timeutil.SlotRange
	series []uint32
	// data[si][fi] == nil: FlushField(nil); otherwise one cell per slot of rng
	data [][][]verifC03Cell
}

func verifC03Key(series uint32, f field.ID, slot uint16) uint64 {
	return uint64(series)<<32 | uint64(f)<<16 | uint64(slot)
}

// verifC03Value returns a fresh finite float64 small enough that the sum of four of them is finite
func verifC03Value(tag string) uint64 {
	b := verifNondetUint64(tag)
	verifAssume((b>>52)&0x7ff <= 0x7fb)
	return b
}

func verifC03Flush(f *verifC03File) []byte {
	nop := kv.NewNopFlusher()
	fl, err := NewFlusher(nop)
	verifAssume(err == nil)
	fl.PrepareMetric(1, f.fields)
	for si, sid := range f.series {
		for fi := range f.fields {
			cells := f.data[si][fi]
			if cells == nil {
				_ = fl.FlushField(nil)
				continue
			}
			enc := fl.GetEncoder(fi)
			enc.RestWithStartTime(f.rng.Start)
			for _, c := range cells {
				if c.present {
					enc.AppendTime(bit.One)
					enc.AppendValue(math.Float64bits(c.val))
				} else {
					enc.AppendTime(bit.Zero)
				}
			}
			data, err := enc.BytesWithoutTime()
			verifAssume(err == nil)
			_ = fl.FlushField(data)
		}
		verifAssume(fl.FlushSeries(sid) == nil)
	}
	verifAssume(fl.CommitMetric(f.rng) == nil)
	return append([]byte{}, nop.Bytes()...)
}

// verifC03Read reads a block the way a query does and returns (series, field, slot) -> value
func verifC03Read(block []byte, want field.Metas, series *roaring.Bitmap) (map[uint64]float64, timeutil.SlotRange, bool) {
	obs := map[uint64]float64{}
	r, err := NewReader("verif", block)
	if err != nil {
		return obs, timeutil.SlotRange{}, false
	}
	highKeys := series.GetHighKeys()
	for i := range highKeys {
		hk := highKeys[i]
		ctx := &flow.DataLoadContext{
			ShardExecuteCtx: &flow.ShardExecuteContext{
				StorageExecuteCtx: &flow.StorageExecuteContext{Fields: want},
			},
			SeriesIDHighKey:       hk,
			LowSeriesIDsContainer: series.GetContainerAtIndex(i),
			IsMultiField:          len(want) > 1,
			Decoder:               encoding.GetTSDDecoder(),
		}
		ctx.Grouping()
		min := ctx.MinSeriesID
		ctx.DownSampling = func(rng timeutil.SlotRange, seriesIdx uint16, fieldIdx int, getter encoding.TSDValueGetter) {
			sid := uint32(hk)<<16 | uint32(min+seriesIdx)
			for s := rng.Start; s <= rng.End; s++ {
				v, ok := getter.GetValue(s)
				if ok {
					obs[verifC03Key(sid, want[fieldIdx].ID, s)] = v
				}
			}
		}
		loader := r.Load(ctx)
		if loader != nil {
			loader.Load(ctx)
		}
	}
	return obs, r.GetTimeRange(), true
}

type verifC03Acc struct {
	vals []float64 // contributed values in file order
}

// verifC03Expect folds what was written into the files: key -> contributed values in file order
func verifC03Expect(files []*verifC03File) map[uint64]*verifC03Acc {
	exp := map[uint64]*verifC03Acc{}
	for _, f := range files {
		for si, sid := range f.series {
			for fi, fm := range f.fields {
				cells := f.data[si][fi]
				for k, c := range cells {
					if !c.present {
						continue
					}
					key := verifC03Key(sid, fm.ID, f.rng.Start+uint16(k))
					a := exp[key]
					if a == nil {
						a = &verifC03Acc{}
						exp[key] = a
					}
					a.vals = append(a.vals, c.val)
				}
			}
		}
	}
	return exp
}

func verifC03Bits(f float64) uint64 { return math.Float64bits(f) }

// verifC03Differs is 1 when the two values differ in some bit and 0 when they are bit-identical
// (branch free: the harness must not fork on symbolic comparisons)
func verifC03Differs(a, b float64) uint64 {
	d := verifC03Bits(a) ^ verifC03Bits(b)
	return (d | (0 - d)) >> 63
}

// verifC03CheckValue: got is the right aggregate of the contributed values
func verifC03CheckValue(t field.Type, got float64, vals []float64) {
	switch t {
	case field.SumField, field.HistogramField:
		switch len(vals) {
		case 1:
			verifAssert(verifC03Differs(got, vals[0]) == 0, "sum of one contribution is that value")
		case 2:
			verifAssert(verifC03Differs(got, vals[0]+vals[1]) == 0, "sum equals the sum of both files")
		default:
			// floating point addition is not associative: any order of the three is the exact aggregate
			a, b, c := vals[0], vals[1], vals[2]
			verifAssert(verifC03Differs(got, (a+b)+c)&verifC03Differs(got, (a+c)+b)&verifC03Differs(got, (b+c)+a) == 0,
				"sum equals the sum of the three files")
		}
		return
	}
	miss := uint64(1)
	for _, v := range vals {
		miss &= verifC03Differs(got, v)
	}
	switch t {
	case field.MinField:
		verifAssert(miss == 0, "min is one of the contributed values")
		for _, v := range vals {
			verifAssert(got <= v, "min is not above any contributed value")
		}
	case field.MaxField:
		verifAssert(miss == 0, "max is one of the contributed values")
		for _, v := range vals {
			verifAssert(got >= v, "max is not below any contributed value")
		}
	default:
		verifAssert(miss == 0, "first/last is one of the contributed values")
	}
}

// verifC03Compare: obs is exactly the fold of the files
func verifC03Compare(files []*verifC03File, union field.Metas, obs map[uint64]float64) {
	exp := verifC03Expect(files)
	types := map[field.ID]field.Type{}
	for _, fm := range union {
		types[fm.ID] = fm.Type
	}
	for key, a := range exp {
		got, ok := obs[key]
		verifAssert(ok, "no series, field or slot disappears")
		if ok {
			verifC03CheckValue(types[field.ID(key>>16&0xffff)], got, a.vals)
		}
	}
	for key := range obs {
		_, ok := exp[key]
		verifAssert(ok, "no series, field or slot appears")
	}
}

func verifC03Union(files []*verifC03File) (field.Metas, *roaring.Bitmap, timeutil.SlotRange) {
	var union field.Metas
	ids := roaring.New()
	var rng timeutil.SlotRange
	for i, f := range files {
		for _, fm := range f.fields {
			if _, ok := union.GetFromID(fm.ID); !ok {
				union = append(union, fm)
			}
		}
		for _, s := range f.series {
			ids.Add(s)
		}
		if i == 0 || f.rng.Start < rng.Start {
			rng.Start = f.rng.Start
		}
		if i == 0 || f.rng.End > rng.End {
			rng.End = f.rng.End
		}
	}
	// query fields are ordered by id
	for i := 1; i < len(union); i++ {
		for j := i; j > 0 && union[j].ID < union[j-1].ID; j-- {
			union[j], union[j-1] = union[j-1], union[j]
		}
	}
	return union, ids, rng
}

// verifC03Merge runs the registered merger over the blocks and returns the merged block
func verifC03Merge(blocks [][]byte) ([]byte, bool) {
	sink := kv.NewNopFlusher()
	m, err := NewMerger(sink)
	verifAssume(err == nil)
	m.Init(map[string]interface{}{})
	if err := m.Merge(1, blocks); err != nil {
		verifObserve("merge error", err.Error())
		return nil, false
	}
	return append([]byte{}, sink.Bytes()...), true
}

// verifC03Run flushes the files, checks that each flushed block reads back as written, merges them
// and checks the merged block against the fold.
func verifC03Run(files []*verifC03File) []byte {
	union, ids, rng := verifC03Union(files)
	blocks := make([][]byte, len(files))
	for i, f := range files {
		blocks[i] = verifC03Flush(f)
		obs, r, ok := verifC03Read(blocks[i], union, ids)
		verifAssert(ok, "reader accepts a flushed block")
		if ok {
			_ = r
			verifC03Compare([]*verifC03File{f}, union, obs)
		}
	}
	merged, ok := verifC03Merge(blocks)
	if !ok {
		// a merge that reports an error aborts the compaction job: the version keeps the input
		// files and nothing a reader observes changes
		return nil
	}
	// the slot range recorded in the merged block is not asserted as such: what counts is that every
	// slot with a value is read back (a range that is too small loses slots and fails the comparison)
	obs, _, ok := verifC03Read(merged, union, ids)
	verifAssert(ok, "reader accepts the merged block")
	if ok {
		verifC03Compare(files, union, obs)
	}
	_ = rng
	return merged
}

// ---- shape generators ----

// verifC03Stream builds the cells of one (file, series, field) stream over n slots;
// pattern bit k set: slot k holds a value
func verifC03Stream(tag string, n int, pattern int) []verifC03Cell {
	cells := make([]verifC03Cell, n)
	base := uint64(0)
	have := false
	cnt := 0
	for k := 0; k < n; k++ {
		if pattern&(1<<uint(k)) == 0 {
			continue
		}
		if !have {
			base = verifC03Value(tag)
			have = true
		}
		cells[k] = verifC03Cell{present: true, val: math.Float64frombits(base ^ verifC03Masks[cnt%len(verifC03Masks)])}
		cnt++
	}
	return cells
}

// field types whose aggregate is one of the inputs: the merged stream is re-encoded by the real XOR
// codec with concrete control flow
var verifC03Select = []field.Type{field.MinField, field.MaxField, field.LastField, field.FirstField}

// field types whose aggregate is a floating point sum: these entries run with the fixed-width
// stand-in for the XOR codec (c03_xorstub.go), see the manifest
var verifC03Sums = []field.Type{field.SumField, field.HistogramField}

// verifC03Slots: one series, one field, two files with any slot range inside a window of slots and
// any presence pattern.
func verifC03Slots()    { verifC03SlotsOf(verifC03Select) }
func verifC03SlotsSum() { verifC03SlotsOf(verifC03Sums) }

func verifC03SlotsOf(types []field.Type) {
	t := types[verifChoose("type", len(types))]
	w := 3
	if verifThorough() {
		w = 4
	}
	files := make([]*verifC03File, 2)
	for i := range files {
		start := verifChoose("start", w)
		n := 1 + verifChoose("len", w-start)
		pattern := verifChoose("pattern", 1<<uint(n))
		files[i] = &verifC03File{
			fields: field.Metas{{ID: 3, Type: t}},
			rng:    timeutil.SlotRange{Start: uint16(verifC03Base + start), End: uint16(verifC03Base + start + n - 1)},
			series: []uint32{7},
			data:   [][][]verifC03Cell{{verifC03Stream("v", n, pattern)}},
		}
	}
	verifC03Run(files)
	verifReach("end")
}

// verifC03Series: series sets on both sides of a 65536 boundary, present in only some files
func verifC03Series() {
	cand := []uint32{3, 9, 65539}
	npat := 2
	if verifThorough() {
		npat = 3
	}
	pats := []int{1, 3, 2}
	nfiles := 2
	files := make([]*verifC03File, nfiles)
	for i := range files {
		sub := 1 + verifChoose("series", 1<<uint(len(cand))-1)
		f := &verifC03File{
			fields: field.Metas{{ID: 1, Type: field.SumField}},
			rng:    timeutil.SlotRange{Start: verifC03Base, End: verifC03Base + 1},
		}
		for k, s := range cand {
			if sub&(1<<uint(k)) == 0 {
				continue
			}
			f.series = append(f.series, s)
			f.data = append(f.data, [][]verifC03Cell{verifC03Stream("v", 2, pats[verifChoose("pattern", npat)])})
		}
		files[i] = f
	}
	verifC03Run(files)
	verifReach("end")
}

// verifC03SeriesFields: a metric with two fields whose series lie in two containers (ids on both
// sides of a 65536 boundary), each input holding one or both containers: the compaction output has
// several containers AND several fields per series (the field offsets of a series are relative to
// where its entry starts - also for the first series of a later container).
func verifC03SeriesFields() {
	sets := [][][]uint32{
		{{3, 9}, {3, 65539}},
		{{65539, 65540}, {9, 65539, 65540}},
	}
	files := make([]*verifC03File, 2)
	for i := range files {
		f := &verifC03File{
			fields: field.Metas{{ID: 1, Type: field.MinField}, {ID: 4, Type: field.MaxField}},
			rng:    timeutil.SlotRange{Start: verifC03Base, End: verifC03Base + 1},
		}
		f.series = sets[i][verifChoose("series", 2)]
		pat := []int{3, 1}[verifChoose("pattern", 2)]
		for range f.series {
			f.data = append(f.data, [][]verifC03Cell{verifC03Stream("v", 2, pat), verifC03Stream("w", 2, 3)})
		}
		files[i] = f
	}
	verifC03Run(files)
	verifReach("end")
}

// verifC03Fields: fields present in only some files, nil field data, series missing from a file,
// different slot ranges
func verifC03Fields() {
	cand := field.Metas{{ID: 1, Type: field.SumField}, {ID: 4, Type: field.MinField}, {ID: 7, Type: field.LastField}}
	files := make([]*verifC03File, 2)
	for i := range files {
		sub := 1 + verifChoose("fields", 1<<uint(len(cand))-1)
		f := &verifC03File{rng: timeutil.SlotRange{Start: uint16(verifC03Base + i), End: uint16(verifC03Base + i + 1)}}
		for k, fm := range cand {
			if sub&(1<<uint(k)) != 0 {
				f.fields = append(f.fields, fm)
			}
		}
		f.series = []uint32{5}
		if i == 0 && verifChoose("second-series", 2) == 1 {
			f.series = []uint32{5, 6}
		}
		for range f.series {
			var row [][]verifC03Cell
			some := false
			for range f.fields {
				if verifChoose("nil", 2) == 1 {
					row = append(row, nil)
				} else {
					row = append(row, verifC03Stream("v", 2, 3))
					some = true
				}
			}
			// a series without a page in any flushed field is outside the bound (see DESIGN.md)
			verifAssume(some)
			f.data = append(f.data, row)
		}
		files[i] = f
	}
	verifC03Run(files)
	verifReach("end")
}

// verifC03TwoMetrics: ONE merger instance merges two metrics one after the other, as a compaction job
// does for the keys of its input files; the metrics' blocks have different field layouts (the first: two
// select-type fields, thorough: any subset of three; the second: any non-empty subset of the three). Each merged block is compared
// with the fold of that metric's inputs: nothing of the first metric's layout leaks into the second.
func verifC03TwoMetrics() {
	cand := field.Metas{{ID: 1, Type: field.MinField}, {ID: 4, Type: field.MaxField}, {ID: 7, Type: field.LastField}}
	sink := kv.NewNopFlusher()
	m, err := NewMerger(sink)
	verifAssume(err == nil)
	m.Init(map[string]interface{}{})
	for metric := 0; metric < 2; metric++ {
		sub := 3 // the first metric: fields 1 and 4
		if metric == 1 || verifThorough() {
			sub = 1 + verifChoose("fields", 1<<uint(len(cand))-1)
		}
		files := make([]*verifC03File, 2)
		for i := range files {
			f := &verifC03File{rng: timeutil.SlotRange{Start: uint16(verifC03Base + i), End: uint16(verifC03Base + i + 1)}, series: []uint32{5}}
			for k, fm := range cand {
				if sub&(1<<uint(k)) != 0 {
					f.fields = append(f.fields, fm)
				}
			}
			var row [][]verifC03Cell
			for range f.fields {
				row = append(row, verifC03Stream("v", 2, 3))
			}
			f.data = append(f.data, row)
			files[i] = f
		}
		union, ids, _ := verifC03Union(files)
		blocks := make([][]byte, len(files))
		for i, f := range files {
			blocks[i] = verifC03Flush(f)
		}
		err := m.Merge(uint32(1+metric), blocks)
		verifAssert(err == nil, "the merger accepts a further metric of the same compaction")
		if err != nil {
			return
		}
		merged := append([]byte{}, sink.Bytes()...)
		obs, _, ok := verifC03Read(merged, union, ids)
		verifAssert(ok, "reader accepts the merged block")
		if ok {
			verifC03Compare(files, union, obs)
		}
	}
	verifReach("end")
}

// verifC03Three: three files, one series, one field, overlapping ranges (thorough)
func verifC03Three()    { verifC03ThreeOf(verifC03Select) }
func verifC03ThreeSum() { verifC03ThreeOf(verifC03Sums[:1]) }

func verifC03ThreeOf(types []field.Type) {
	t := types[verifChoose("type", len(types))]
	files := make([]*verifC03File, 3)
	for i := range files {
		start := verifChoose("start", 2)
		n := 1 + verifChoose("len", 2)
		f := &verifC03File{
			fields: field.Metas{{ID: 2, Type: t}},
			rng:    timeutil.SlotRange{Start: uint16(verifC03Base + start), End: uint16(verifC03Base + start + n - 1)},
			series: []uint32{7},
		}
		f.data = [][][]verifC03Cell{{verifC03Stream("v", n, 1+verifChoose("pattern", 1<<uint(n)-1))}}
		files[i] = f
	}
	verifC03Run(files)
	verifReach("end")
}

// verifC03Twice: compacting the result of a compaction with a further file equals the fold of all
// three (a sequence of flush/compact steps)
func verifC03Twice()    { verifC03TwiceOf(verifC03Select) }
func verifC03TwiceSum() { verifC03TwiceOf(verifC03Sums[:1]) }

func verifC03TwiceOf(types []field.Type) {
	t := types[verifChoose("type", len(types))]
	files := make([]*verifC03File, 3)
	for i := range files {
		n := 2
		f := &verifC03File{
			fields: field.Metas{{ID: 2, Type: t}},
			rng:    timeutil.SlotRange{Start: uint16(verifC03Base + i), End: uint16(verifC03Base + i + n - 1)},
			series: []uint32{7},
		}
		f.data = [][][]verifC03Cell{{verifC03Stream("v", n, 1+verifChoose("pattern", 3))}}
		files[i] = f
	}
	union, ids, rng := verifC03Union(files)
	first := verifC03Run(files[:2])
	if first == nil {
		return
	}
	// level-1 result first, then the newer level-0 file
	second, ok := verifC03Merge([][]byte{first, verifC03Flush(files[2])})
	if !ok {
		return
	}
	obs, _, ok := verifC03Read(second, union, ids)
	verifAssert(ok, "reader accepts the twice merged block")
	if ok {
		verifC03Compare(files, union, obs)
	}
	_ = rng
	verifReach("end")
}

// reachability twin: a merged value that is not the fold must be reported
func verifC03Reach() {
	f0 := &verifC03File{
		fields: field.Metas{{ID: 3, Type: field.SumField}},
		rng:    timeutil.SlotRange{Start: 10, End: 11},
		series: []uint32{7},
		data:   [][][]verifC03Cell{{verifC03Stream("v", 2, 3)}},
	}
	f1 := &verifC03File{
		fields: field.Metas{{ID: 3, Type: field.SumField}},
		rng:    timeutil.SlotRange{Start: 11, End: 12},
		series: []uint32{7, 65539},
		data:   [][][]verifC03Cell{{verifC03Stream("v", 2, 1)}, {verifC03Stream("v", 2, 2)}},
	}
	union, ids, _ := verifC03Union([]*verifC03File{f0, f1})
	merged, ok := verifC03Merge([][]byte{verifC03Flush(f0), verifC03Flush(f1)})
	verifAssume(ok)
	obs, _, ok := verifC03Read(merged, union, ids)
	verifAssume(ok)
	got, ok := obs[verifC03Key(7, 3, 11)]
	verifAssume(ok)
	_, ok2 := obs[verifC03Key(65539, 3, 12)]
	verifAssume(ok2)
	// wrong on purpose: the merged value is claimed to be the first file's value alone
	verifAssert(verifC03Differs(got, f0.data[0][0][1].val) == 0, "reach")
}
