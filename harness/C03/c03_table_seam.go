package table

import (
	"github.com/lindb/roaring"

	"github.com/lindb/lindb/pkg/bufioutil"
)

// In-memory files behind the store builder's writer seam (newBufioWriterFunc), exported for the C03
// compaction harness that lives in package kv. The store builder, its stream writer and the table
// reader are the real ones.

type VerifFile struct {
	Data            []byte
	Closed          bool
	WriteAfterClose bool
}

var VerifFiles = map[string]*VerifFile{}

// VerifOnCreate, when set, is called whenever a store builder creates its file (harnesses that care
// about the moment a table file comes into existence)
var VerifOnCreate func(fileName string)

type verifSeamWriter struct{ f *VerifFile }

func (w *verifSeamWriter) Write(p []byte) (int, error) {
	if w.f.Closed {
		w.f.WriteAfterClose = true
		return len(p), nil
	}
	w.f.Data = append(w.f.Data, p...)
	return len(p), nil
}
func (w *verifSeamWriter) Close() error { w.f.Closed = true; return nil }
func (w *verifSeamWriter) Reset(fileName string) error {
	w.f = &VerifFile{}
	VerifFiles[fileName] = w.f
	return nil
}
func (w *verifSeamWriter) Sync() error  { return nil }
func (w *verifSeamWriter) Flush() error { return nil }
func (w *verifSeamWriter) Size() int64  { return int64(len(w.f.Data)) }

// VerifInstallWriter routes every store builder of this package to an in-memory file
func VerifInstallWriter() {
	VerifFiles = map[string]*VerifFile{}
	newBufioWriterFunc = func(fileName string) (bufioutil.BufioWriter, error) {
		if VerifOnCreate != nil {
			VerifOnCreate(fileName)
		}
		f := &VerifFile{}
		VerifFiles[fileName] = f
		return &verifSeamWriter{f: f}, nil
	}
}

// VerifOpenReader opens the real table reader over an in-memory file
func VerifOpenReader(name string) (Reader, error) {
	r := &storeMMapReader{path: name, fileName: name, fullBlock: VerifFiles[name].Data, keys: roaring.New()}
	if err := r.initialize(); err != nil {
		return nil, err
	}
	return r, nil
}
