package kv

import (
	"fmt"

	"github.com/lindb/lindb/kv/table"
	"github.com/lindb/lindb/kv/version"
)

// C03 (kv level): the compaction job groups the values of equal keys from all input tables, hands
// each group to the family's merger exactly once, and whatever the merger writes ends up in output
// tables - also when the output is split over several files because it outgrows maxFileSize.
//
// Real: compactJob.{Run, mergeCompaction, doMerge, makeInputIterator, openCompactionOutputFile,
// finishCompactionOutputFile, installCompactionResults, cleanupCompaction}, compactFlusher,
// compactFlusherStreamWriter, table.mergedIterator, table.storeBuilder and its stream writer,
// table.storeMMapReader (inputs and outputs are real tables over in-memory files, seam
// table.newBufioWriterFunc). Stand-ins: the Family (table builders numbered 100, 101, ...; edit log
// recorded), the Snapshot (file number -> reader), and the merger, which - like
// metricsdata.NewMerger via metricsdata.NewFlusher - fetches the flusher's stream writer once when
// it is created and then writes every key through it (variant "add": uses Flusher.Add).

type verifC03Family struct {
	Family
	next    int
	merger  NewMerger
	commits []version.EditLog
}

func (f *verifC03Family) familyInfo() string { return "verif" }
func (f *verifC03Family) newTableBuilder() (table.Builder, error) {
	n := f.next
	f.next++
	return table.NewStoreBuilder(table.FileNumber(n), fmt.Sprintf("out-%d", n))
}
func (f *verifC03Family) getNewMerger() NewMerger { return f.merger }
func (f *verifC03Family) commitEditLog(e version.EditLog) bool {
	f.commits = append(f.commits, e)
	return true
}
func (f *verifC03Family) removePendingOutput(table.FileNumber) {}

type verifC03Snapshot struct {
	version.Snapshot
	readers map[table.FileNumber]table.Reader
}

func (s *verifC03Snapshot) GetReader(n table.FileNumber) (table.Reader, error) {
	r, ok := s.readers[n]
	if !ok {
		return nil, fmt.Errorf("no such file")
	}
	return r, nil
}

// the merged value of a key is the byte-wise xor of all its input values (they have equal length):
// independent of the order in which the merged iterator delivers equal keys
func verifC03Xor(values [][]byte) []byte {
	out := make([]byte, len(values[0]))
	for _, v := range values {
		for i := range out {
			out[i] ^= v[i]
		}
	}
	return out
}

type verifC03StreamMerger struct {
	sw     table.StreamWriter
	merged map[uint32]int
}

func (m *verifC03StreamMerger) Init(map[string]interface{}) {}
func (m *verifC03StreamMerger) Merge(key uint32, values [][]byte) error {
	m.merged[key]++
	m.sw.Prepare(key)
	if _, err := m.sw.Write(verifC03Xor(values)); err != nil {
		return err
	}
	return m.sw.Commit()
}

type verifC03AddMerger struct {
	f      Flusher
	merged map[uint32]int
}

func (m *verifC03AddMerger) Init(map[string]interface{}) {}
func (m *verifC03AddMerger) Merge(key uint32, values [][]byte) error {
	m.merged[key]++
	return m.f.Add(key, verifC03Xor(values))
}

var verifC03Keys = []uint32{1, 2, 65537}

type verifC03Input struct {
	num    table.FileNumber
	keys   []uint32
	values map[uint32][]byte
}

// verifC03BuildInput writes an input table with the real builder and opens it with the real reader
func verifC03BuildInput(in *verifC03Input) (table.Reader, *version.FileMeta) {
	name := fmt.Sprintf("in-%d", int(in.num))
	b, err := table.NewStoreBuilder(in.num, name)
	verifAssume(err == nil)
	for _, k := range in.keys {
		verifAssume(b.Add(k, in.values[k]) == nil)
	}
	verifAssume(b.Close() == nil)
	r, err := table.VerifOpenReader(name)
	verifAssume(err == nil)
	return r, version.NewFileMeta(in.num, b.MinKey(), b.MaxKey(), b.Size())
}

func verifC03Compaction(useStream bool, nLevel0 int, withLevel1 bool) {
	table.VerifInstallWriter()
	// value length of each key (equal in all files)
	lens := map[uint32]int{}
	nlen := 3
	if nLevel0 > 2 || withLevel1 {
		nlen = 2 // more inputs, fewer lengths: {1, 3}
	}
	for _, k := range verifC03Keys {
		lens[k] = 1 + verifChoose("len", nlen)*(4-nlen)
	}
	var inputs []*verifC03Input
	n := nLevel0
	if withLevel1 {
		n++
	}
	for i := 0; i < n; i++ {
		in := &verifC03Input{num: table.FileNumber(i + 1), values: map[uint32][]byte{}}
		sub := 1 + verifChoose("keys", 1<<uint(len(verifC03Keys))-1)
		for j, k := range verifC03Keys {
			if sub&(1<<uint(j)) != 0 {
				in.keys = append(in.keys, k)
				in.values[k] = verifSymBytes("val", lens[k])
			}
		}
		inputs = append(inputs, in)
	}
	snap := &verifC03Snapshot{readers: map[table.FileNumber]table.Reader{}}
	var level0, level1 []*version.FileMeta
	for i, in := range inputs {
		r, fm := verifC03BuildInput(in)
		snap.readers[in.num] = r
		if withLevel1 && i == len(inputs)-1 {
			level1 = append(level1, fm)
		} else {
			level0 = append(level0, fm)
		}
	}
	merged := map[uint32]int{}
	fam := &verifC03Family{next: 100}
	if useStream {
		fam.merger = func(f Flusher) (Merger, error) {
			sw, err := f.StreamWriter()
			if err != nil {
				return nil, err
			}
			return &verifC03StreamMerger{sw: sw, merged: merged}, nil
		}
	} else {
		fam.merger = func(f Flusher) (Merger, error) {
			return &verifC03AddMerger{f: f, merged: merged}, nil
		}
	}
	maxFileSize := uint32(verifRange("maxFileSize", 1, 12))
	state := newCompactionState(maxFileSize, snap, version.NewCompaction(version.FamilyID(1), 0, level0, level1))
	job := newCompactJob(fam, state, nil)
	err := job.Run()
	verifAssert(err == nil, "compaction job succeeds")
	if err != nil {
		return
	}
	// expected content: xor of all input values per key
	want := map[uint32][]byte{}
	for _, in := range inputs {
		for _, k := range in.keys {
			if w, ok := want[k]; ok {
				want[k] = verifC03Xor([][]byte{w, in.values[k]})
			} else {
				want[k] = in.values[k]
			}
		}
	}
	for k := range want {
		verifAssert(merged[k] == 1, "every key is merged exactly once")
	}
	verifAssert(len(fam.commits) == 1, "one edit log is committed")
	seen := map[uint32]int{}
	var prevMax uint32
	for i, out := range state.outputs {
		name := fmt.Sprintf("out-%d", int(out.GetFileNumber()))
		f := table.VerifFiles[name]
		verifAssert(f != nil && f.Closed, "an installed output file is complete")
		if f == nil {
			continue
		}
		verifAssert(!f.WriteAfterClose, "nothing is written to a finished output file")
		r, err := table.VerifOpenReader(name)
		verifAssert(err == nil, "an installed output file is a readable table")
		if err != nil {
			continue
		}
		it := r.Iterator()
		first := true
		var minKey, maxKey uint32
		for it.HasNext() {
			k := it.Key()
			seen[k]++
			w, ok := want[k]
			verifAssert(ok, "no key appears")
			if ok {
				v := it.Value()
				verifAssert(len(v) == len(w), "merged value has the merged length")
				if len(v) == len(w) {
					diff := byte(0)
					for j := range v {
						diff |= v[j] ^ w[j]
					}
					verifAssert(diff == 0, "merged value is what the merger wrote for the key")
				}
			}
			if first {
				minKey = k
				first = false
			}
			maxKey = k
		}
		verifAssert(!first, "no empty output file is installed")
		verifAssert(out.GetMinKey() == minKey && out.GetMaxKey() == maxKey, "file meta key range matches the table")
		if i > 0 {
			verifAssert(minKey > prevMax, "output files are disjoint and ascending")
		}
		prevMax = maxKey
	}
	for k := range want {
		verifAssert(seen[k] == 1, "every key is in exactly one output file")
	}
	for name, f := range table.VerifFiles {
		_ = name
		verifAssert(!f.WriteAfterClose, "nothing is written to a closed file")
	}
	verifReach("end")
}

func verifC03SplitStream()  { verifC03Compaction(true, 2, false) }
func verifC03SplitAdd()     { verifC03Compaction(false, 2, false) }
// three and four inputs: the merged iterator's heap has to re-order after an input is exhausted
func verifC03SplitStream3() { verifC03Compaction(true, 2, true) }
func verifC03SplitAdd4()    { verifC03Compaction(false, 3, true) }

// reachability twin: with a large maxFileSize everything lands in one file; claiming two files is wrong
func verifC03SplitReach() {
	table.VerifInstallWriter()
	in1 := &verifC03Input{num: 1, keys: []uint32{1, 2}, values: map[uint32][]byte{1: verifSymBytes("val", 1), 2: verifSymBytes("val", 2)}}
	in2 := &verifC03Input{num: 2, keys: []uint32{2}, values: map[uint32][]byte{2: verifSymBytes("val", 2)}}
	snap := &verifC03Snapshot{readers: map[table.FileNumber]table.Reader{}}
	r1, fm1 := verifC03BuildInput(in1)
	r2, fm2 := verifC03BuildInput(in2)
	snap.readers[1], snap.readers[2] = r1, r2
	fam := &verifC03Family{next: 100}
	fam.merger = func(f Flusher) (Merger, error) {
		return &verifC03AddMerger{f: f, merged: map[uint32]int{}}, nil
	}
	state := newCompactionState(1000, snap, version.NewCompaction(version.FamilyID(1), 0, []*version.FileMeta{fm1, fm2}, nil))
	verifAssume(newCompactJob(fam, state, nil).Run() == nil)
	verifAssert(len(state.outputs) == 2, "reach")
}
