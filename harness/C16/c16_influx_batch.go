package influx

import (
	"bytes"
	"io"
	"net/http"
	"net/url"

	"github.com/lindb/lindb/models"
	"github.com/lindb/lindb/series/metric"
)

// C16 (line protocol, whole requests): a request of two lines through the real Parse (chunk reader,
// parseInfluxLine, the real row builder of lindb/common, TryAppend). The first line is valid or is
// rejected at a moment when tags / fields of it were already handed to the row builder (a point
// whose only field is a string, a malformed timestamp); the second line is valid with symbolic tag
// value bytes. Every valid line is stored, a rejected line is rejected as a whole, and what is stored
// for the second line is byte-identical to what a request holding only that line stores.

func verifInfluxReq(body []byte) *http.Request {
	return &http.Request{
		Method: "POST",
		URL:    &url.URL{Path: "/write", RawQuery: "precision=ms"},
		Header: http.Header{},
		Body:   io.NopCloser(bytes.NewReader(body)),
	}
}

func verifInfluxRowBytes(row *metric.BrokerRow) []byte {
	var buf bytes.Buffer
	_, _ = row.WriteTo(&buf)
	return append([]byte{}, buf.Bytes()...)
}

func verifC16InfluxRequest() {
	limits := models.NewDefaultLimits()
	first := [][]byte{
		[]byte("cpu,host=a value=1 1700000000000\n"),      // valid
		[]byte("cpu,host=a msg=\"boot\" 1700000000000\n"), // rejected: no numeric field (tags already added)
		[]byte("cpu,host=a value=1 17000x0000000\n"),      // rejected: malformed timestamp (tags and fields added)
		[]byte("# a comment line\n"),                      // skipped
	}
	kind := verifChoose("firstLine", len(first))
	// the tag value's bytes: a case split per byte (the parser's positions depend on every byte)
	alphabet := []byte{'a', 'm', 'z', '9'}
	v := []byte{alphabet[verifChoose("tagValueByte", 4)], alphabet[verifChoose("tagValueByte", 4)]}
	second := append(append([]byte("mem,app="), v...), []byte(" used=12 1700000000001\n")...)
	batch, err := Parse(verifInfluxReq(append(append([]byte{}, first[kind]...), second...)), nil, "ns", limits)
	verifAssert(err == nil && batch != nil, "a well-formed request is parsed")
	if err != nil || batch == nil {
		return
	}
	want := 1
	if kind == 0 {
		want = 2
	}
	verifAssert(batch.Len() == want, "every valid line is stored and a rejected line is rejected as a whole")
	if batch.Len() != want {
		return
	}
	got := verifInfluxRowBytes(&batch.Rows()[want-1])
	batch.Release()
	alone, err := Parse(verifInfluxReq(second), nil, "ns", limits)
	verifAssert(err == nil && alone != nil && alone.Len() == 1, "the second line alone is accepted")
	if err == nil && alone != nil && alone.Len() == 1 {
		verifAssert(bytes.Equal(verifInfluxRowBytes(&alone.Rows()[0]), got), "what is stored for a line does not depend on the other lines of the request")
		m := alone.Rows()[0].Metric()
		verifAssert(bytes.Equal(m.Name(), []byte("mem")) && m.KeyValuesLength() == 1 && m.Timestamp() == 1700000000001, "the stored row has the name, tags and timestamp that were sent")
	}
	verifReach("end")
}

func verifC16InfluxRequestReach() {
	limits := models.NewDefaultLimits()
	v := []byte{[]byte{'a', 'q', 'z'}[verifChoose("tagValueByte", 3)]}
	line := append(append([]byte("mem,app="), v...), []byte(" used=12 1700000000001\n")...)
	batch, _ := Parse(verifInfluxReq(line), nil, "ns", limits)
	n := 0
	if batch != nil {
		n = batch.Len()
	}
	verifObserve("influx", v[0], n)
	verifAssert(v[0] != 'q', "reach")
}
