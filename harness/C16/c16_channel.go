package replica

import (
	"context"
	"time"

	"github.com/lindb/common/pkg/fasttime"
	"github.com/lindb/common/proto/gen/v1/flatMetricsV1"
	protoMetricsV1 "github.com/lindb/common/proto/gen/v1/linmetrics"

	"github.com/lindb/lindb/models"
	"github.com/lindb/lindb/pkg/option"
	"github.com/lindb/lindb/pkg/timeutil"
	"github.com/lindb/lindb/rpc"
	"github.com/lindb/lindb/series/metric"
)

// C16 (the write path of the broker as a whole): a batch of two rows goes through the real
// databaseChannel.Write - the write window taken from the database option (ahead / behind, also
// asymmetric), BrokerBatchRows.EvictOutOfTimeRange, the shard iterator, the family iterator - into
// stand-in shard / family channels that record what they are handed. Row timestamps are symbolic
// around the clock: a row is handed to exactly one family channel when it lies inside
// [now-behind, now+ahead] and to none otherwise, the shard is below the shard count, and the family
// it goes to contains its timestamp.

type verifChanWrite struct {
	shard      models.ShardID
	familyTime int64
	ts         int64
}

var verifChanWrites []verifChanWrite

type verifFamCh struct {
	FamilyChannel
	shard      models.ShardID
	familyTime int64
}

func (f *verifFamCh) Write(_ context.Context, rows []metric.BrokerRow) error {
	for i := range rows {
		if rows[i].Size() > 0 { // what the real family channel puts into its chunk
			m := rows[i].Metric()
			verifChanWrites = append(verifChanWrites, verifChanWrite{shard: f.shard, familyTime: f.familyTime, ts: m.Timestamp()})
		}
	}
	return nil
}

type verifShardCh struct {
	ShardChannel
	shard models.ShardID
}

func (s *verifShardCh) GetOrCreateFamilyChannel(familyTime int64) FamilyChannel {
	return &verifFamCh{shard: s.shard, familyTime: familyTime}
}

// engine: the flat-buffer accessors of a row's timestamp / tags hash are stubbed to the row's spec
type verifChanSpec struct {
	key  *byte
	ts   int64
	hash uint64
}

var verifChanSpecs []verifChanSpec

func verifChanSpecOf(m *flatMetricsV1.Metric) *verifChanSpec {
	p := &m.Table().Bytes[0]
	for i := range verifChanSpecs {
		if verifChanSpecs[i].key == p {
			return &verifChanSpecs[i]
		}
	}
	panic("row spec not found")
}

func verifStubChanTimestamp(m *flatMetricsV1.Metric) int64 { return verifChanSpecOf(m).ts }
func verifStubChanKvsHash(m *flatMetricsV1.Metric) uint64  { return verifChanSpecOf(m).hash }

var verifChanNow int64

func verifStubChanNow() int64 { return verifChanNow }

func verifChanAddRow(batch *metric.BrokerBatchRows, id int, ts int64, hash uint64) {
	_ = batch.TryAppend(func(row *metric.BrokerRow) error {
		if verifIsSymbolic() {
			// a size-prefixed block with an empty table: timestamp and tags hash come from the stubs
			row.FromBlock([]byte{12, 0, 0, 0, 4, 0, 0, 0, 0, 0, 0, 0, byte(id), 0, 0, 0})
		} else {
			conv := metric.NewProtoConverter(models.NewDefaultLimits())
			m := &protoMetricsV1.Metric{Name: "cpu", Timestamp: ts,
				Tags:         []*protoMetricsV1.KeyValue{{Key: "host", Value: string([]byte{'a' + byte(hash%20)})}},
				SimpleFields: []*protoMetricsV1.SimpleField{{Name: "f", Type: protoMetricsV1.SimpleFieldType_DELTA_SUM, Value: 1}}}
			if err := conv.ConvertTo(m, row); err != nil {
				return err
			}
		}
		mm := row.Metric()
		verifChanSpecs = append(verifChanSpecs, verifChanSpec{key: &mm.Table().Bytes[0], ts: ts, hash: hash})
		return nil
	})
}

func verifC16ChannelWrite() {
	time.Local = time.UTC
	verifChanWrites, verifChanSpecs = nil, nil
	windows := [][2]string{{"1h", "1d"}, {"1d", "1h"}, {"2h", "2h"}}
	w := windows[verifChoose("window(ahead,behind)", len(windows))]
	aheadMs := map[string]int64{"1h": 3600000, "2h": 7200000, "1d": 86400000}[w[0]]
	behindMs := map[string]int64{"1h": 3600000, "2h": 7200000, "1d": 86400000}[w[1]]
	createChannel = func(_ context.Context, _ string, shardID models.ShardID, _ rpc.ClientStreamFactory) ShardChannel {
		return &verifShardCh{shard: shardID}
	}
	cfg := models.Database{Name: "db", Option: &option.DatabaseOption{
		Intervals: option.Intervals{{Interval: timeutil.Interval(10000), Retention: timeutil.Interval(30 * 86400000)}},
		Ahead:     w[0], Behind: w[1]}}
	const shards = 2
	dc := newDatabaseChannel(context.Background(), cfg, shards, nil)
	for s := 0; s < shards; s++ {
		_, err := dc.CreateChannel(shards, models.ShardID(s))
		verifAssert(err == nil, "shard channel is created")
	}
	var now int64
	if verifIsSymbolic() {
		now = verifRange("now", 1709164800000, 1709424000000)
		verifChanNow = now
	} else {
		_ = verifRange("now", 1709164800000, 1709424000000)
		now = fasttime.UnixMilliseconds()
	}
	const n = 2
	batch := metric.NewBrokerBatchRows()
	ts := make([]int64, n)
	for i := 0; i < n; i++ {
		off := verifRange("offset", -2*86400000, 2*86400000)
		// the exact edges of the window are the subject of the eviction harness; natively the clock
		// moves between the harness and the code, so stay 10 s away from them here
		verifAssume(off < -behindMs-10000 || off > -behindMs+10000)
		verifAssume(off < aheadMs-10000 || off > aheadMs+10000)
		ts[i] = now + off
		verifChanAddRow(batch, i, ts[i], verifNondetUint64("tagsHash"))
	}
	err := dc.Write(context.Background(), batch)
	verifAssert(err == nil, "the batch is written")
	for i := 0; i < n; i++ {
		in := ts[i] >= now-behindMs && ts[i] <= now+aheadMs
		cnt := 0
		for _, wr := range verifChanWrites {
			if wr.ts == ts[i] {
				cnt++
				verifAssert(wr.shard >= 0 && int(wr.shard) < shards, "a row goes to a shard below the shard count")
				verifAssert(wr.familyTime <= ts[i] && ts[i] < wr.familyTime+3600000, "a row goes to the family whose range contains its timestamp")
			}
		}
		if ts[0] != ts[1] {
			if in {
				verifAssert(cnt == 1, "a row inside the write window is handed to exactly one family channel")
			} else {
				verifAssert(cnt == 0, "a row outside the write window is dropped")
			}
		}
	}
	verifReach("end")
}

func verifC16ChannelReach() {
	time.Local = time.UTC
	verifChanWrites, verifChanSpecs = nil, nil
	createChannel = func(_ context.Context, _ string, shardID models.ShardID, _ rpc.ClientStreamFactory) ShardChannel {
		return &verifShardCh{shard: shardID}
	}
	cfg := models.Database{Name: "db", Option: &option.DatabaseOption{
		Intervals: option.Intervals{{Interval: timeutil.Interval(10000), Retention: timeutil.Interval(30 * 86400000)}},
		Ahead:     "1h", Behind: "1h"}}
	dc := newDatabaseChannel(context.Background(), cfg, 1, nil)
	_, _ = dc.CreateChannel(1, 0)
	var now int64
	if verifIsSymbolic() {
		now = verifRange("now", 1709164800000, 1709424000000)
		verifChanNow = now
	} else {
		_ = verifRange("now", 1709164800000, 1709424000000)
		now = fasttime.UnixMilliseconds()
	}
	off := verifRange("offset", -1800000, 1800000)
	batch := metric.NewBrokerBatchRows()
	verifChanAddRow(batch, 0, now+off, 7)
	_ = dc.Write(context.Background(), batch)
	verifObserve("written", len(verifChanWrites))
	verifAssert(len(verifChanWrites) != 1, "reach")
}
