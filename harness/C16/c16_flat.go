package flat

import (
	"bytes"

	"github.com/lindb/common/proto/gen/v1/flatMetricsV1"
	commonseries "github.com/lindb/common/series"

	"github.com/lindb/lindb/models"
	"github.com/lindb/lindb/series/metric"
)

// C16 (flat protocol): a request of two or three rows goes through the real parseFlatMetric
// (BrokerRowFlatDecoder.HasNext / DecodeTo / rebuild, the real flat-buffer accessors, the real row
// builder of lindb/common, BrokerBatchRows.TryAppend). Tag values are arbitrary bytes; a row may be
// invalid (a tag value, the field name or the metric name longer than the limit). An invalid row is
// rejected as a whole, every valid row is accepted, and what is stored for a valid row - name,
// namespace, timestamp, sorted tags, fields, tags hash - is exactly what a request holding only that
// row stores: it does not depend on the other rows of the batch, rejected or not, nor on what the
// pooled decoder handled before.

type verifFlatRow struct {
	name      []byte
	tagKeys   [][]byte
	tagVals   [][]byte
	field     []byte
	value     float64
	ts        int64
	invalid   bool
	namespace []byte
}

func verifFlatEncode(r verifFlatRow) []byte {
	rb := commonseries.CreateRowBuilder()
	rb.AddMetricName(r.name)
	if len(r.namespace) > 0 {
		rb.AddNameSpace(r.namespace)
	}
	for i := range r.tagKeys {
		verifAssume(rb.AddTag(r.tagKeys[i], r.tagVals[i]) == nil)
	}
	verifAssume(rb.AddSimpleField(r.field, flatMetricsV1.SimpleFieldTypeDeltaSum, r.value) == nil)
	rb.AddTimestamp(r.ts)
	data, err := rb.Build()
	verifAssume(err == nil)
	return append([]byte{}, data...)
}

func verifFlatLimits() *models.Limits {
	l := models.NewDefaultLimits()
	l.MaxTagValueLength = 3
	l.MaxFieldNameLength = 3
	l.MaxMetricNameLength = 3
	return l
}

// the way a row can be made: valid, or invalid in one of three places (which are checked at
// different moments of the rebuild: after earlier tags were added, after all tags, after the fields)
func verifFlatMake(tag string, idx int) verifFlatRow {
	r := verifFlatRow{
		name:      []byte{'m', byte('0' + idx)},
		tagKeys:   [][]byte{[]byte("host"), {'k', byte('0' + idx)}},
		tagVals:   [][]byte{verifSymBytes(tag+".host", 2), verifSymBytes(tag+".v", 1)},
		field:     []byte{'f', byte('0' + idx)},
		value:     float64(idx + 1),
		ts:        1700000000000 + int64(idx),
		namespace: []byte{'n', byte('0' + idx)},
	}
	switch verifChoose(tag+".kind", 4) {
	case 1:
		r.tagVals[1] = []byte("toolong")
		r.invalid = true
	case 2:
		r.field = []byte("toolong")
		r.invalid = true
	case 3:
		r.name = []byte("toolong")
		r.invalid = true
	}
	return r
}

func verifFlatParse(blocks ...[]byte) *metric.BrokerBatchRows {
	var req []byte
	for _, b := range blocks {
		req = append(req, b...)
	}
	batch, err := parseFlatMetric(bytes.NewReader(req), nil, "ns", verifFlatLimits())
	verifAssert(err == nil, "a well-formed request is parsed")
	return batch
}

func verifFlatBytes(row *metric.BrokerRow) []byte {
	var buf bytes.Buffer
	_, _ = row.WriteTo(&buf)
	return buf.Bytes()
}

func verifFlatCheckRow(row *metric.BrokerRow, want verifFlatRow) {
	m := row.Metric()
	verifAssert(bytes.Equal(m.Name(), want.name), "stored metric name is the one sent")
	verifAssert(bytes.Equal(m.Namespace(), want.namespace), "stored namespace is the one sent")
	verifAssert(m.Timestamp() == want.ts, "stored timestamp is the one sent")
	verifAssert(m.KeyValuesLength() == len(want.tagKeys), "stored tags are the ones sent (count)")
	if m.KeyValuesLength() != len(want.tagKeys) {
		return
	}
	var kv flatMetricsV1.KeyValue
	for i := 0; i < m.KeyValuesLength(); i++ {
		m.KeyValues(&kv, i)
		// keys of the harness are already in ascending order
		verifAssert(bytes.Equal(kv.Key(), want.tagKeys[i]), "stored tag key is the one sent")
		verifAssert(bytes.Equal(kv.Value(), want.tagVals[i]), "stored tag value is the one sent")
	}
	verifAssert(m.SimpleFieldsLength() == 1, "stored fields are the ones sent (count)")
	if m.SimpleFieldsLength() == 1 {
		var f flatMetricsV1.SimpleField
		m.SimpleFields(&f, 0)
		verifAssert(bytes.Equal(f.Name(), want.field), "stored field name is the one sent")
		verifAssert(f.Value() == want.value, "stored field value is the one sent")
	}
}

func verifC16FlatBatch() {
	n := 2
	if verifThorough() {
		n = 3
	}
	rows := make([]verifFlatRow, n)
	blocks := make([][]byte, n)
	for i := range rows {
		rows[i] = verifFlatMake("row", i)
		blocks[i] = verifFlatEncode(rows[i])
	}
	batch := verifFlatParse(blocks...)
	valid := 0
	for i := range rows {
		if !rows[i].invalid {
			valid++
		}
	}
	verifAssert(batch.Len() == valid, "every valid row is accepted and every invalid row is rejected as a whole")
	if batch.Len() != valid {
		return
	}
	got := make([][]byte, 0, valid)
	k := 0
	for i := range rows {
		if rows[i].invalid {
			continue
		}
		verifFlatCheckRow(&batch.Rows()[k], rows[i])
		got = append(got, append([]byte{}, verifFlatBytes(&batch.Rows()[k])...))
		k++
	}
	batch.Release()
	// a request that holds only that row stores the same bytes (tags hash, name hash and all)
	k = 0
	for i := range rows {
		if rows[i].invalid {
			continue
		}
		alone := verifFlatParse(blocks[i])
		verifAssert(alone.Len() == 1, "a valid row alone is accepted")
		if alone.Len() == 1 {
			verifAssert(bytes.Equal(verifFlatBytes(&alone.Rows()[0]), got[k]), "what is stored for a row does not depend on the other rows of the batch")
		}
		alone.Release()
		k++
	}
	verifReach("end")
}

func verifC16FlatReach() {
	r := verifFlatMake("row", 0)
	b := verifFlatEncode(r)
	batch := verifFlatParse(b)
	l := batch.Len()
	var h uint64
	if l == 1 {
		m := batch.Rows()[0].Metric()
		h = m.KvsHash()
	}
	_ = h // (xxhash is an uninterpreted function in the engine: not comparable with the native value)
	verifObserve("flat", r.invalid, len(b), l, r.tagVals[0][0])
	verifAssert(l != 1, "reach")
}
