package influx

import (
	"github.com/lindb/common/proto/gen/v1/flatMetricsV1"
	commonseries "github.com/lindb/common/series"

	"github.com/lindb/lindb/models"
)

// C16 (line protocol): a point with a metric name, one or two tags and one field whose name, tag
// keys and tag values are arbitrary bytes - including the protocol's special characters ',', ' '
// and '=', sent escaped with a backslash as the protocol demands - goes through the real
// parseInfluxLine: it never panics, and if the line is accepted the row builder receives exactly
// the name, the tags and the field (as <key>_sum / <key>_last) that were sent, with the timestamp.
// Such a line is always accepted (a field key of blanks only is rejected by design and excluded).
//
// The row builder (lindb/common, outside the repository) is replaced by a recorder of what the
// parser hands to it (stubs in the manifest). The varying bytes are, by a case split per byte, one of the special characters, a lower-case
// letter or a byte >= 0x80; a literal backslash (which has no agreed meaning in front of a special
// character), control characters and '"' are outside the bound.

type verifInfluxRec struct {
	namespace, name  []byte
	tagKeys, tagVals [][]byte
	fieldNames       [][]byte
	fieldTypes       []flatMetricsV1.SimpleFieldType
	fieldValues      []float64
	ts               int64
	hasTS            bool
}

var verifRec *verifInfluxRec

func verifCopy(b []byte) []byte { return append([]byte{}, b...) }

func verifStubAddNameSpace(_ *commonseries.RowBuilder, ns []byte) { verifRec.namespace = verifCopy(ns) }
func verifStubAddMetricName(_ *commonseries.RowBuilder, n []byte) { verifRec.name = verifCopy(n) }
func verifStubAddTag(_ *commonseries.RowBuilder, k, v []byte) error {
	verifRec.tagKeys = append(verifRec.tagKeys, verifCopy(k))
	verifRec.tagVals = append(verifRec.tagVals, verifCopy(v))
	return nil
}
func verifStubAddSimpleField(_ *commonseries.RowBuilder, name []byte, t flatMetricsV1.SimpleFieldType, v float64) error {
	verifRec.fieldNames = append(verifRec.fieldNames, verifCopy(name))
	verifRec.fieldTypes = append(verifRec.fieldTypes, t)
	verifRec.fieldValues = append(verifRec.fieldValues, v)
	return nil
}
func verifStubAddTimestamp(_ *commonseries.RowBuilder, ts int64) {
	verifRec.ts, verifRec.hasTS = ts, true
}

// a symbolic string appended to line with the protocol's special characters escaped. vary: 1 to
// maxLen bytes, each by a case split one of ',' ' ' '=' (special outside the metric name), a
// lower-case letter, or a byte >= 0x80 (the bytes of multi-byte characters); otherwise one
// lower-case letter.
func verifEscapedInto(line []byte, tag string, vary bool, maxLen int, inName bool) ([]byte, []byte) {
	n := 1
	if vary {
		n = 1 + verifChoose(tag+".len", maxLen)
	}
	s := verifSymBytes(tag, n)
	for i, c := range s {
		class := 0
		if vary {
			class = verifChoose(tag+".class", 5)
		}
		switch class {
		case 0:
			verifAssume(c >= 'a' && c <= 'z')
		case 1:
			s[i] = ','
		case 2:
			s[i] = ' '
		case 3:
			s[i] = '='
		default:
			verifAssume(c >= 0x80)
		}
		c = s[i]
		if class == 1 || class == 2 || (class == 3 && !inName) {
			line = append(line, '\\')
		}
		line = append(line, c)
	}
	return line, s
}

func verifSame(a, b []byte) bool {
	if len(a) != len(b) {
		return false
	}
	d := byte(0)
	for i := range a {
		d |= a[i] ^ b[i]
	}
	return d == 0
}

// which: bit set of the components that vary (1 name, 2 tag key, 4 tag value, 8 field key, 16 second tag's key, 32 its value)
func verifInfluxLine(which, maxLen, nTags int) {
	var line, name, fk []byte
	var tk, tv [][]byte
	line, name = verifEscapedInto(line, "name", which&1 != 0, maxLen, true)
	for i := 0; i < nTags; i++ {
		var k, v []byte
		line = append(line, ',')
		line, k = verifEscapedInto(line, "tagKey", which&(2<<uint(3*i)) != 0 && (i == 0 || which&16 != 0), maxLen, false)
		line = append(line, '=')
		line, v = verifEscapedInto(line, "tagValue", which&(4<<uint(3*i)) != 0 && (i == 0 || which&32 != 0), maxLen, false)
		tk, tv = append(tk, k), append(tv, v)
	}
	if nTags == 2 {
		verifAssume(!verifSame(tk[0], tk[1]))
	}
	line = append(line, ' ')
	line, fk = verifEscapedInto(line, "fieldKey", which&8 != 0, maxLen, false)
	// a field key that is blank after trimming is rejected by design
	// (bytes >= 0x80 can form Unicode white space - U+0085, U+00A0 - which the trimming removes too)
	blank := byte(1)
	for _, c := range fk {
		if c != ' ' && c < 0x80 {
			blank = 0
		}
	}
	if blank == 1 {
		return
	}
	// a key that ends in sum / last / first keeps its name and gets one field: not the case asserted below
	if len(fk) == 3 && fk[0] == 's' && fk[1] == 'u' && fk[2] == 'm' {
		return
	}
	line = append(line, []byte("=42 1465839830100")...)

	verifRec = &verifInfluxRec{}
	err := parseInfluxLine(commonseries.CreateRowBuilder(), line, "ns", 1, models.NewDefaultLimits())
	verifAssert(err == nil, "a well-formed line is accepted")
	if err != nil {
		return
	}
	r := verifRec
	verifAssert(verifSame(r.name, name), "the metric name is stored as sent")
	verifAssert(len(r.tagKeys) == nTags, "every tag is stored, once")
	for i := range r.tagKeys {
		found := false
		for j := 0; j < nTags; j++ {
			if verifSame(r.tagKeys[i], tk[j]) && verifSame(r.tagVals[i], tv[j]) {
				found = true
			}
		}
		verifAssert(found, "a stored tag is one of the tags that were sent, key and value")
	}
	verifAssert(len(r.fieldNames) == 2, "a numeric field of an unsuffixed name is stored as sum and last")
	if len(r.fieldNames) == 2 {
		verifAssert(verifSame(r.fieldNames[0], append(verifCopy(fk), []byte("_sum")...)) && verifSame(r.fieldNames[1], append(verifCopy(fk), []byte("_last")...)), "the field name is stored as sent")
		verifAssert(r.fieldValues[0] == 42 && r.fieldValues[1] == 42, "the field value is stored as sent")
	}
	verifAssert(r.hasTS && r.ts == 1465839830100, "the timestamp is stored as sent")
	verifReach("end")
}

// quick: one component at a time varies (up to 3 bytes), the others are one letter
func verifC16InfluxLine() {
	verifInfluxLine(1<<uint(verifChoose("component", 4)), 3, 1)
}

// thorough: two components vary together (up to 2 bytes each); two tags
func verifC16InfluxPairs() {
	pairs := []int{1 | 2, 1 | 4, 1 | 8, 2 | 4, 2 | 8, 4 | 8}
	verifInfluxLine(pairs[verifChoose("components", len(pairs))], 2, 1)
}
func verifC16InfluxTwoTags() {
	sets := []int{2 | 16, 4 | 32, 4 | 16, 2 | 32}
	verifInfluxLine(sets[verifChoose("components", len(sets))], 2, 2)
}

func verifC16InfluxReach() {
	name := verifSymBytes("name", 2)
	verifAssume(name[0] != '#' && name[0] != '\\' && name[1] != '\\')
	line := append(verifCopy(name), []byte(",a=b f=1 1465839830100")...)
	verifRec = &verifInfluxRec{}
	err := parseInfluxLine(commonseries.CreateRowBuilder(), line, "ns", 1, models.NewDefaultLimits())
	verifAssert(err != nil, "reach")
}
