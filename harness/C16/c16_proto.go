package metric

import (
	"bytes"
	"math"

	"github.com/lindb/common/proto/gen/v1/flatMetricsV1"
	protoMetricsV1 "github.com/lindb/common/proto/gen/v1/linmetrics"

	"github.com/lindb/lindb/models"
	"github.com/lindb/lindb/series/tag"
)

// C16 (protobuf form, whole conversion): a metric with two tags (symbolic key and value bytes, in
// either order, possibly the same key twice), one or two simple fields of every type with arbitrary
// float64 bit patterns (compared numerically: the flat buffer stores -0 as the default 0), optionally a histogram, an optional enriched tag and an optional enriched
// namespace goes through the real BrokerRowProtoConverter (validateMetric, deDupTags, the flat-buffer
// builder, tag.XXHashOfKeyValues) - on a converter that is fresh or has converted / rejected another
// metric before (the pool hands converters on). What is read back from the stored row (the broker
// row and the storage row unmarshalled from its bytes) is what was sent: name, namespace, timestamp,
// sorted tags with one value per key, field names / types / values, histogram buckets; NaN / Inf
// values reject the metric as a whole; the bytes do not depend on the order of distinct tags nor on
// what the converter handled before.

type verifProtoSpec struct {
	keys, vals  [2]byte
	order       int // 0: as is, 1: swapped
	nFields     int
	types       [2]protoMetricsV1.SimpleFieldType
	values      [2]float64
	histogram   bool
	hv          [3]float64
	ts          int64
	enrichedTag bool
	enrichedNS  bool
}

func verifProtoMetric(s *verifProtoSpec) *protoMetricsV1.Metric {
	m := &protoMetricsV1.Metric{Name: "cpu", Namespace: "ns", Timestamp: s.ts}
	idx := [2]int{0, 1}
	if s.order == 1 {
		idx = [2]int{1, 0}
	}
	for _, i := range idx {
		m.Tags = append(m.Tags, &protoMetricsV1.KeyValue{Key: string([]byte{s.keys[i]}), Value: string([]byte{'v', s.vals[i]})})
	}
	names := [2]string{"f1", "f2"}
	for i := 0; i < s.nFields; i++ {
		m.SimpleFields = append(m.SimpleFields, &protoMetricsV1.SimpleField{Name: names[i], Type: s.types[i], Value: s.values[i]})
	}
	if s.histogram {
		m.CompoundField = &protoMetricsV1.CompoundField{
			Min: s.hv[0], Max: s.hv[1], Sum: s.hv[2], Count: 3,
			Values:         []float64{s.hv[0], s.hv[1], s.hv[2]},
			ExplicitBounds: []float64{1, 2, math.Inf(1)},
		}
	}
	return m
}

func verifProtoConverter(s *verifProtoSpec) *BrokerRowProtoConverter {
	rc := NewProtoConverter(models.NewDefaultLimits())
	verifProtoEnrich(rc, s)
	return rc
}

func verifProtoEnrich(rc *BrokerRowProtoConverter, s *verifProtoSpec) {
	rc.Reset()
	if s.enrichedTag {
		rc.enrichedTags = tag.Tags{tag.NewTag([]byte("e"), []byte("1"))}
	}
	if s.enrichedNS {
		rc.namespace = []byte("ens")
	}
}

func verifFlatType(t protoMetricsV1.SimpleFieldType) flatMetricsV1.SimpleFieldType {
	switch t {
	case protoMetricsV1.SimpleFieldType_DELTA_SUM:
		return flatMetricsV1.SimpleFieldTypeDeltaSum
	case protoMetricsV1.SimpleFieldType_LAST:
		return flatMetricsV1.SimpleFieldTypeLast
	case protoMetricsV1.SimpleFieldType_Max:
		return flatMetricsV1.SimpleFieldTypeMax
	case protoMetricsV1.SimpleFieldType_Min:
		return flatMetricsV1.SimpleFieldTypeMin
	case protoMetricsV1.SimpleFieldType_FIRST:
		return flatMetricsV1.SimpleFieldTypeFirst
	}
	return flatMetricsV1.SimpleFieldTypeUnSpecified
}

var verifProtoTypes = []protoMetricsV1.SimpleFieldType{
	protoMetricsV1.SimpleFieldType_DELTA_SUM, protoMetricsV1.SimpleFieldType_LAST, protoMetricsV1.SimpleFieldType_Max,
	protoMetricsV1.SimpleFieldType_Min, protoMetricsV1.SimpleFieldType_FIRST,
}

type verifProtoShape struct {
	nFields                            int
	types                              [2]protoMetricsV1.SimpleFieldType
	histogram, enrichedTag, enrichedNS bool
}

var verifProtoShapes = []verifProtoShape{
	{1, [2]protoMetricsV1.SimpleFieldType{protoMetricsV1.SimpleFieldType_DELTA_SUM}, false, false, false},
	{2, [2]protoMetricsV1.SimpleFieldType{protoMetricsV1.SimpleFieldType_LAST, protoMetricsV1.SimpleFieldType_Max}, true, true, false},
	{2, [2]protoMetricsV1.SimpleFieldType{protoMetricsV1.SimpleFieldType_Min, protoMetricsV1.SimpleFieldType_FIRST}, false, false, true},
	{1, [2]protoMetricsV1.SimpleFieldType{protoMetricsV1.SimpleFieldType_Max}, true, true, true},
}

var verifProtoShapeIdx int

func verifProtoSymSpec() *verifProtoSpec {
	s := &verifProtoSpec{}
	s.keys = [2]byte{verifNondetByte("key"), verifNondetByte("key")}
	s.vals = [2]byte{verifNondetByte("val"), verifNondetByte("val")}
	// keys other than the enriched tag's key (that case is a choice of its own below)
	verifAssume(s.keys[0] != 'e' && s.keys[1] != 'e')
	// the order in which the two tags are sent is a choice of its own
	verifAssume(s.keys[0] <= s.keys[1])
	s.order = verifChoose("order", 2)
	// shapes: number of fields and their types, histogram or not, enriched tag / namespace or not
	// (every field type occurs in first and in second position, each with and without a histogram)
	verifProtoShapeIdx = verifChoose("shape", len(verifProtoShapes))
	sh := verifProtoShapes[verifProtoShapeIdx]
	s.nFields = sh.nFields
	for i := 0; i < s.nFields; i++ {
		s.types[i] = sh.types[i]
		s.values[i] = 2.5
	}
	// the first field's value is an arbitrary bit pattern (the second one is fixed: every further
	// symbolic value multiplies the paths by the six ways a value is classified - NaN, Inf, zero)
	s.values[0] = math.Float64frombits(verifNondetUint64("value"))
	s.histogram = sh.histogram
	if s.histogram {
		for i := range s.hv {
			s.hv[i] = float64(3 + 2*i) // concrete: int->float conversions of symbolic counts are slow FP queries
		}
	}
	s.ts = verifRange("ts", 1, 1<<41)
	s.enrichedTag = sh.enrichedTag
	s.enrichedNS = sh.enrichedNS
	return s
}

// what must be stored for a spec: checked on the flat metric of a row
func verifProtoCheckStored(m *flatMetricsV1.Metric, s *verifProtoSpec) {
	verifAssert(bytes.Equal(m.Name(), []byte("cpu")), "stored metric name is the one sent")
	if s.enrichedNS {
		verifAssert(bytes.Equal(m.Namespace(), []byte("ens")), "stored namespace is the enriched one")
	} else {
		verifAssert(bytes.Equal(m.Namespace(), []byte("ns")), "stored namespace is the one sent")
	}
	verifAssert(m.Timestamp() == s.ts, "stored timestamp is the one sent")
	// tags: strictly ascending keys, each one of the sent pairs, every sent key present
	want := 2
	if s.keys[0] == s.keys[1] {
		want = 1
	}
	if s.enrichedTag {
		want++
	}
	n := m.KeyValuesLength()
	verifAssert(n == want, "stored tags: one entry per distinct key sent (plus the enriched tag)")
	var kv, prev flatMetricsV1.KeyValue
	seen := [2]bool{}
	seenE := false
	var stored tag.KeyValues
	for i := 0; i < n; i++ {
		m.KeyValues(&kv, i)
		if i > 0 {
			m.KeyValues(&prev, i-1)
			verifAssert(bytes.Compare(prev.Key(), kv.Key()) < 0, "stored tags are sorted by key, one entry per key")
		}
		k, v := kv.Key(), kv.Value()
		stored = append(stored, &protoMetricsV1.KeyValue{Key: string(k), Value: string(v)})
		ok := false
		for j := 0; j < 2; j++ {
			if len(k) == 1 && k[0] == s.keys[j] {
				seen[j] = true
				if len(v) == 2 && v[0] == 'v' && v[1] == s.vals[j] {
					ok = true
				}
			}
		}
		if s.enrichedTag && bytes.Equal(k, []byte("e")) && bytes.Equal(v, []byte("1")) {
			ok = true
			seenE = true
		}
		verifAssert(ok, "every stored tag is one of the tags that were sent")
	}
	if n == want {
		verifAssert(seen[0] && seen[1], "every sent tag key is stored")
		verifAssert(seenE == s.enrichedTag, "the enriched tag is stored")
		verifAssert(m.KvsHash() == tag.XXHashOfKeyValues(stored), "the stored tags hash is the hash of the stored tags")
	}
	verifAssert(m.SimpleFieldsLength() == s.nFields, "stored fields are the ones sent (count)")
	names := [2]string{"f1", "f2"}
	var f flatMetricsV1.SimpleField
	for i := 0; i < s.nFields && i < m.SimpleFieldsLength(); i++ {
		m.SimpleFields(&f, i)
		verifAssert(bytes.Equal(f.Name(), []byte(names[i])), "stored field name is the one sent")
		verifAssert(f.Type() == verifFlatType(s.types[i]), "stored field type is the one sent")
		verifAssert(f.Value() == s.values[i], "stored field value is the one sent")
	}
	var cf flatMetricsV1.CompoundField
	has := m.CompoundField(&cf) != nil
	verifAssert(has == s.histogram, "a histogram is stored exactly when one was sent")
	if has && s.histogram {
		verifAssert(cf.Min() == s.hv[0] && cf.Max() == s.hv[1] && cf.Sum() == s.hv[2] && cf.Count() == 3, "stored histogram summary is the one sent")
		verifAssert(cf.ValuesLength() == 3 && cf.ExplicitBoundsLength() == 3, "stored histogram has the buckets sent (count)")
		if cf.ValuesLength() == 3 && cf.ExplicitBoundsLength() == 3 {
			for i := 0; i < 3; i++ {
				verifAssert(cf.Values(i) == s.hv[i], "stored histogram bucket value is the one sent")
			}
			verifAssert(cf.ExplicitBounds(0) == 1 && cf.ExplicitBounds(1) == 2 && math.IsInf(cf.ExplicitBounds(2), 1), "stored histogram bounds are the ones sent")
		}
	}
}

func verifProtoBad(v float64) bool { return math.IsNaN(v) || math.IsInf(v, 0) }

func verifC16Proto() {
	s := verifProtoSymSpec()
	rc := verifProtoConverter(s)
	history := verifProtoShapeIdx % 3 // 0 fresh, 1 converted another metric before, 2 rejected another metric before (tied to the shape)
	if history > 0 {
		other := &protoMetricsV1.Metric{Name: "other", Namespace: "o", Timestamp: 7,
			Tags:         []*protoMetricsV1.KeyValue{{Key: "zone", Value: "z1"}, {Key: "host", Value: "h1"}, {Key: "az", Value: "a"}},
			SimpleFields: []*protoMetricsV1.SimpleField{{Name: "g1", Type: protoMetricsV1.SimpleFieldType_LAST, Value: 3}, {Name: "g2", Type: protoMetricsV1.SimpleFieldType_Max, Value: 4}, {Name: "g3", Type: protoMetricsV1.SimpleFieldType_Min, Value: 5}},
		}
		if history == 2 {
			other.SimpleFields[2].Value = math.NaN()
		}
		var r0 BrokerRow
		err0 := rc.ConvertTo(other, &r0)
		verifAssert((err0 != nil) == (history == 2), "a metric with a NaN field is rejected, a valid one accepted")
	}
	var row BrokerRow
	err := rc.ConvertTo(verifProtoMetric(s), &row)
	bad := false
	for i := 0; i < s.nFields; i++ {
		if verifProtoBad(s.values[i]) {
			bad = true
		}
	}
	if bad {
		verifAssert(err != nil, "a metric with a NaN / Inf field value is rejected as a whole")
		verifReach("rejected")
		return
	}
	verifAssert(err == nil, "a valid metric is accepted")
	if err != nil {
		return
	}
	verifProtoCheckStored(&row.m, s)
	// the storage side reads the same row from the bytes that travel
	var buf bytes.Buffer
	_, _ = row.WriteTo(&buf)
	sent := append([]byte{}, buf.Bytes()...)
	batch := NewStorageBatchRows()
	batch.UnmarshalRows(sent)
	verifAssert(batch.Len() == 1, "one row travels")
	if batch.Len() == 1 {
		sr := batch.Rows()[0]
		verifProtoCheckStored(&sr.m, s)
		verifAssert(sr.TagsHash() == row.m.KvsHash() && sr.NameHash() == row.m.NameHash(), "series identity is the same on the storage side")
	}
	verifReach("end")
}

// the order in which distinct tags are sent does not matter: same bytes, same series hash - also
// when the second conversion runs on the converter that did the first
func verifC16ProtoOrder() {
	s := &verifProtoSpec{keys: [2]byte{verifNondetByte("key"), verifNondetByte("key")}, vals: [2]byte{verifNondetByte("val"), verifNondetByte("val")}, nFields: 1, ts: verifRange("ts", 1, 1<<41)}
	verifAssume(s.keys[0] != s.keys[1] && s.keys[0] != 'e' && s.keys[1] != 'e')
	s.types[0] = protoMetricsV1.SimpleFieldType_DELTA_SUM
	s.values[0] = 1.5
	s.enrichedTag = verifChoose("enrichedTag", 2) == 1
	rc := verifProtoConverter(s)
	var row, row2 BrokerRow
	err := rc.ConvertTo(verifProtoMetric(s), &row)
	verifAssert(err == nil, "a valid metric is accepted")
	s2 := *s
	s2.order = 1
	rc2 := rc
	if verifChoose("sameConverter", 2) == 0 {
		rc2 = verifProtoConverter(&s2)
	}
	err2 := rc2.ConvertTo(verifProtoMetric(&s2), &row2)
	verifAssert(err2 == nil, "a valid metric is accepted (other tag order)")
	if err == nil && err2 == nil {
		var b1, b2 bytes.Buffer
		_, _ = row.WriteTo(&b1)
		_, _ = row2.WriteTo(&b2)
		verifAssert(bytes.Equal(b1.Bytes(), b2.Bytes()), "the stored row does not depend on tag order nor on what the converter handled before")
		verifAssert(row.m.KvsHash() == row2.m.KvsHash(), "series hash does not depend on tag order")
	}
	verifReach("end")
}

// the enriched tag's key is also sent by the client: one value per key survives
func verifC16ProtoEnrichedClash() {
	s := &verifProtoSpec{keys: [2]byte{'e', verifNondetByte("key")}, vals: [2]byte{verifNondetByte("val"), verifNondetByte("val")}, nFields: 1, ts: 5, enrichedTag: true}
	s.order = verifChoose("order", 2)
	s.types[0] = protoMetricsV1.SimpleFieldType_DELTA_SUM
	s.values[0] = 1
	var row BrokerRow
	err := verifProtoConverter(s).ConvertTo(verifProtoMetric(s), &row)
	verifAssert(err == nil, "a valid metric is accepted")
	if err != nil {
		return
	}
	m := &row.m
	var kv, prev flatMetricsV1.KeyValue
	for i := 0; i < m.KeyValuesLength(); i++ {
		m.KeyValues(&kv, i)
		if i > 0 {
			m.KeyValues(&prev, i-1)
			verifAssert(bytes.Compare(prev.Key(), kv.Key()) < 0, "stored tags are sorted by key, one entry per key")
		}
		if bytes.Equal(kv.Key(), []byte("e")) {
			v := kv.Value()
			verifAssert(bytes.Equal(v, []byte("1")) || (len(v) == 2 && v[0] == 'v' && (v[1] == s.vals[0] || (s.keys[1] == 'e' && v[1] == s.vals[1]))), "a repeated key is resolved to one of the values sent for it")
		}
	}
	verifReach("end")
}

func verifC16ProtoReach() {
	s := &verifProtoSpec{keys: [2]byte{'a', 'b'}, vals: [2]byte{verifNondetByte("val"), 'y'}, nFields: 1, ts: verifRange("ts", 1, 1<<41)}
	s.types[0] = protoMetricsV1.SimpleFieldType_Max
	s.values[0] = 2.5
	var row BrokerRow
	err := verifProtoConverter(s).ConvertTo(verifProtoMetric(s), &row)
	verifAssume(err == nil)
	var kv flatMetricsV1.KeyValue
	row.m.KeyValues(&kv, 0)
	verifObserve("stored", row.m.Timestamp(), kv.Value()[1], row.m.KeyValuesLength())
	verifAssert(kv.Value()[1] != s.vals[0], "reach")
}

// an invalid histogram rejects the metric as a whole, whichever component is not a number the
// storage can aggregate: NaN or a negative number in min / max / sum / count, in a bucket count or
// in a bucket bound, an infinite bucket count (the flat form's row builder rejects the same); the
// converter converts the next, valid metric as a fresh one does.
func verifC16ProtoHistogramInvalid() {
	s := &verifProtoSpec{keys: [2]byte{'k', 'l'}, vals: [2]byte{verifNondetByte("val"), verifNondetByte("val")}, nFields: 1, ts: verifRange("ts", 1, 1<<41), histogram: true}
	s.types[0] = protoMetricsV1.SimpleFieldType_DELTA_SUM
	s.values[0] = 1
	s.hv = [3]float64{3, 5, 7}
	m := verifProtoMetric(s)
	bad := []float64{math.NaN(), -1, math.Inf(1)}[verifChoose("badValue", 3)]
	where := verifChoose("component", 7)
	switch where {
	case 0:
		m.CompoundField.Min = bad
	case 1:
		m.CompoundField.Max = bad
	case 2:
		m.CompoundField.Sum = bad
	case 3:
		m.CompoundField.Count = bad
	case 4:
		m.CompoundField.Values[0] = bad
	case 5:
		m.CompoundField.Values[2] = bad
	case 6:
		m.CompoundField.ExplicitBounds[0] = bad
	}
	// +Inf is a legitimate maximum / sum / count of a histogram only in theory; what both forms agree
	// on is asserted: infinite bucket counts are rejected, infinite summary values are left alone
	if math.IsInf(bad, 1) {
		verifAssume(where == 4 || where == 5)
	}
	rc := verifProtoConverter(s)
	var row BrokerRow
	err := rc.ConvertTo(m, &row)
	verifAssert(err != nil, "a metric whose histogram holds NaN, a negative number or an infinite bucket count is rejected as a whole")
	var row2, row3 BrokerRow
	err2 := rc.ConvertTo(verifProtoMetric(s), &row2)
	err3 := verifProtoConverter(s).ConvertTo(verifProtoMetric(s), &row3)
	verifAssert(err2 == nil && err3 == nil, "the valid metric is accepted afterwards")
	if err2 == nil && err3 == nil {
		var b2, b3 bytes.Buffer
		_, _ = row2.WriteTo(&b2)
		_, _ = row3.WriteTo(&b3)
		verifAssert(bytes.Equal(b2.Bytes(), b3.Bytes()), "the stored row does not depend on tag order nor on what the converter handled before")
	}
	verifReach("end")
}
