package metric

import (
	jump "github.com/lithammer/go-jump-consistent-hash"

	"time"

	flatbuffers "github.com/google/flatbuffers/go"
	"github.com/lindb/common/pkg/fasttime"
	"github.com/lindb/common/proto/gen/v1/flatMetricsV1"
	protoMetricsV1 "github.com/lindb/common/proto/gen/v1/linmetrics"

	"github.com/lindb/lindb/pkg/timeutil"
	"github.com/lindb/lindb/series/tag"
)

// ---- rows with arbitrary timestamp and tags hash.
// In the engine the two flat-buffer accessors the kernels use (Metric.Timestamp, Metric.KvsHash) are
// replaced by lookups of the row's symbolic fields (stubs, see manifest); natively (replay) a real
// flat-buffer row with the model's values is built.

type verifRowSpec struct {
	key  *byte
	ts   int64
	hash uint64
	id   int
}

var verifRowSpecs []verifRowSpec

func verifSpecOf(m *flatMetricsV1.Metric) *verifRowSpec {
	tab := m.Table()
	p := &tab.Bytes[0]
	for i := range verifRowSpecs {
		if verifRowSpecs[i].key == p {
			return &verifRowSpecs[i]
		}
	}
	panic("row spec not found")
}

func verifStubTimestamp(m *flatMetricsV1.Metric) int64 { return verifSpecOf(m).ts }
func verifStubKvsHash(m *flatMetricsV1.Metric) uint64  { return verifSpecOf(m).hash }

var verifNowMs int64

func verifStubNow() int64 { return verifNowMs }

func verifAddRow(batch *BrokerBatchRows, id int, ts int64, hash uint64) {
	_ = batch.TryAppend(func(row *BrokerRow) error {
		if verifIsSymbolic() {
			buf := make([]byte, 8)
			buf[0] = byte(id)
			verifRowSpecs = append(verifRowSpecs, verifRowSpec{key: &buf[0], ts: ts, hash: hash, id: id})
			row.buffer = buf
			row.m.Init(buf, 0)
			return nil
		}
		b := flatbuffers.NewBuilder(64)
		name := b.CreateString("m")
		flatMetricsV1.MetricStart(b)
		flatMetricsV1.MetricAddName(b, name)
		flatMetricsV1.MetricAddTimestamp(b, ts)
		flatMetricsV1.MetricAddKvsHash(b, hash)
		// the id rides in the hash of the namespace-less row: keep it recoverable through the timestamp/hash pair
		end := flatMetricsV1.MetricEnd(b)
		b.FinishSizePrefixed(end)
		row.FromBlock(b.FinishedBytes())
		verifRowSpecs = append(verifRowSpecs, verifRowSpec{ts: ts, hash: hash, id: id})
		return nil
	})
}

// which spec does a row of the batch correspond to (by its fields; specs with equal fields are interchangeable)
func verifRowFields(row *BrokerRow) (int64, uint64) {
	return row.m.Timestamp(), row.m.KvsHash()
}

// C16 (write window): a row is dropped exactly when it lies outside [now-behind, now+ahead].
func verifC16Evict() {
	verifRowSpecs = nil
	maxRows := 3
	if verifThorough() {
		maxRows = 8
	}
	n := 1 + verifChoose("rows", maxRows)
	behind := verifRange("behind", 0, 7*86400000)
	ahead := verifRange("ahead", 0, 7*86400000)
	var now int64
	if verifIsSymbolic() {
		now = verifRange("now", 1600000000000, 4000000000000)
		verifNowMs = now
	} else {
		_ = verifRange("now", 1600000000000, 4000000000000)
		now = fasttime.UnixMilliseconds()
	}
	batch := newBrokerBatchRows()
	ts := make([]int64, n)
	for i := 0; i < n; i++ {
		ts[i] = now + verifRange("offset", -8*86400000, 8*86400000)
		verifAddRow(batch, i, ts[i], uint64(i))
	}
	evicted := batch.EvictOutOfTimeRange(behind, ahead)
	want := 0
	for i := 0; i < n; i++ {
		out := (behind > 0 && ts[i] < now-behind) || (ahead > 0 && ts[i] > now+ahead)
		if out {
			want++
		}
		verifAssert(batch.Rows()[i].IsOutOfTimeRange == out, "a row is dropped exactly when it is outside the write window")
		if out {
			verifAssert(batch.Rows()[i].Size() == 0, "a dropped row contributes nothing")
		}
	}
	verifAssert(evicted == want, "evicted count")
	verifReach("end")
}

// C16 (write window, pooled batches): batches come from a pool (ingestion takes one per request,
// replica/channel_manager releases it after the write); what a previous batch's rows were marked
// with must not leak into the rows of the next batch that reuses the object.
func verifC16EvictReuse() {
	verifRowSpecs = nil
	behind := verifRange("behind", 1, 7*86400000)
	ahead := verifRange("ahead", 1, 7*86400000)
	var now int64
	if verifIsSymbolic() {
		now = verifRange("now", 1600000000000, 4000000000000)
		verifNowMs = now
	} else {
		_ = verifRange("now", 1600000000000, 4000000000000)
		now = fasttime.UnixMilliseconds()
	}
	for round := 0; round < 2; round++ {
		batch := NewBrokerBatchRows()
		n := 1 + verifChoose("rows", 2)
		ts := make([]int64, n)
		for i := 0; i < n; i++ {
			ts[i] = now + verifRange("offset", -8*86400000, 8*86400000)
			verifAddRow(batch, 10*round+i, ts[i], uint64(i))
		}
		evicted := batch.EvictOutOfTimeRange(behind, ahead)
		want := 0
		for i := 0; i < n; i++ {
			out := ts[i] < now-behind || ts[i] > now+ahead
			if out {
				want++
			}
			verifAssert(batch.Rows()[i].IsOutOfTimeRange == out, "a row of a reused batch is dropped exactly when it is outside the write window")
			verifAssert((batch.Rows()[i].Size() == 0) == out, "a row contributes nothing exactly when it is outside the write window")
		}
		verifAssert(evicted == want, "evicted count")
		batch.Release()
	}
	verifReach("end")
}

// C16 (routing): every row of a batch appears in exactly one (shard, family) group, the shard is
// below the shard count and the group's family range contains the row's timestamp.
func verifC16Partition() {
	verifRowSpecs = nil
	time.Local = time.UTC
	maxRows, maxShards := 3, 4
	if verifThorough() {
		maxRows, maxShards = 5, 8
	}
	n := 1 + verifChoose("rows", maxRows)
	shards := int32(1 + verifChoose("shards", maxShards))
	// 2024-03-10T00:00:00Z .. +3h: up to three one-hour families of a day-type interval
	const base = 1710028800000
	batch := newBrokerBatchRows()
	ts := make([]int64, n)
	hs := make([]uint64, n)
	for i := 0; i < n; i++ {
		ts[i] = base + verifRange("tsOffset", 0, 3*3600000-1)
		// the row's shard is an input of its own (jump hash is an uninterpreted function in the
		// engine: without this a counterexample's shard grouping could not be replayed natively);
		// natively a tags hash with that shard is searched
		want := int32(verifRange("shardOfRow", 0, int64(shards)-1))
		if verifIsSymbolic() {
			hs[i] = verifNondetUint64("kvsHash")
			verifAssume(jump.Hash(hs[i], shards) == want)
		} else {
			_ = verifNondetUint64("kvsHash")
			for h := uint64(i) * 1000003; ; h++ {
				if jump.Hash(h, shards) == want {
					hs[i] = h
					break
				}
			}
		}
		verifAddRow(batch, i, ts[i], hs[i])
	}
	seen := make([]int, n)
	groups := 0
	it := batch.NewShardGroupIterator(shards)
	lastShard := -1
	for it.HasRowsForNextShard() {
		shardIdx, fit := it.FamilyRowsForNextShard(timeutil.Interval(10000))
		verifAssert(shardIdx >= 0 && shardIdx < int(shards), "shard index is below the shard count")
		verifAssert(shardIdx > lastShard, "each shard forms one group")
		lastShard = shardIdx
		lastFamily := int64(-1)
		for fit.HasNextFamily() {
			familyTime, rows := fit.NextFamily()
			groups++
			verifAssert(groups <= 3*n, "bounded number of groups")
			verifAssert(familyTime > lastFamily, "each family forms one group per shard")
			lastFamily = familyTime
			verifAssert(len(rows) > 0, "groups are not empty")
			for k := range rows {
				t, h := verifRowFields(&rows[k])
				verifAssert(familyTime <= t && t < familyTime+3600000, "the group's family range contains the row's timestamp")
				verifAssert(rows[k].shardIdx == shardIdx, "row is in its shard's group")
				// account the row to one spec with the same fields that was not accounted yet
				done := false
				for i := 0; i < n; i++ {
					if !done && seen[i] == 0 && ts[i] == t && hs[i] == h {
						seen[i] = 1
						done = true
					}
				}
				verifAssert(done, "a grouped row is one of the batch's rows (not a duplicate)")
			}
		}
	}
	for i := 0; i < n; i++ {
		verifAssert(seen[i] == 1, "every row appears in exactly one group")
	}
	verifReach("end")
}

// C16 (canonical tags): sorted, one value per key, independent of the order in which distinct keys were sent.
func verifTags(n int, perm []int, keys, vals []byte) []*protoMetricsV1.KeyValue {
	out := make([]*protoMetricsV1.KeyValue, n)
	for i := 0; i < n; i++ {
		out[i] = &protoMetricsV1.KeyValue{Key: string([]byte{keys[perm[i]]}), Value: string([]byte{vals[perm[i]]})}
	}
	return out
}

var verifPerms3 = [][]int{{0, 1, 2}, {0, 2, 1}, {1, 0, 2}, {1, 2, 0}, {2, 0, 1}, {2, 1, 0}}

func verifC16Tags() {
	n := 3
	keys := []byte{verifNondetByte("key"), verifNondetByte("key"), verifNondetByte("key")}
	vals := []byte{verifNondetByte("val"), verifNondetByte("val"), verifNondetByte("val")}
	p := verifPerms3[verifChoose("perm", 6)]
	rc := &BrokerRowProtoConverter{}
	m1 := &protoMetricsV1.Metric{Tags: verifTags(n, verifPerms3[0], keys, vals)}
	m2 := &protoMetricsV1.Metric{Tags: verifTags(n, p, keys, vals)}
	rc.deDupTags(m1)
	rc.deDupTags(m2)
	distinct := keys[0] != keys[1] && keys[0] != keys[2] && keys[1] != keys[2]
	// canonical form: strictly ascending keys, every sent key present, its value one of the values sent for it
	for _, m := range []*protoMetricsV1.Metric{m1, m2} {
		for i := range m.Tags {
			if i > 0 {
				verifAssert(m.Tags[i-1].Key < m.Tags[i].Key, "tags are sorted and a repeated key is resolved to one entry")
			}
			ok := false
			for j := 0; j < n; j++ {
				if m.Tags[i].Key == string([]byte{keys[j]}) && m.Tags[i].Value == string([]byte{vals[j]}) {
					ok = true
				}
			}
			verifAssert(ok, "every stored tag is one of the tags that were sent")
		}
		for j := 0; j < n; j++ {
			found := false
			for i := range m.Tags {
				if m.Tags[i].Key == string([]byte{keys[j]}) {
					found = true
				}
			}
			verifAssert(found, "every sent key is stored")
		}
	}
	if distinct {
		verifAssert(len(m1.Tags) == n && len(m2.Tags) == n, "distinct keys are all kept")
		for i := 0; i < n && i < len(m1.Tags) && i < len(m2.Tags); i++ {
			verifAssert(m1.Tags[i].Key == m2.Tags[i].Key && m1.Tags[i].Value == m2.Tags[i].Value, "canonical tags do not depend on the order in which they were sent")
		}
		verifAssert(tag.ConcatKeyValues(m1.Tags) == tag.ConcatKeyValues(m2.Tags), "serialised tags do not depend on tag order")
		verifAssert(tag.XXHashOfKeyValues(m1.Tags) == tag.XXHashOfKeyValues(m2.Tags), "series hash does not depend on tag order")
	}
	verifReach("end")
}

func verifC16Reach() {
	verifRowSpecs = nil
	time.Local = time.UTC
	const base = 1710028800000
	batch := newBrokerBatchRows()
	t0 := base + verifRange("tsOffset", 0, 3*3600000-1)
	t1 := base + verifRange("tsOffset", 0, 3*3600000-1)
	verifAddRow(batch, 0, t0, 7)
	verifAddRow(batch, 1, t1, 7)
	it := batch.NewShardGroupIterator(1)
	it.HasRowsForNextShard()
	_, fit := it.FamilyRowsForNextShard(timeutil.Interval(10000))
	fit.HasNextFamily()
	ft, rows := fit.NextFamily()
	verifObserve("partition", t0, t1, ft, len(rows))
	verifAssert(len(rows) != 1, "reach")
}
