package kv

import (
	"github.com/lindb/lindb/kv/table"
)

// C15 / C01 (what a committed flush wrote is what readers get): one or two keys with values of 0-2
// symbolic bytes each go through the real storeFlusher (Add or the stream writer, Commit, Release)
// and the real store builder into a table file of the family; after the commit returned success
// every key is found in a table of the current version with exactly its bytes - also when every
// value is empty.
func verifC15FlushValues() {
	w, f := verifOBSetup()
	table.VerifOnCreate = nil
	keys := []uint32{100, 70000}
	n := 1 + verifChoose("keys", 2)
	useStream := verifChoose("streamWriter", 2) == 1
	vals := make([][]byte, n)
	fl := f.NewFlusher()
	for i := 0; i < n; i++ {
		vals[i] = verifSymBytes("value", verifChoose("valueLength", 3))
		if useStream {
			sw, err := fl.StreamWriter()
			verifAssert(err == nil, "stream writer is available")
			sw.Prepare(keys[i])
			_, _ = sw.Write(vals[i])
			verifAssert(sw.Commit() == nil, "stream write commits")
		} else {
			verifAssert(fl.Add(keys[i], vals[i]) == nil, "flusher accepts a key")
		}
	}
	verifAssert(fl.Commit() == nil, "flush commit returns success")
	fl.Release()
	for i := 0; i < n; i++ {
		found := false
		for _, fm := range w.current.GetAllFiles() {
			if keys[i] < fm.GetMinKey() || keys[i] > fm.GetMaxKey() || !w.onDisk(fm.GetFileNumber()) {
				continue
			}
			r, err := table.VerifOpenReader(verifOBFile(fm.GetFileNumber()))
			verifAssert(err == nil, "a table of the current version opens")
			if err != nil {
				continue
			}
			v, err := r.Get(keys[i])
			if err != nil {
				continue
			}
			found = true
			same := len(v) == len(vals[i])
			for j := 0; same && j < len(v); j++ {
				if v[j] != vals[i][j] {
					same = false
				}
			}
			verifAssert(same, "a key of a committed flush reads back with exactly its bytes")
		}
		verifAssert(found, "every key of a flush whose commit returned success is in a table of the current version")
	}
	verifReach("end")
}

func verifC15FlushReach() {
	w, f := verifOBSetup()
	table.VerifOnCreate = nil
	b := verifNondetByte("value")
	fl := f.NewFlusher()
	_ = fl.Add(100, []byte{b})
	_ = fl.Commit()
	fl.Release()
	verifObserve("files", len(w.current.GetAllFiles()), b)
	verifAssert(len(w.current.GetAllFiles()) != 3, "reach")
}
