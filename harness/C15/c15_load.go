package version

import (
	"github.com/lindb/lindb/kv/table"
)

// C15 (lookup through a version): a key that lives in several files of a version is answered with
// all of its values. The real version.FindFiles and snapshot.Load over 2-3 files, each on level 0 or level 1 (so also two overlapping level-1 files), with
// arbitrary (symbolic) key ranges, an arbitrary probe key and, per file, an arbitrary decision
// whether the file holds the key (only possible inside its key range) and with which value byte:
// the loader receives exactly the values of the files that hold the key, each once.

type verifLoadReader struct {
	table.Reader
	has   bool
	key   uint32
	value byte
}

func (r *verifLoadReader) Get(key uint32) ([]byte, error) {
	if r.has && key == r.key {
		return []byte{r.value}, nil
	}
	return nil, table.ErrKeyNotExist
}

type verifLoadCache struct {
	table.Cache
	readers map[string]*verifLoadReader
	asked   map[string]int
}

func (c *verifLoadCache) GetReader(_ string, fileName string) (table.Reader, error) {
	c.asked[fileName]++
	return c.readers[fileName], nil
}
func (c *verifLoadCache) ReleaseReaders([]table.Reader) {}

type verifLoadVS struct{ StoreVersionSet }

func (verifLoadVS) numberOfLevels() int { return 2 }
func (verifLoadVS) newVersionID() int64 { return 1 }

type verifLoadFV struct {
	FamilyVersion
	vs StoreVersionSet
}

func (f *verifLoadFV) GetVersionSet() StoreVersionSet { return f.vs }
func (f *verifLoadFV) removeVersion(Version)          {}

func verifC15Load() {
	n := 2 + verifChoose("files", 2)
	key := verifNondetUint32("probe")
	v := newVersion(1, &verifLoadFV{vs: verifLoadVS{}})
	cache := &verifLoadCache{readers: map[string]*verifLoadReader{}, asked: map[string]int{}}
	has := make([]bool, n)
	vals := make([]byte, n)
	for i := 0; i < n; i++ {
		min := verifNondetUint32("min")
		max := verifNondetUint32("max")
		verifAssume(min <= max)
		has[i] = verifNondetBool("holdsKey")
		vals[i] = verifNondetByte("value")
		if has[i] {
			verifAssume(min <= key && key <= max) // a table's key range covers its keys (C15 table harness)
		}
		num := table.FileNumber(10 + i)
		// any file may be on either level: PickL0Compaction chooses the level-1 inputs per level-0 file,
		// so the files of level 1 may overlap in their key ranges and a key may live in two of them
		level := verifChoose("level", 2)
		v.AddFile(level, NewFileMeta(num, min, max, 100))
		cache.readers[Table(num)] = &verifLoadReader{has: has[i], key: key, value: vals[i]}
	}
	snap := newSnapshot("f", v, cache)
	var got []byte
	err := snap.Load(key, func(value []byte) error {
		got = append(got, value...)
		return nil
	})
	verifAssert(err == nil, "load succeeds")
	// every value of a file that holds the key arrives exactly once
	want := 0
	for i := 0; i < n; i++ {
		if has[i] {
			want++
		}
	}
	verifAssert(len(got) == want, "the loader is called once per file that holds the key")
	// as a multiset: for every file that holds the key its value is among the loaded ones at least as
	// often as files hold that value (files are visited in level order; order is not asserted)
	for i := 0; i < n; i++ {
		if !has[i] {
			continue
		}
		cntWant, cntGot := 0, 0
		for j := 0; j < n; j++ {
			if has[j] && vals[j] == vals[i] {
				cntWant++
			}
		}
		for _, g := range got {
			if g == vals[i] {
				cntGot++
			}
		}
		verifAssert(cntGot == cntWant, "every value of the key is loaded exactly as often as files hold it")
	}
	snap.Close()
	verifReach("end")
}

func verifC15LoadReach() {
	key := verifNondetUint32("probe")
	v := newVersion(1, &verifLoadFV{vs: verifLoadVS{}})
	cache := &verifLoadCache{readers: map[string]*verifLoadReader{}, asked: map[string]int{}}
	v.AddFile(0, NewFileMeta(10, 5, 500, 100))
	cache.readers[Table(10)] = &verifLoadReader{has: true, key: key, value: 7}
	snap := newSnapshot("f", v, cache)
	n := 0
	_ = snap.Load(key, func(value []byte) error { n++; return nil })
	verifObserve("load", key, n)
	verifAssert(n == 0, "reach")
}
