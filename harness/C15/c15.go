package table

import (
	"github.com/lindb/roaring"

	"github.com/lindb/lindb/pkg/bufioutil"
)

// ---- in-memory file behind the builder's writer seam (newBufioWriterFunc)

type verifFile struct {
	data   []byte
	closed bool
}

var verifFiles = map[string]*verifFile{}

type verifWriter struct{ f *verifFile }

func (w *verifWriter) Write(p []byte) (int, error) {
	w.f.data = append(w.f.data, p...)
	return len(p), nil
}
func (w *verifWriter) Close() error               { w.f.closed = true; return nil }
func (w *verifWriter) Reset(fileName string) error { w.f = verifNewFile(fileName); return nil }
func (w *verifWriter) Sync() error                { return nil }
func (w *verifWriter) Flush() error               { return nil }
func (w *verifWriter) Size() int64                { return int64(len(w.f.data)) }

func verifNewFile(name string) *verifFile {
	f := &verifFile{}
	verifFiles[name] = f
	return f
}

func verifInstallWriter() {
	verifFiles = map[string]*verifFile{}
	newBufioWriterFunc = func(fileName string) (bufioutil.BufioWriter, error) {
		return &verifWriter{f: verifNewFile(fileName)}, nil
	}
}

func verifOpenReader(name string) (*storeMMapReader, error) {
	r := &storeMMapReader{path: name, fileName: name, fullBlock: verifFiles[name].data, keys: roaring.New()}
	if err := r.initialize(); err != nil {
		return nil, err
	}
	return r, nil
}

// keys are drawn from a universe that crosses the 65536 container boundaries and the uint32 end;
// the key set is a case split (roaring containers are navigated with concrete keys), value bytes
// and the choice between Add and the stream writer are symbolic / split.
var verifLenBase = 0

var verifKeyUniverse = []uint32{0, 1, 65535, 65536, 65537, 131072, 4294967295}

func verifValue(tag string) []byte {
	switch verifChoose(tag+".len", 3) + verifLenBase {
	case 0:
		return []byte{}
	case 1:
		return verifSymBytes(tag, 1)
	case 2:
		return verifSymBytes(tag, 2)
	default:
		// a long value: pushes later offsets over the one-byte width of the offset table
		v := make([]byte, 300)
		sym := verifSymBytes(tag, 2)
		v[0], v[299] = sym[0], sym[1]
		return v
	}
}

func verifSame(a, b []byte) bool {
	if len(a) != len(b) {
		return false
	}
	for i := range a {
		if a[i] != b[i] {
			return false
		}
	}
	return true
}

// C15 (table): build from key sequences with arbitrary (symbolic) uint32 keys - so that container
// boundaries, equal high halves, the uint32 end are all in the space - ascending with one possible
// out-of-order key, via Add or the stream writer; look up an arbitrary probe key; iterate.
func verifC15Table() {
	verifInstallWriter()
	b, err := NewStoreBuilder(7, "t.sst")
	verifAssert(err == nil, "builder opens")
	maxKeys := 2
	if verifThorough() {
		maxKeys = 3
	}
	n := 1 + verifChoose("nkeys", maxKeys)
	type kv struct {
		key uint32
		val []byte
	}
	var accepted []kv
	var last uint32
	have := false
	for i := 0; i < n; i++ {
		key := verifNondetUint32("key")
		val := verifValue("val")
		inOrder := !have || key > last
		if verifChoose("viaStream", 2) == 1 {
			sw := b.StreamWriter()
			sw.Prepare(key)
			half := len(val) / 2
			_, _ = sw.Write(val[:half])
			_, _ = sw.Write(val[half:])
			if inOrder {
				verifAssert(int(sw.Size()) == len(val), "stream writer counts the bytes of the entry")
			}
			verifAssert(sw.Commit() == nil, "commit")
		} else {
			verifAssert(b.Add(key, val) == nil, "add")
		}
		if inOrder {
			accepted = append(accepted, kv{key, val})
			last, have = key, true
		}
	}
	verifAssert(b.Count() == uint64(len(accepted)), "count is the number of accepted keys")
	verifAssert(b.MinKey() == accepted[0].key && b.MaxKey() == accepted[len(accepted)-1].key, "min/max key")
	verifAssert(b.Close() == nil, "close")
	r, err := verifOpenReader("t.sst")
	verifAssert(err == nil, "a closed table opens")
	if err != nil {
		return
	}
	// lookup of an arbitrary probe key
	probe := verifNondetUint32("probe")
	got, err := r.Get(probe)
	var want []byte
	present := false
	for _, e := range accepted {
		if e.key == probe {
			want, present = e.val, true
		}
	}
	if present {
		verifAssert(err == nil && verifSame(got, want), "lookup returns exactly the bytes added for the key")
	} else {
		verifAssert(err == ErrKeyNotExist, "an absent (or rejected) key is reported absent")
	}
	// iteration: ascending, complete, exact
	it := r.Iterator()
	i := 0
	for it.HasNext() {
		k := it.Key()
		v := it.Value()
		verifAssert(i < len(accepted) && k == accepted[i].key && verifSame(v, accepted[i].val), "iteration yields the accepted entries in ascending key order")
		i++
		if i > 3 {
			break
		}
	}
	verifAssert(i == len(accepted), "iteration is complete")
	verifReach("end")
}

// ---- merged iteration over inputs with symbolic keys

type verifSliceIt struct {
	keys []uint32
	vals [][]byte
	pos  int
}

func (s *verifSliceIt) HasNext() bool { return s.pos < len(s.keys) }
func (s *verifSliceIt) Key() uint32   { return s.keys[s.pos] }
func (s *verifSliceIt) Value() []byte { v := s.vals[s.pos]; s.pos++; return v }

// C15 (merge): k iterators with ascending symbolic keys; the merged iterator yields every entry of
// every input exactly once, ordered by key.
func verifC15Merge() {
	k := 1 + verifChoose("iterators", 3)
	its := make([]Iterator, k)
	total := 0
	for i := 0; i < k; i++ {
		n := verifChoose("entries", 3)
		s := &verifSliceIt{}
		for j := 0; j < n; j++ {
			key := verifNondetUint32("key")
			if j > 0 {
				verifAssume(key > s.keys[j-1])
			}
			s.keys = append(s.keys, key)
			s.vals = append(s.vals, []byte{byte(i), byte(j)}) // token: which input, which position
			total++
		}
		its[i] = s
	}
	m := NewMergedIterator(its)
	seen := make([][]bool, k)
	for i := range seen {
		seen[i] = make([]bool, 3)
	}
	var prev uint32
	count := 0
	for m.HasNext() {
		key := m.Key()
		tok := m.Value()
		verifAssert(count < total, "no more entries than the inputs hold")
		if count >= total {
			break
		}
		if count > 0 {
			verifAssert(key >= prev, "merged iteration is ordered by key")
		}
		prev = key
		i, j := int(tok[0]), int(tok[1])
		verifAssert(!seen[i][j], "no entry is yielded twice")
		seen[i][j] = true
		verifAssert(its[i].(*verifSliceIt).keys[j] == key, "an entry keeps its key")
		count++
	}
	verifAssert(count == total, "every entry of every input is yielded")
	verifReach("end")
}

func verifC15Reach() {
	verifInstallWriter()
	b, _ := NewStoreBuilder(7, "t.sst")
	v := verifSymBytes("val", 2)
	_ = b.Add(65536, v)
	_ = b.Add(65537, []byte{9})
	_ = b.Close()
	r, _ := verifOpenReader("t.sst")
	got, _ := r.Get(65536)
	verifObserve("table", v[0], v[1], got[0], got[1], len(verifFiles["t.sst"].data))
	verifAssert(got[0] != 5, "reach")
}
