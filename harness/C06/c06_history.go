package queue

// C06 thorough: a history of three operations (four: time-boxed) on a fan-out queue with two groups, from an arbitrary
// persisted state satisfying the running invariant, compared after every operation with a model
// of the positions (appended, queue acknowledged, per group consumed / acknowledged). The
// operations: consume, acknowledge (arbitrary argument), set-consumed - each on either group -,
// sync, append, close + reopen. The single-operation harness (verifC06Step) is an inductive step;
// this one shows that the steps compose as the model says, including reopen in the middle.
func verifC06History()  { verifC06HistoryN(3) }
func verifC06History4() { verifC06HistoryN(4) }

func verifC06HistoryN(steps int) {
	dir := verifQueueDir()
	appended := verifRange("appended", 0, 200000)
	qack := verifRange("queueAcked", -1, 200000)
	verifAssume(qack <= appended)
	verifWriteQueueImage(dir, appended, qack)
	names := []string{"g0", "g1"}
	var cons, acks [2]int64
	for i := 0; i < 2; i++ {
		cons[i] = verifRange("consumed", -1, 200000)
		acks[i] = verifRange("acked", -1, 200000)
		verifAssume(qack <= acks[i] && acks[i] <= cons[i] && cons[i] <= appended)
		verifWriteGroupImage(dir, names[i], cons[i], acks[i])
	}
	fq, err := NewFanOutQueue(dir, 0)
	if err != nil {
		verifAssert(false, "open succeeds")
		return
	}
	gs := make([]ConsumerGroup, 2)
	for i := range gs {
		gs[i], _ = fq.GetOrCreateConsumerGroup(names[i])
	}
	for step := 0; step < steps; step++ {
		op := verifChoose("op", 9)
		gi := op & 1
		switch op {
		case 0, 1: // consume
			s := gs[gi].consume()
			if cons[gi] < appended {
				cons[gi]++
				verifAssert(s == cons[gi], "consume hands out consumed+1")
			} else {
				verifAssert(s == SeqNoNewMessageAvailable, "nothing to consume at the head")
			}
		case 2, 3: // acknowledge with an arbitrary argument
			x := verifRange("ackArg", -5, 200005)
			gs[gi].Ack(x)
			if x >= acks[gi] && x <= cons[gi] {
				acks[gi] = x
			}
		case 4, 5: // set the consumed position
			x := verifRange("setConsumed", -1, 200005)
			verifAssume(x >= acks[gi] && x <= appended)
			gs[gi].SetConsumedSeq(x)
			cons[gi] = x
		case 6: // sync: the queue follows the slowest group
			fq.Sync()
			min := acks[0]
			if acks[1] < min {
				min = acks[1]
			}
			if min >= 0 && min > qack {
				qack = min
			}
		case 7: // append
			verifAssert(fq.Queue().Put([]byte{1, 2, 3}) == nil, "append succeeds")
			appended++
		case 8: // close and reopen
			fq.Close()
			fq, err = NewFanOutQueue(dir, 0)
			verifAssert(err == nil, "reopen succeeds")
			if err != nil {
				return
			}
			for i := range gs {
				gs[i], _ = fq.GetOrCreateConsumerGroup(names[i])
			}
		}
		for i := range gs {
			verifAssert(gs[i].ConsumedSeq() == cons[i], "history: consumed position follows the model")
			verifAssert(gs[i].AcknowledgedSeq() == acks[i], "history: acknowledged position follows the model")
		}
		verifAssert(fq.Queue().AppendedSeq() == appended, "history: appended position follows the model")
		if op == 6 {
			verifAssert(fq.Queue().AcknowledgedSeq() == qack, "history: the queue's acknowledged position follows the slowest group")
		} else {
			qa := fq.Queue().AcknowledgedSeq()
			verifAssert(qa >= qack && qa <= acks[0] && qa <= acks[1], "history: the queue's acknowledged position stays between its last synced value and every group's")
			qack = qa
		}
	}
	fq.Close()
	verifReach("end")
}
