package queue

import (
	"path/filepath"
)

// C06 / C05 (garbage collection removes only what lies at or below the acknowledged position):
// the real queue.GC (and Get / Put / reopen) on a queue whose messages are spread over several data
// pages AND several index pages - the acknowledged message a, a message s above it that an existing
// group has not acknowledged, and the last appended message each sit on a chosen index page (0/1)
// and a chosen data page (0..2), non-decreasing, at either of two positions inside their index page and at symbolic offsets inside
// their data page. After GC the messages above the acknowledged position are still readable byte for byte,
// their pages exist, an append succeeds and reads back, and all of it survives close and reopen.
// (Which pages GC frees is not asserted beyond "not the ones still needed".)

func verifWriteIndexEntry(dir string, idxPage int64, seq int64, dataPage int64, off, length int64) {
	ifct, err := newPageFactoryFunc(filepath.Join(dir, indexPath), indexPageSize)
	if err != nil {
		panic(err)
	}
	ip, _ := ifct.AcquirePage(idxPage)
	o := int((seq - idxPage*indexItemsPerPage) * indexItemLength)
	ip.PutUint64(uint64(dataPage), o+queueDataPageIndexOffset)
	ip.PutUint32(uint32(off), o+messageOffsetOffset)
	ip.PutUint32(uint32(length), o+messageLengthOffset)
	_ = ip.Sync()
	_ = ifct.Close()
}

func verifWriteData(dir string, dataPage int64, off int64, b []byte) {
	dfct, err := newPageFactoryFunc(filepath.Join(dir, dataPath), dataPageSize)
	if err != nil {
		panic(err)
	}
	dp, _ := dfct.AcquirePage(dataPage)
	dp.WriteBytes(b, int(off))
	_ = dp.Sync()
	_ = dfct.Close()
}

func verifC06GC() {
	dir := verifQueueDir()
	// index pages of a <= s <= appended
	ipA := int64(verifChoose("indexPageOfAcked", 2))
	ipS := ipA + int64(verifChoose("indexPageOfProbe", int(2-ipA)))
	ipP := ipS + int64(verifChoose("indexPageOfLast", int(2-ipS)))
	// data pages of a <= s <= appended
	dA := int64(verifChoose("dataPageOfAcked", 3))
	dS := dA + int64(verifChoose("dataPageOfProbe", int(3-dA)))
	dP := dS + int64(verifChoose("dataPageOfLast", int(3-dS)))
	// sequences: symbolic inside their index page; two messages on the same index page are a fixed
	// distance apart (their entries are then stores at offsets with a common symbolic base)
	a := ipA*indexItemsPerPage + int64(7*verifChoose("ackedInPage", 2))
	s := a + 3
	if ipS != ipA {
		s = ipS*indexItemsPerPage + int64(9*verifChoose("probeInPage", 2))
	}
	appended := s
	sameAsLast := true
	if ipP != ipS {
		appended = ipP*indexItemsPerPage + int64(11*verifChoose("lastInPage", 2))
		sameAsLast = false
	} else if dP != dS || verifChoose("probeIsLast", 2) == 0 {
		appended = s + 4
		sameAsLast = false
	}
	// every data page up to the last one exists (nothing was collected before)
	for p := int64(0); p <= dP; p++ {
		verifWriteData(dir, p, 0, []byte{0})
	}
	offA := int64(0)
	offS := verifRange("offS", 2, dataPageSize-20)
	offP := verifRange("offP", 0, dataPageSize-2)
	if dS == dP {
		offP = offS + 2
	}
	if sameAsLast {
		offP = offS
	}
	{
		// every index page up to the last one exists
		ifct, _ := newPageFactoryFunc(filepath.Join(dir, indexPath), indexPageSize)
		for p := int64(0); p <= ipP; p++ {
			_, _ = ifct.AcquirePage(p)
		}
		_ = ifct.Close()
	}
	wS := []byte{verifNondetByte("witness"), verifNondetByte("witness")}
	wP := []byte{verifNondetByte("witness"), verifNondetByte("witness")}
	if sameAsLast {
		wP = wS
	}
	verifWriteIndexEntry(dir, ipA, a, dA, offA, 2)
	verifWriteIndexEntry(dir, ipS, s, dS, offS, 2)
	if !sameAsLast {
		verifWriteIndexEntry(dir, ipP, appended, dP, offP, 2)
	}
	verifWriteData(dir, dS, offS, wS)
	if !sameAsLast {
		verifWriteData(dir, dP, offP, wP)
	}
	// queue meta: appended, acknowledged = a; one group that acknowledged a and consumed up to s
	fct, err := newPageFactoryFunc(filepath.Join(dir, metaPath), metaPageSize)
	if err != nil {
		panic(err)
	}
	mp, _ := fct.AcquirePage(metaPageIndex)
	mp.PutUint64(uint64(appended), queueAppendedSeqOffset)
	mp.PutUint64(uint64(a), queueAcknowledgedSeqOffset)
	_ = mp.Sync()
	_ = fct.Close()
	verifWriteGroupImage(dir, "g0", s, a)

	fq, err := NewFanOutQueue(dir, 0)
	verifAssert(err == nil, "open succeeds")
	if err != nil {
		return
	}
	q := fq.Queue()
	verifAssert(q.AcknowledgedSeq() == a && q.AppendedSeq() == appended, "positions as persisted")
	check := func(q Queue, when string) {
		b, err := q.Get(s)
		verifAssert(err == nil, when+": a message above the acknowledged position is still readable")
		if err == nil {
			verifAssert(len(b) == 2 && b[0] == wS[0] && b[1] == wS[1], when+": a message above the acknowledged position reads back byte for byte")
		}
		b, err = q.Get(appended)
		verifAssert(err == nil, when+": the last appended message is still readable")
		if err == nil {
			verifAssert(len(b) == 2 && b[0] == wP[0] && b[1] == wP[1], when+": the last appended message reads back byte for byte")
		}
	}
	check(q, "before gc")
	q.GC()
	check(q, "after gc")
	q.GC()
	check(q, "after a second gc")
	verifAssert(q.AcknowledgedSeq() == a && q.AppendedSeq() == appended, "gc moves no position")
	nw := []byte{verifNondetByte("new"), verifNondetByte("new"), verifNondetByte("new")}
	verifAssert(q.Put(nw) == nil, "append after gc succeeds")
	verifAssert(q.AppendedSeq() == appended+1, "append after gc gets the next sequence")
	b, err := q.Get(appended + 1)
	verifAssert(err == nil && len(b) == 3 && b[0] == nw[0] && b[1] == nw[1] && b[2] == nw[2], "a message appended after gc reads back")
	check(q, "after gc and append")
	fq.Close()
	fq2, err := NewFanOutQueue(dir, 0)
	verifAssert(err == nil, "reopen after gc succeeds")
	if err != nil {
		return
	}
	q2 := fq2.Queue()
	verifAssert(q2.AcknowledgedSeq() == a && q2.AppendedSeq() == appended+1, "positions survive gc, close and reopen")
	check(q2, "after gc, close and reopen")
	b, err = q2.Get(appended + 1)
	verifAssert(err == nil && len(b) == 3 && b[0] == nw[0] && b[1] == nw[1] && b[2] == nw[2], "a message appended after gc reads back after reopen")
	g, _ := fq2.GetOrCreateConsumerGroup("g0")
	verifAssert(g != nil && g.AcknowledgedSeq() == a && g.ConsumedSeq() == s, "the group's positions survive gc, close and reopen")
	fq2.Close()
	verifReach("end")
}

func verifC06GCReach() {
	dir := verifQueueDir()
	a := verifRange("ackedInPage", 0, 1000)
	verifWriteData(dir, 0, 0, []byte{0})
	verifWriteData(dir, 1, 0, []byte{0})
	verifWriteIndexEntry(dir, 0, a, 1, 8, 2)
	verifWriteIndexEntry(dir, 0, a+1, 1, 10, 2)
	verifWriteData(dir, 1, 10, []byte{7, 9})
	verifWriteQueueMeta(dir, a+1, a)
	fq, _ := NewFanOutQueue(dir, 0)
	fq.Queue().GC()
	b, err := fq.Queue().Get(a + 1)
	verifObserve("gc", a, err == nil, len(b))
	verifAssert(err != nil, "reach")
}

func verifWriteQueueMeta(dir string, appended, acked int64) {
	fct, err := newPageFactoryFunc(filepath.Join(dir, metaPath), metaPageSize)
	if err != nil {
		panic(err)
	}
	mp, _ := fct.AcquirePage(metaPageIndex)
	mp.PutUint64(uint64(appended), queueAppendedSeqOffset)
	mp.PutUint64(uint64(acked), queueAcknowledgedSeqOffset)
	_ = mp.Sync()
	_ = fct.Close()
}
