package queue

// C06 (consume vs ack on one group, concurrently): from an arbitrary persisted state one thread
// consumes twice while another acknowledges an arbitrary sequence; every interleaving at the
// group's lock / atomic operations within the pre-emption bound: the sequences handed out are
// consecutive, acknowledged <= consumed <= appended holds at the end, the acknowledged position
// is the old one or the argument, and it is the argument only if that was consumed by then.
// thorough: the same threads under pre-emption bound 3 (time-boxed)
func verifC06ConsumeVsAck3() { verifC06ConsumeVsAck() }

func verifC06ConsumeVsAck() {
	dir := verifQueueDir()
	appended := verifRange("appended", 0, 200000)
	qack := verifRange("queueAcked", -1, 200000)
	verifAssume(qack <= appended)
	verifWriteQueueImage(dir, appended, qack)
	c := verifRange("consumed", -1, 200000)
	a := verifRange("acked", -1, 200000)
	verifAssume(qack <= a && a <= c && c <= appended)
	verifWriteGroupImage(dir, "g0", c, a)
	fq, err := NewFanOutQueue(dir, 0)
	if err != nil {
		verifAssert(false, "open succeeds")
		return
	}
	g, _ := fq.GetOrCreateConsumerGroup("g0")
	a0, c0 := g.AcknowledgedSeq(), g.ConsumedSeq()
	x := verifRange("ackArg", -5, 200005)
	var s1, s2 int64
	verifSpawn(func() {
		s1 = g.consume()
		s2 = g.consume()
	})
	verifSpawn(func() { g.Ack(x) })
	verifJoinAll()
	// consecutive hand-outs
	if c0 < appended {
		verifAssert(s1 == c0+1, "consume hands out consumed+1")
		if c0+1 < appended {
			verifAssert(s2 == c0+2, "the next consume hands out the following sequence")
		} else {
			verifAssert(s2 == SeqNoNewMessageAvailable, "nothing to consume at the head (second)")
		}
	} else {
		verifAssert(s1 == SeqNoNewMessageAvailable && s2 == SeqNoNewMessageAvailable, "nothing to consume at the head")
	}
	af, cf := g.AcknowledgedSeq(), g.ConsumedSeq()
	verifAssert(af <= cf && cf <= fq.Queue().AppendedSeq(), "acknowledged <= consumed <= appended after consume || ack")
	verifAssert(af == a0 || af == x, "the acknowledged position is the old one or the acknowledged argument")
	verifAssert(af != x || (x >= a0 && x <= cf), "an acknowledgement is only taken inside [acknowledged, consumed]")
	verifAssert(x < a0 || x > c0 || af == x, "an acknowledgement inside [acknowledged, consumed] of the start state is taken")
	fq.Close()
	// what the two threads left in the group's meta page is what they left in memory: the positions
	// survive close and reopen (the image is not lifted by the queue: qack <= a <= af)
	fq2, err := NewFanOutQueue(dir, 0)
	verifAssert(err == nil, "reopen after consume || ack succeeds")
	if err == nil {
		g2, _ := fq2.GetOrCreateConsumerGroup("g0")
		verifAssert(g2.ConsumedSeq() == cf && g2.AcknowledgedSeq() == af, "the group's positions survive close and reopen after consume || ack")
		fq2.Close()
	}
	verifReach("end")
}

// C06 (Sync against the group map): the queue-wide acknowledged position is computed over the groups
// that exist and stored - while another thread re-creates a stopped group from its persisted image,
// stops a group, or acknowledges on a group. Every interleaving at the locks / atomics within the
// pre-emption bound: afterwards the queue's acknowledged position is not beyond the acknowledged
// position of any existing group, never beyond appended, never moved backwards, and the first
// message an existing group has not acknowledged is still inside the readable range.
func verifC06SyncVsGroups3() { verifC06SyncVsGroups() }

func verifC06SyncVsGroups() {
	dir := verifQueueDir()
	// positions are chosen from a few shapes (the schedules are the subject here; arbitrary
	// positions are the subject of the step harness): either group may be the one that lags
	appended := int64(10)
	qack := int64(-1 + 2*verifChoose("queueAcked", 2))
	verifWriteQueueImage(dir, appended, qack)
	names := []string{"g0", "g1"}
	acks := []int64{int64(3 + 5*verifChoose("g0Acked", 2)), int64(1 + 4*verifChoose("g1Acked", 2))}
	for i := 0; i < 2; i++ {
		verifWriteGroupImage(dir, names[i], acks[i]+1, acks[i])
	}
	fq, err := NewFanOutQueue(dir, 0)
	if err != nil {
		verifAssert(false, "open succeeds")
		return
	}
	g0, _ := fq.GetOrCreateConsumerGroup("g0")
	qa0 := fq.Queue().AcknowledgedSeq()
	op := verifChoose("otherThread", 3)
	x := acks[0] + 1
	if op == 0 {
		// g1 was stopped earlier (its directory stays); it comes back while Sync runs
		fq.StopConsumerGroup("g1")
	}
	verifSpawn(func() { fq.Sync() })
	verifSpawn(func() {
		switch op {
		case 0:
			_, _ = fq.GetOrCreateConsumerGroup("g1")
		case 1:
			fq.StopConsumerGroup("g1")
		case 2:
			g0.Ack(x)
		}
	})
	verifJoinAll()
	qa := fq.Queue().AcknowledgedSeq()
	verifAssert(qa >= qa0, "queue acknowledged position only moves forward")
	verifAssert(qa <= fq.Queue().AppendedSeq(), "queue acknowledged position never passes appended")
	for _, nm := range fq.ConsumerGroupNames() {
		g, _ := fq.GetOrCreateConsumerGroup(nm)
		verifAssert(qa <= g.AcknowledgedSeq(), "queue acknowledged position never passes an existing group's")
		verifGroupInvariant(fq, g, "sync || group operation")
	}
	fq.Close()
	verifReach("end")
}
