package queue

// C06 (consume vs ack on one group, concurrently): from an arbitrary persisted state one thread
// consumes twice while another acknowledges an arbitrary sequence; every interleaving at the
// group's lock / atomic operations within the pre-emption bound: the sequences handed out are
// consecutive, acknowledged <= consumed <= appended holds at the end, the acknowledged position
// is the old one or the argument, and it is the argument only if that was consumed by then.
// thorough: the same threads under pre-emption bound 3 (time-boxed)
func verifC06ConsumeVsAck3() { verifC06ConsumeVsAck() }

func verifC06ConsumeVsAck() {
	dir := verifQueueDir()
	appended := verifRange("appended", 0, 200000)
	qack := verifRange("queueAcked", -1, 200000)
	verifAssume(qack <= appended)
	verifWriteQueueImage(dir, appended, qack)
	c := verifRange("consumed", -1, 200000)
	a := verifRange("acked", -1, 200000)
	verifAssume(qack <= a && a <= c && c <= appended)
	verifWriteGroupImage(dir, "g0", c, a)
	fq, err := NewFanOutQueue(dir, 0)
	if err != nil {
		verifAssert(false, "open succeeds")
		return
	}
	g, _ := fq.GetOrCreateConsumerGroup("g0")
	a0, c0 := g.AcknowledgedSeq(), g.ConsumedSeq()
	x := verifRange("ackArg", -5, 200005)
	var s1, s2 int64
	verifSpawn(func() {
		s1 = g.consume()
		s2 = g.consume()
	})
	verifSpawn(func() { g.Ack(x) })
	verifJoinAll()
	// consecutive hand-outs
	if c0 < appended {
		verifAssert(s1 == c0+1, "consume hands out consumed+1")
		if c0+1 < appended {
			verifAssert(s2 == c0+2, "the next consume hands out the following sequence")
		} else {
			verifAssert(s2 == SeqNoNewMessageAvailable, "nothing to consume at the head (second)")
		}
	} else {
		verifAssert(s1 == SeqNoNewMessageAvailable && s2 == SeqNoNewMessageAvailable, "nothing to consume at the head")
	}
	af, cf := g.AcknowledgedSeq(), g.ConsumedSeq()
	verifAssert(af <= cf && cf <= fq.Queue().AppendedSeq(), "acknowledged <= consumed <= appended after consume || ack")
	verifAssert(af == a0 || af == x, "the acknowledged position is the old one or the acknowledged argument")
	verifAssert(af != x || (x >= a0 && x <= cf), "an acknowledgement is only taken inside [acknowledged, consumed]")
	verifAssert(x < a0 || x > c0 || af == x, "an acknowledgement inside [acknowledged, consumed] of the start state is taken")
	fq.Close()
	verifReach("end")
}
