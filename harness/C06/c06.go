package queue

import (
	"os"
	"path/filepath"
)

func verifQueueDir() string {
	if verifIsSymbolic() {
		verifInstallFS()
		return "/q"
	}
	d, err := os.MkdirTemp("", "verif-queue-")
	if err != nil {
		panic(err)
	}
	return d
}

// writes the persisted image of a consumer group (its meta page) directly
func verifWriteGroupImage(dir, name string, consumed, acked int64) {
	fct, err := newPageFactoryFunc(filepath.Join(dir, consumerGroupDirName, name), consumerGroupMetaSize)
	if err != nil {
		panic(err)
	}
	p, _ := fct.AcquirePage(metaPageIndex)
	p.PutUint64(uint64(consumed), consumerGroupConsumedSeqOffset)
	p.PutUint64(uint64(acked), consumerGroupAcknowledgedSeqOffset)
	_ = p.Sync()
	_ = fct.Close()
}

func verifWriteQueueImage(dir string, appended, acked int64) {
	fct, err := newPageFactoryFunc(filepath.Join(dir, metaPath), metaPageSize)
	if err != nil {
		panic(err)
	}
	p, _ := fct.AcquirePage(metaPageIndex)
	p.PutUint64(uint64(appended), queueAppendedSeqOffset)
	p.PutUint64(uint64(acked), queueAcknowledgedSeqOffset)
	_ = p.Sync()
	_ = fct.Close()
	// index entry of the last appended message (read by initDataPageIndex): page 0, offset 0, length 0
	ifct, _ := newPageFactoryFunc(filepath.Join(dir, indexPath), indexPageSize)
	ip, _ := ifct.AcquirePage(appended / indexItemsPerPage)
	off := int((appended % indexItemsPerPage) * indexItemLength)
	ip.PutUint64(0, off+queueDataPageIndexOffset)
	ip.PutUint32(0, off+messageOffsetOffset)
	ip.PutUint32(0, off+messageLengthOffset)
	_ = ifct.Close()
}

func verifGroupInvariant(q FanOutQueue, g ConsumerGroup, label string) {
	a, c, app := g.AcknowledgedSeq(), g.ConsumedSeq(), q.Queue().AppendedSeq()
	verifAssert(a <= c, label+": acknowledged <= consumed")
	verifAssert(c <= app, label+": consumed <= appended")
}

func verifQueueInvariant(q FanOutQueue, label string) {
	verifAssert(q.Queue().AcknowledgedSeq() <= q.Queue().AppendedSeq(), label+": queue acknowledged <= appended")
}

// C06 inductive step "reopen": the persisted images are arbitrary states that the running system
// can leave behind – the queue positions and, for each of two groups, positions with
// acknowledged <= consumed <= appended. A group image may be older than the queue's acknowledged
// position (a group that was stopped while other groups went on). After reopening every group
// must satisfy acknowledged <= consumed <= appended and no position may move backwards.
func verifC06Reopen() {
	dir := verifQueueDir()
	appended := verifRange("appended", 0, 200000)
	qack := verifRange("queueAcked", -1, 200000)
	verifAssume(qack <= appended)
	verifWriteQueueImage(dir, appended, qack)
	n := 1 + verifChoose("groups", 2)
	cons := make([]int64, n)
	acks := make([]int64, n)
	names := []string{"g0", "g1"}
	for i := 0; i < n; i++ {
		cons[i] = verifRange("consumed", -1, 200000)
		acks[i] = verifRange("acked", -1, 200000)
		verifAssume(acks[i] <= cons[i] && cons[i] <= appended)
		verifWriteGroupImage(dir, names[i], cons[i], acks[i])
	}
	fq, err := NewFanOutQueue(dir, 0)
	verifAssert(err == nil, "reopen succeeds")
	if err != nil {
		return
	}
	verifAssert(fq.Queue().AppendedSeq() == appended, "appended position survives reopen")
	verifAssert(fq.Queue().AcknowledgedSeq() == qack, "queue acknowledged position survives reopen")
	verifQueueInvariant(fq, "reopen")
	verifAssert(len(fq.ConsumerGroupNames()) == n, "every persisted group is reopened")
	for i := 0; i < n; i++ {
		g, err := fq.GetOrCreateConsumerGroup(names[i])
		verifAssert(err == nil && g != nil, "group is available")
		if g == nil {
			continue
		}
		verifGroupInvariant(fq, g, "reopen")
		verifAssert(g.AcknowledgedSeq() >= acks[i] && g.ConsumedSeq() >= cons[i], "reopen never moves a group backwards")
		verifAssert(g.AcknowledgedSeq() >= fq.Queue().AcknowledgedSeq(), "a reopened group never starts below the queue's acknowledged position")
		if acks[i] >= qack {
			verifAssert(g.AcknowledgedSeq() == acks[i] && g.ConsumedSeq() == cons[i], "positions survive reopen")
		}
	}
	fq.Close()
	verifReach("end")
}

// C06 inductive step "one operation": from an arbitrary open state (obtained by reopening images
// that satisfy the running invariant: queue ack <= every group's ack <= consumed <= appended)
// one operation with arbitrary argument keeps the invariant and has its specified effect.
func verifC06Step() {
	dir := verifQueueDir()
	appended := verifRange("appended", 0, 200000)
	qack := verifRange("queueAcked", -1, 200000)
	verifAssume(qack <= appended)
	verifWriteQueueImage(dir, appended, qack)
	n := 2
	names := []string{"g0", "g1"}
	for i := 0; i < n; i++ {
		c := verifRange("consumed", -1, 200000)
		a := verifRange("acked", -1, 200000)
		verifAssume(qack <= a && a <= c && c <= appended)
		verifWriteGroupImage(dir, names[i], c, a)
	}
	fq, err := NewFanOutQueue(dir, 0)
	if err != nil {
		verifAssert(false, "open succeeds")
		return
	}
	gs := make([]ConsumerGroup, n)
	for i := range gs {
		gs[i], _ = fq.GetOrCreateConsumerGroup(names[i])
	}
	g := gs[0]
	a0, c0 := g.AcknowledgedSeq(), g.ConsumedSeq()
	qa0 := fq.Queue().AcknowledgedSeq()
	op := verifChoose("op", 9)
	switch op {
	case 7: // set the consumed position (re-consume from an earlier point, or skip ahead)
		x := verifRange("setConsumed", -1, 200000)
		verifAssume(x >= a0 && x <= appended)
		g.SetConsumedSeq(x)
		verifAssert(g.ConsumedSeq() == x && g.AcknowledgedSeq() == a0, "set-consumed moves consumed only")
	case 8: // explicit index reset (replica/partition.ResetReplicaIndex): forwards or backwards
		x := verifRange("resetTo", -1, 200000)
		stopped := verifChoose("otherGroupStoppedDuringReset", 2) == 1
		if stopped {
			fq.StopConsumerGroup(names[1])
			gs = gs[:1]
		}
		fq.SetAppendedSeq(x)
		if stopped {
			// the group comes back (its directory is still there): it must fit the reset queue
			g1, err := fq.GetOrCreateConsumerGroup(names[1])
			verifAssert(err == nil && g1 != nil, "a stopped group can be opened again after an index reset")
			if g1 != nil {
				verifGroupInvariant(fq, g1, "group reopened after an index reset")
				gs = append(gs, g1)
				gs = gs[:1]
			}
		}
		verifAssert(fq.Queue().AppendedSeq() == x, "an index reset sets the appended position")
		verifAssert(fq.Queue().AcknowledgedSeq() == x, "an index reset aligns the queue's acknowledged position with the appended position")
		for i := range gs {
			verifAssert(gs[i].ConsumedSeq() == x && gs[i].AcknowledgedSeq() == x, "an index reset aligns every existing group")
		}
		// the first message appended after the reset is readable under the next sequence
		verifAssert(fq.Queue().Put([]byte{4, 5}) == nil, "append after an index reset succeeds")
		verifAssert(fq.Queue().AppendedSeq() == x+1, "append after an index reset gets the next sequence")
		_, err := fq.Queue().Get(x + 1)
		verifAssert(err == nil, "a message appended after an index reset is readable (no group acknowledged it)")
	case 0: // consume
		s := g.consume()
		if c0 < appended {
			verifAssert(s == c0+1, "consume hands out consumed+1")
			verifAssert(g.ConsumedSeq() == c0+1, "consume advances by one")
		} else {
			verifAssert(s == SeqNoNewMessageAvailable && g.ConsumedSeq() == c0, "nothing to consume at the head")
		}
	case 1: // ack with an arbitrary argument
		x := verifRange("ackArg", -5, 200005)
		g.Ack(x)
		if x >= a0 && x <= c0 {
			verifAssert(g.AcknowledgedSeq() == x, "an acknowledgement inside [acknowledged, consumed] is taken")
		} else {
			verifAssert(g.AcknowledgedSeq() == a0, "an acknowledgement outside [acknowledged, consumed] is ignored")
		}
		verifAssert(g.ConsumedSeq() == c0, "ack does not move consumed")
	case 2: // sync
		fq.Sync()
		qa := fq.Queue().AcknowledgedSeq()
		verifAssert(qa >= qa0, "queue acknowledged position only moves forward")
		for i := range gs {
			verifAssert(qa <= gs[i].AcknowledgedSeq(), "queue acknowledged position never passes an existing group's")
		}
		min := gs[0].AcknowledgedSeq()
		if gs[1].AcknowledgedSeq() < min {
			min = gs[1].AcknowledgedSeq()
		}
		verifAssert(qa == min || min < qa0 || min < 0, "sync moves the queue position to the smallest group acknowledgement")
	case 3: // append
		err := fq.Queue().Put([]byte{1, 2, 3})
		verifAssert(err == nil, "append succeeds")
		verifAssert(fq.Queue().AppendedSeq() == appended+1, "append advances the appended position by one")
	case 4: // stop the other group, then sync: only existing groups hold the queue back
		fq.StopConsumerGroup(names[1])
		fq.Sync()
		qa := fq.Queue().AcknowledgedSeq()
		verifAssert(qa >= qa0 && qa <= g.AcknowledgedSeq(), "after a stop the queue follows the remaining group")
	case 5: // create a new group
		ng, err := fq.GetOrCreateConsumerGroup("g2")
		verifAssert(err == nil && ng != nil, "create group")
		if ng != nil {
			verifGroupInvariant(fq, ng, "new group")
			// (FanOutQueue.GetOrCreateConsumerGroup: "creates a new ConsumerGroup with consume seq and ack seq == queue ack seq")
			verifAssert(ng.AcknowledgedSeq() >= fq.Queue().AcknowledgedSeq(), "a new group never starts below the queue's acknowledged position")
			// what it is handed next is a message that can still be read (messages at or below the queue's
			// acknowledged position may already be collected)
			if s := ng.(*consumerGroup).consume(); s != SeqNoNewMessageAvailable {
				verifAssert(s > fq.Queue().AcknowledgedSeq() && s <= fq.Queue().AppendedSeq(), "the first sequence a new group is handed lies in the readable range (above the queue's acknowledged position)")
			}
		}
	case 6: // gc removes only pages below the page of the queue's acknowledged position
		fs := verifCurrentFS
		fq.Queue().GC()
		if fs != nil && qa0 >= 0 {
			for _, t := range fs.truncated {
				if t.path == filepath.Join(dir, indexPath) {
					verifAssert(t.index == qa0/indexItemsPerPage, "gc truncates index pages strictly below the acknowledged entry's page")
				}
			}
		}
		if fs != nil && qa0 < 0 {
			verifAssert(len(fs.truncated) == 0, "gc does nothing before the first acknowledgement")
		}
	}
	for i := range gs {
		if i == 1 && len(fq.ConsumerGroupNames()) == 1 {
			continue
		}
		verifGroupInvariant(fq, gs[i], "step")
	}
	verifQueueInvariant(fq, "step")
	if op != 8 {
		verifAssert(fq.Queue().AcknowledgedSeq() >= qa0, "queue acknowledged position is monotone")
	}
	// all positions survive close and reopen
	gc1, ga1 := g.ConsumedSeq(), g.AcknowledgedSeq()
	qa1, qp1 := fq.Queue().AcknowledgedSeq(), fq.Queue().AppendedSeq()
	fq.Close()
	fq2, err := NewFanOutQueue(dir, 0)
	verifAssert(err == nil, "reopen after the step succeeds")
	if err == nil {
		verifAssert(fq2.Queue().AcknowledgedSeq() == qa1 && fq2.Queue().AppendedSeq() == qp1, "the queue's positions survive close and reopen")
		g2, _ := fq2.GetOrCreateConsumerGroup(names[0])
		verifAssert(g2.ConsumedSeq() == gc1 && g2.AcknowledgedSeq() == ga1, "the group's positions survive close and reopen")
		fq2.Close()
	}
	verifReach("end")
}

func verifC06Reach() {
	dir := verifQueueDir()
	appended := verifRange("appended", 0, 200000)
	verifWriteQueueImage(dir, appended, -1)
	c := verifRange("consumed", -1, 200000)
	verifAssume(c <= appended)
	verifWriteGroupImage(dir, "g0", c, -1)
	fq, _ := NewFanOutQueue(dir, 0)
	g, _ := fq.GetOrCreateConsumerGroup("g0")
	s := g.consume()
	verifObserve("consume", appended, c, s, g.ConsumedSeq())
	verifAssert(s != 7, "reach")
	fq.Close()
}

func verifC06Debug() {
	dir := verifQueueDir()
	appended := verifRange("appended", 0, 200000)
	verifWriteQueueImage(dir, appended, -1)
	ex := verifStubExist(filepath.Join(dir, metaPath, "0.bat"))
	fct, _ := newPageFactoryFunc(filepath.Join(dir, metaPath), metaPageSize)
	p, _ := fct.AcquirePage(metaPageIndex)
	v := p.ReadUint64(queueAppendedSeqOffset)
	_ = fct.Close()
	fq, err := NewFanOutQueue(dir, 0)
	qq := fq.Queue().(*queue)
	verifObserve("dbg", ex, v, appended, err == nil, fq.Queue().AppendedSeq(), fq.Queue().AcknowledgedSeq(), qq.messageOffset, qq.dataPageIndex)
	verifAssert(appended != 5, "reach")
}
