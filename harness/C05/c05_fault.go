package queue

import (
	"os"
	"path/filepath"
	"strconv"
)

// C05 with a transient fault: the append that needs a NEW page (the next index page because the
// current one is full, or the next data page because the message does not fit) fails once to acquire
// it - that append returns an error and changes nothing observable; the fault ends, the writer
// appends again and succeeds: the message reads back under its sequence, earlier messages are
// untouched, everything survives close and reopen. (Natively the fault is a directory standing where
// the page file should be created.)
func verifC05AcquireFault() {
	dir := verifQueueDir5()
	which := verifChoose("newPageNeeded", 2) // 0: the next index page, 1: the next data page
	appended := int64(indexItemsPerPage - 1)
	offset := verifRange("offset", 0, 1000)
	wlen := int64(2)
	if which == 1 {
		appended = verifRange("appended", 0, 200000)
		offset = dataPageSize - 3 // a message of 2 bytes is there, 1 byte is left: the next one does not fit
	}
	witness := verifSymBytes("witness", int(wlen))
	verifWriteQueueState(dir, appended, appended-1, 0, offset, wlen, witness)
	q, err := NewQueue(dir, 0)
	verifAssert(err == nil, "open succeeds")
	if err != nil {
		return
	}
	var faulty string
	if which == 0 {
		faulty = filepath.Join(dir, indexPath, strconv.Itoa(1)+".bat")
	} else {
		faulty = filepath.Join(dir, dataPath, strconv.Itoa(1)+".bat")
	}
	if verifCurrentFS != nil {
		verifCurrentFS.failAcquire = faulty
	} else {
		_ = os.MkdirAll(faulty, 0o755)
	}
	msg := verifSymBytes("msg", 3)
	err = q.Put(msg)
	verifAssert(err != nil, "the append that cannot get its page reports the failure")
	verifAssert(q.AppendedSeq() == appended, "a failed append does not advance the appended position")
	w, gerr := q.Get(appended)
	verifAssert(gerr == nil && verifSameBytes(w, witness), "a failed append leaves the earlier message intact")
	// the fault ends
	if verifCurrentFS != nil {
		verifCurrentFS.failAcquire = ""
	} else {
		_ = os.Remove(faulty)
	}
	err = q.Put(msg)
	verifAssert(err == nil, "the append succeeds once the fault is gone")
	verifAssert(q.AppendedSeq() == appended+1, "sequence numbers grow by one per successful append")
	got, gerr := q.Get(appended + 1)
	verifAssert(gerr == nil && verifSameBytes(got, msg), "the message reads back under its sequence byte for byte")
	w, gerr = q.Get(appended)
	verifAssert(gerr == nil && verifSameBytes(w, witness), "a later append never alters an earlier message")
	msg2 := verifSymBytes("msg2", 2)
	verifAssert(q.Put(msg2) == nil, "a further append succeeds")
	got2, gerr := q.Get(appended + 2)
	verifAssert(gerr == nil && verifSameBytes(got2, msg2), "the further message reads back under its sequence")
	q.Close()
	q3, err := NewQueue(dir, 0)
	verifAssert(err == nil && q3.AppendedSeq() == appended+2, "positions survive close and reopen")
	if err != nil {
		return
	}
	got, gerr = q3.Get(appended + 1)
	verifAssert(gerr == nil && verifSameBytes(got, msg), "the message survives close and reopen")
	w, gerr = q3.Get(appended)
	verifAssert(gerr == nil && verifSameBytes(w, witness), "the earlier message survives close and reopen")
	msg3 := verifSymBytes("msg3", 2)
	verifAssert(q3.Put(msg3) == nil, "append after reopen succeeds")
	got, gerr = q3.Get(appended + 1)
	verifAssert(gerr == nil && verifSameBytes(got, msg), "append after reopen leaves the message intact")
	got2, gerr = q3.Get(appended + 2)
	verifAssert(gerr == nil && verifSameBytes(got2, msg2), "append after reopen leaves the further message intact")
	verifReach("end")
}
