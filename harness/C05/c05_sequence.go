package queue

// C05 thorough: three appends in a row from an arbitrary persisted state, each of them plain, or
// after a clean close and reopen, or with the process dying before any one store of the append
// (followed by a reopen on what reached the pages). Whatever the history: sequence numbers grow by
// one per published append, every published message reads back byte for byte at the end, the
// placements (index entries) are in ascending order without overlap and never split over a page,
// and the message that was there before is untouched.
func verifC05Sequence() {
	dir := verifQueueDir5()
	var appended int64
	switch verifChoose("appendedCase", 3) {
	case 0:
		appended = verifRange("appended", 0, 200000)
	case 1:
		appended = indexItemsPerPage - 2 // the second append switches the index page
	default:
		appended = indexItemsPerPage - 1
	}
	const wlen = 2
	offset := verifRange("offset", 0, dataPageSize)
	verifAssume(offset+wlen <= dataPageSize)
	witness := verifSymBytes("witness", wlen)
	verifWriteQueueState(dir, appended, appended-1, 0, offset, wlen, witness)
	q, err := NewQueue(dir, 0)
	verifAssert(err == nil, "open succeeds")
	if err != nil {
		return
	}
	cur := appended
	var msgs [][]byte
	var seqs []int64
	lens := []int{0, 2, 5}
	for i := 0; i < 3; i++ {
		msg := verifSymBytes("msg", lens[verifChoose("msgLen", len(lens))])
		how := verifChoose("how", 8) // 0: plain; 1: close and reopen first; 2..7: the process dies before store how-2 of this append
		if how == 1 {
			q.Close()
			q, err = NewQueue(dir, 0)
			verifAssert(err == nil && q.AppendedSeq() == cur, "positions survive close and reopen")
			if err != nil {
				return
			}
		}
		if how >= 2 && verifCurrentFS != nil {
			verifCurrentFS.ops = 0
			verifCurrentFS.crashAt = how - 2
		}
		verifAssert(q.Put(msg) == nil, "append succeeds")
		if how >= 2 {
			if verifCurrentFS != nil {
				verifCurrentFS.crashAt = -1
			}
			q, err = NewQueue(dir, 0)
			verifAssert(err == nil, "reopen after the crash succeeds")
			if err != nil {
				return
			}
			a := q.AppendedSeq()
			verifAssert(a == cur || a == cur+1, "after a crash the append is entirely there or not at all")
			if a != cur+1 {
				continue
			}
		} else {
			verifAssert(q.AppendedSeq() == cur+1, "sequence numbers grow by one per append")
		}
		cur++
		msgs = append(msgs, msg)
		seqs = append(seqs, cur)
	}
	qq := q.(*queue)
	prevPage, prevEnd := int64(0), offset+wlen
	for i, seq := range seqs {
		ip, ok := qq.indexPageFct.GetPage(seq / indexItemsPerPage)
		verifAssert(ok, "the index page of a published message exists")
		if !ok {
			return
		}
		io := int((seq % indexItemsPerPage) * indexItemLength)
		np := int64(ip.ReadUint64(io + queueDataPageIndexOffset))
		no := int64(ip.ReadUint32(io + messageOffsetOffset))
		nl := int64(ip.ReadUint32(io + messageLengthOffset))
		verifAssert(nl == int64(len(msgs[i])), "the index entry carries the message length")
		verifAssert(np > prevPage || (np == prevPage && no >= prevEnd), "messages are placed in ascending order without overlap")
		verifAssert(no+nl <= dataPageSize, "a message is never split over two pages")
		prevPage, prevEnd = np, no+nl
		got, err := q.Get(seq)
		verifAssert(err == nil && verifSameBytes(got, msgs[i]), "every published message reads back byte for byte")
	}
	w, err := q.Get(appended)
	verifAssert(err == nil && verifSameBytes(w, witness), "later appends never alter an earlier message")
	verifReach("end")
}
