package queue

import (
	"os"
	"path/filepath"
)

func verifQueueDir5() string {
	if verifIsSymbolic() {
		verifInstallFS()
		return "/q"
	}
	d, err := os.MkdirTemp("", "verif-queue-")
	if err != nil {
		panic(err)
	}
	return d
}

// persisted image of a queue whose last appended message `appended` lies at (page, offset, length)
func verifWriteQueueState(dir string, appended, acked, pageID, offset, length int64, witness []byte) {
	fct, _ := newPageFactoryFunc(filepath.Join(dir, metaPath), metaPageSize)
	p, _ := fct.AcquirePage(metaPageIndex)
	p.PutUint64(uint64(appended), queueAppendedSeqOffset)
	p.PutUint64(uint64(acked), queueAcknowledgedSeqOffset)
	_ = p.Sync()
	_ = fct.Close()
	ifct, _ := newPageFactoryFunc(filepath.Join(dir, indexPath), indexPageSize)
	ip, _ := ifct.AcquirePage(appended / indexItemsPerPage)
	off := int((appended % indexItemsPerPage) * indexItemLength)
	ip.PutUint64(uint64(pageID), off+queueDataPageIndexOffset)
	ip.PutUint32(uint32(offset), off+messageOffsetOffset)
	ip.PutUint32(uint32(length), off+messageLengthOffset)
	_ = ip.Sync()
	_ = ifct.Close()
	dfct, _ := newPageFactoryFunc(filepath.Join(dir, dataPath), dataPageSize)
	dp, _ := dfct.AcquirePage(pageID)
	if len(witness) > 0 {
		dp.WriteBytes(witness, int(offset))
	}
	_ = dp.Sync()
	_ = dfct.Close()
}

func verifSameBytes(a, b []byte) bool {
	if len(a) != len(b) {
		return false
	}
	for i := range a {
		if a[i] != b[i] {
			return false
		}
	}
	return true
}

// C05 inductive step: from an arbitrary persisted state (last message anywhere in its data page,
// including right at the page end) a reopened queue appends one message: the sequence grows by
// one, the message reads back byte for byte, it never overlaps the previous message, a roll-over
// never splits it, and the previous message is untouched. With a crash point: the process dies
// before any one of the stores of the append; after reopening the queue shows either the old
// state or the complete new message.
func verifC05Append() {
	dir := verifQueueDir5()
	// the appended sequence: a case split over values around the index-page boundaries (an index
	// page holds 262144 entries), or - case 0 - any value inside the first index page
	var appended int64
	switch verifChoose("appendedCase", 6) {
	case 0:
		appended = verifRange("appended", 0, 200000)
	case 1:
		appended = indexItemsPerPage - 2
	case 2:
		appended = indexItemsPerPage - 1 // the index page is exactly full
	case 3:
		appended = indexItemsPerPage
	case 4:
		appended = 2*indexItemsPerPage - 1
	default:
		appended = 0
	}
	pageID := int64(verifChoose("dataPage", 2)) * 2
	wlen := int64(verifChoose("witnessLen", 3))
	offset := verifRange("offset", 0, dataPageSize)
	verifAssume(offset+wlen <= dataPageSize)
	witness := verifSymBytes("witness", int(wlen))
	verifWriteQueueState(dir, appended, appended-1, pageID, offset, wlen, witness)

	crash := -1
	if verifIsSymbolic() {
		crash = verifChoose("crashBeforeStore", 7) - 1 // -1: no crash; 0..5: die before that store of the append
	} else {
		_ = verifChoose("crashBeforeStore", 7)
	}
	q, err := NewQueue(dir, 0)
	verifAssert(err == nil, "open succeeds")
	if err != nil {
		return
	}
	verifAssert(q.AppendedSeq() == appended, "appended position survives reopen")
	mlen := verifChoose("msgLen", 4)
	msg := verifSymBytes("msg", mlen)
	if verifCurrentFS != nil && crash >= 0 {
		verifCurrentFS.ops = 0
		verifCurrentFS.crashAt = crash
	}
	err = q.Put(msg)
	verifAssert(err == nil, "append succeeds")
	if crash >= 0 {
		// process died: reopen on what reached the pages
		verifCurrentFS.crashAt = -1
		q2, err := NewQueue(dir, 0)
		verifAssert(err == nil, "reopen after the crash succeeds")
		if err != nil {
			return
		}
		a := q2.AppendedSeq()
		verifAssert(a == appended || a == appended+1, "after a crash the append is entirely there or not at all")
		if a == appended+1 {
			got, err := q2.Get(a)
			verifAssert(err == nil && verifSameBytes(got, msg), "a published message reads back byte for byte after the crash")
		}
		w, err := q2.Get(appended)
		verifAssert(err == nil && verifSameBytes(w, witness), "the earlier message is untouched after the crash")
		// a further append does not disturb what is readable
		msg2 := verifSymBytes("msg2", 2)
		verifAssert(q2.Put(msg2) == nil, "append after recovery succeeds")
		got2, err := q2.Get(q2.AppendedSeq())
		verifAssert(err == nil && verifSameBytes(got2, msg2), "append after recovery reads back")
		w, err = q2.Get(appended)
		verifAssert(err == nil && verifSameBytes(w, witness), "append after recovery leaves the earlier message intact")
		if a == appended+1 {
			got, err := q2.Get(a)
			verifAssert(err == nil && verifSameBytes(got, msg), "append after recovery leaves the recovered message intact")
		}
		verifReach("end")
		return
	}
	verifAssert(q.AppendedSeq() == appended+1, "sequence numbers grow by one per append")
	// where the message was placed (its index entry): never on an earlier page, never on top of bytes
	// that lie before the previous message's end (they belong to earlier messages), never split
	{
		qq := q.(*queue)
		seq := appended + 1
		ip, ok := qq.indexPageFct.GetPage(seq / indexItemsPerPage)
		verifAssert(ok, "the index page of the new message exists")
		if ok {
			io := int((seq % indexItemsPerPage) * indexItemLength)
			np := int64(ip.ReadUint64(io + queueDataPageIndexOffset))
			no := int64(ip.ReadUint32(io + messageOffsetOffset))
			nl := int64(ip.ReadUint32(io + messageLengthOffset))
			verifAssert(nl == int64(mlen), "the index entry carries the message length")
			verifAssert(np >= pageID, "the message is not placed on an earlier data page")
			verifAssert(np != pageID || no >= offset+wlen, "on the page of the previous message it starts at or behind that message's end (earlier bytes belong to earlier messages)")
			verifAssert(no+nl <= dataPageSize, "a message is never split over two pages")
		}
	}
	got, err := q.Get(appended + 1)
	verifAssert(err == nil && verifSameBytes(got, msg), "the message reads back under its sequence byte for byte")
	w, err := q.Get(appended)
	verifAssert(err == nil && verifSameBytes(w, witness), "a later append never alters an earlier message")
	// after a clean close and reopen everything is still there, and a further append lands after it
	q.Close()
	q3, err := NewQueue(dir, 0)
	verifAssert(err == nil && q3.AppendedSeq() == appended+1, "positions survive close and reopen")
	if err != nil {
		return
	}
	msg2 := verifSymBytes("msg2", 2)
	verifAssert(q3.Put(msg2) == nil, "append after reopen succeeds")
	got, err = q3.Get(appended + 1)
	verifAssert(err == nil && verifSameBytes(got, msg), "append after reopen leaves the message intact")
	got2, err := q3.Get(appended + 2)
	verifAssert(err == nil && verifSameBytes(got2, msg2), "append after reopen reads back")
	w, err = q3.Get(appended)
	verifAssert(err == nil && verifSameBytes(w, witness), "append after reopen leaves the earlier message intact")
	verifReach("end")
}

func verifC05Reach() {
	dir := verifQueueDir5()
	appended := verifRange("appended", 0, 200000)
	offset := verifRange("offset", 0, dataPageSize-8)
	verifWriteQueueState(dir, appended, appended-1, 0, offset, 2, verifSymBytes("witness", 2))
	q, _ := NewQueue(dir, 0)
	msg := verifSymBytes("msg", 3)
	_ = q.Put(msg)
	got, _ := q.Get(appended + 1)
	qq := q.(*queue)
	verifObserve("put", appended, offset, q.AppendedSeq(), len(got), got[0], msg[0], qq.messageOffset)
	verifAssert(offset != 77, "reach")
}
