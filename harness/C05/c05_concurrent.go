package queue

// C05 (concurrent appenders): two writers append at the same time (partition.WriteLog takes no lock
// around queue.Put); every interleaving at the queue's lock operations within the pre-emption bound;
// then the queue is closed and reopened and a further message is appended. Every append that
// returned success reads back byte for byte under a sequence of its own - before and after the
// reopen and after the further append.
// thorough: the same threads under pre-emption bound 3 (time-boxed)
func verifC05Concurrent3() { verifC05Concurrent() }

func verifC05Concurrent() {
	dir := verifQueueDir5()
	witness := verifSymBytes("witness", 2)
	verifWriteQueueState(dir, 5, 4, 0, 10, 2, witness)
	q, err := NewQueue(dir, 0)
	verifAssert(err == nil, "open succeeds")
	if err != nil {
		return
	}
	a := verifSymBytes("a", 3)
	b := verifSymBytes("b", 2)
	var errA, errB error
	verifSpawn(func() { errA = q.Put(a) })
	verifSpawn(func() { errB = q.Put(b) })
	verifJoinAll()
	verifAssert(errA == nil && errB == nil, "both appends succeed")
	verifAssert(q.AppendedSeq() == 7, "sequence numbers grow by one per append")
	check := func(qq Queue, when string) {
		m6, err6 := qq.Get(6)
		m7, err7 := qq.Get(7)
		verifAssert(err6 == nil && err7 == nil, "both messages are readable "+when)
		if err6 != nil || err7 != nil {
			return
		}
		// the two messages have different lengths: each sequence holds one of them, entirely
		verifAssert(len(m6)+len(m7) == 5 && len(m6) != len(m7), "each sequence holds one of the two messages "+when)
		for _, m := range [][]byte{m6, m7} {
			if len(m) == 3 {
				verifAssert(m[0] == a[0] && m[1] == a[1] && m[2] == a[2], "the three-byte message reads back byte for byte "+when)
			}
			if len(m) == 2 {
				verifAssert(m[0] == b[0] && m[1] == b[1], "the two-byte message reads back byte for byte "+when)
			}
		}
		w, errw := qq.Get(5)
		verifAssert(errw == nil && len(w) == 2 && w[0] == witness[0] && w[1] == witness[1], "the earlier message is untouched "+when)
	}
	check(q, "after the appends")
	q.Close()
	q2, err := NewQueue(dir, 0)
	verifAssert(err == nil, "reopen succeeds")
	if err != nil {
		return
	}
	verifAssert(q2.AppendedSeq() == 7, "the appended position survives the reopen")
	check(q2, "after the reopen")
	c := verifSymBytes("c", 4)
	verifAssert(q2.Put(c) == nil, "append after the reopen succeeds")
	m8, err8 := q2.Get(8)
	verifAssert(err8 == nil && len(m8) == 4 && m8[0] == c[0] && m8[3] == c[3], "the new message reads back")
	check(q2, "after a further append")
	verifReach("end")
}
