package VERIFPKG

import "time"

const verifMaxTS = 4102444800000 // 2100-01-01T00:00:00Z in ms

var verifZoneSec int64

// verifZone installs a fixed-offset local zone with an arbitrary offset (a multiple of 15 minutes
// in [-12h, +14h]) and returns the offset in milliseconds.
func verifZone() int64 {
	q := verifRange("zoneQuarterHours", -48, 56)
	off := int(q) * 900
	time.Local = time.FixedZone("verif", off)
	verifZoneSec = int64(off)
	return int64(off) * 1000
}

func verifIsLeap(y int64) bool { return y%4 == 0 && (y%100 != 0 || y%400 == 0) }

// verifDaysBeforeYear is the number of days from 1970-01-01 to y-01-01 (proleptic Gregorian).
func verifDaysBeforeYear(y int64) int64 {
	var d int64
	for i := int64(1970); i < y; i++ {
		d += 365
		if verifIsLeap(i) {
			d++
		}
	}
	return d
}

// verifLocalTime is a timestamp given by its local civil coordinates (the reference model).
type verifLocalTime struct {
	year, month  int64 // concrete on every path (the partition); month is 0-based
	monthLen     int64 // days of that month
	dayOfMonth   int64 // 0-based; symbolic, or concrete when concreteDay was requested
	secOfDay, ms int64 // symbolic
	dayNumber    int64 // days since 1970-01-01 (local)
	monthStart   int64 // day number of the first day of the month
	t            int64 // the UTC millisecond timestamp
}

// verifTimestamp returns an arbitrary millisecond timestamp t >= 0 whose LOCAL civil date (in the
// zone installed by verifZone) lies in [1970-01-02, 2100-01-01). The window is partitioned by local
// year and month – and by day of the month if concreteDay – with one path per cell (the engine's
// case split); inside a cell the remaining coordinates are symbolic. The partition is exhaustive:
// D(1970)=0, D(y+1)=D(y)+len(y) by construction, D(2100) days = verifMaxTS and the months of a year
// add up to its length (both asserted). Quick tier: a fixed selection of years; thorough: all 130.
func verifTimestamp(tag string, concreteDay bool) verifLocalTime {
	verifAssert(verifDaysBeforeYear(2100)*86400000 == verifMaxTS, "partition covers the window")
	var lt verifLocalTime
	if verifThorough() {
		lt.year = 1970 + int64(verifChoose(tag+".year", 130))
	} else {
		years := []int64{1970, 1971, 1972, 1999, 2000, 2001, 2024, 2038, 2096, 2099}
		if concreteDay {
			years = []int64{2000, 2099} // a leap year under the 400-year rule; the last year of the window
		}
		lt.year = years[verifChoose(tag+".year", len(years))]
	}
	mlen := []int64{31, 28, 31, 30, 31, 30, 31, 31, 30, 31, 30, 31}
	if verifIsLeap(lt.year) {
		mlen[1] = 29
	}
	var total int64
	for i := 0; i < 12; i++ {
		total += mlen[i]
	}
	verifAssert(total == 365 || (verifIsLeap(lt.year) && total == 366), "months add up to the year")
	m := verifChoose(tag+".month", 12)
	lt.month = int64(m)
	lt.monthLen = mlen[m]
	var before int64
	for i := 0; i < m; i++ {
		before += mlen[i]
	}
	first := int64(0)
	if lt.year == 1970 && m == 0 {
		first = 1 // the window starts at local 1970-01-02, so that t >= 0 in every zone
	}
	if concreteDay {
		lt.dayOfMonth = first + int64(verifChoose(tag+".dom", int(mlen[m]-first)))
	} else {
		lt.dayOfMonth = verifRange(tag+".dom", first, mlen[m]-1)
	}
	lt.secOfDay = verifRange(tag+".localsec", 0, 86399)
	lt.ms = verifRange(tag+".ms", 0, 999)
	lt.monthStart = verifDaysBeforeYear(lt.year) + before
	lt.dayNumber = lt.monthStart + lt.dayOfMonth
	lt.t = (lt.dayNumber*86400+lt.secOfDay-verifZoneSec)*1000 + lt.ms
	verifAssume(lt.t >= 0)
	return lt
}

// local midnight of a day number, as a UTC millisecond timestamp
func verifMidnight(dayNumber int64) int64 { return (dayNumber*86400 - verifZoneSec) * 1000 }
