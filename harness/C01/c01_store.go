package kv

import (
	"os"
	"path/filepath"

	"github.com/lindb/lindb/kv/table"
	"github.com/lindb/lindb/kv/version"
	"github.com/lindb/lindb/pkg/lockers"
	"github.com/lindb/lindb/pkg/timeutil"
)

// C01 (create-family / reopen histories at the store level): the real newStore (OPTIONS handling,
// rebuilding the family-id allocator from the recovered families, opening the existing families)
// and the real store.CreateFamily over two or three sessions, each creating zero to two families
// with a close and reopen between the sessions. The OPTIONS file is an in-memory copy behind the
// toml seams, the version set a recorder. Across the whole history every family has its own id, a
// family keeps its id over every reopen, and the version set is told exactly those (name, id) pairs:
// manifest records are keyed by family id, so two families sharing one would read each other's
// tables after the next recovery.

type verifStoreVS struct {
	version.StoreVersionSet
	created map[string]version.FamilyID
}

type verifStoreFV struct{ version.FamilyVersion }

func (verifStoreFV) GetAllActiveFiles() []*version.FileMeta { return nil }
func (verifStoreFV) GetLiveRollupFiles() map[table.FileNumber][]timeutil.Interval {
	return nil
}

func (v *verifStoreVS) Recover() error                       { return nil }
func (v *verifStoreVS) Destroy() error                       { return nil }
func (v *verifStoreVS) ManifestFileNumber() table.FileNumber { return 1 }
func (v *verifStoreVS) CreateFamilyVersion(family string, id version.FamilyID) version.FamilyVersion {
	v.created[family] = id
	return verifStoreFV{}
}

type verifStoreLock struct{ lockers.FileLock }

func (verifStoreLock) Lock() error   { return nil }
func (verifStoreLock) Unlock() error { return nil }

var verifStoreOptions *storeInfo // the OPTIONS file
var verifStoreDirs map[string]bool

func verifStoreExist(name string) bool {
	if filepath.Base(name) == version.Options {
		return verifStoreOptions != nil
	}
	return verifStoreDirs[name]
}

func verifStoreCopy(in *storeInfo) *storeInfo {
	out := &storeInfo{StoreOption: in.StoreOption, Families: map[string]FamilyOption{}}
	for k, v := range in.Families {
		out.Families[k] = v
	}
	return out
}

func verifC01StoreFamilies() {
	verifStoreOptions, verifStoreDirs = nil, map[string]bool{}
	if _, ok := mergers["verifMerger"]; !ok {
		RegisterMerger("verifMerger", func(Flusher) (Merger, error) { return nil, nil })
	}
	path := "/store"
	if verifIsSymbolic() {
		// the OPTIONS file and the directories are in memory (natively: a real temporary directory,
		// the real toml encoding and the real file lock)
		encodeTomlFunc = func(_ string, v interface{}) error {
			verifStoreOptions = verifStoreCopy(v.(*storeInfo))
			return nil
		}
		decodeTomlFunc = func(_ string, v interface{}) error {
			c := verifStoreCopy(verifStoreOptions)
			*(v.(*storeInfo)) = *c
			return nil
		}
		mkDirFunc = func(p string) error { verifStoreDirs[p] = true; return nil }
		listDirFunc = func(string) ([]string, error) { return nil, nil }
		newFileLockFunc = func(string) (lockers.FileLock, error) { return verifStoreLock{}, nil }
	} else {
		d, err := os.MkdirTemp("", "verif-store-")
		if err != nil {
			panic(err)
		}
		path = d
	}
	var vs *verifStoreVS
	newVersionSetFunc = func(string, table.Cache, int) version.StoreVersionSet {
		vs = &verifStoreVS{created: map[string]version.FamilyID{}}
		return vs
	}
	names := []string{"a", "b", "c", "d", "e", "f"}
	next := 0
	ids := map[string]int{}
	sessions := 2 + verifChoose("sessions", 2)
	for s := 0; s < sessions; s++ {
		st, err := newStore("verif", path, StoreOption{Levels: 2})
		verifAssert(err == nil, "the store opens")
		if err != nil {
			return
		}
		// every family known so far is opened again under its id
		for name, id := range ids {
			fam := st.GetFamily(name)
			verifAssert(fam != nil, "a family created earlier exists after reopen")
			if fam != nil {
				verifAssert(int(fam.ID()) == id, "a family keeps its id over a reopen")
			}
			verifAssert(int(vs.created[name]) == id, "the version set is given the family under its own id")
		}
		n := verifChoose("familiesCreatedInSession", 3)
		for i := 0; i < n; i++ {
			name := names[next]
			next++
			fam, err := st.CreateFamily(name, FamilyOption{Merger: "verifMerger"})
			verifAssert(err == nil && fam != nil, "a family is created")
			if fam == nil {
				return
			}
			for other, id := range ids {
				verifAssert(int(fam.ID()) != id || other == name, "two families of a store never share an id")
			}
			ids[name] = int(fam.ID())
			verifAssert(int(vs.created[name]) == ids[name], "the version set is given the new family under its own id")
		}
		verifAssert(st.(*store).close() == nil, "the store closes")
	}
	verifReach("end")
}
