package version

import (
	"errors"
	"io"
	"os"
	"path/filepath"
	"sort"

	"github.com/lindb/lindb/kv/table"
	"github.com/lindb/lindb/pkg/bufioutil"
)

// In-memory file system behind the seams of kv/version (writeFileFunc, readFileFunc, renameFunc,
// newBufferWriterFunc, newBufferReaderFunc; fileutil.Exist through a stub). One file-system
// operation = one call (create, write+sync of the buffered records, write-file, rename); a crash
// index makes operation number c and everything after it a no-op ("process killed between operation
// c-1 and c"); buffered, un-synced records die with the process.

type verifFS struct {
	files   map[string][]byte
	ops     int
	crashAt int
	// tornAt >= 0: the process dies INSIDE the write operation number crashAt (a multi-page write can be
	// cut short by a fatal signal): only the first tornAt bytes of that write reach the file
	tornAt  int
	tornLen int // length of the write that was cut (0: no write was cut)
}

var verifFSys *verifFS

func (fs *verifFS) step() bool {
	if fs.crashAt >= 0 && fs.ops >= fs.crashAt {
		return false
	}
	fs.ops++
	return true
}

type verifEntryWriter struct {
	fs      *verifFS
	name    string
	pending []byte
	size    int64
}

// the record framing of bufioutil's entry writer: uvarint length, then the content
func (w *verifEntryWriter) Write(content []byte) (int, error) {
	n := uint64(len(content))
	for n >= 0x80 {
		w.pending = append(w.pending, byte(n)|0x80)
		n >>= 7
	}
	w.pending = append(w.pending, byte(n))
	w.pending = append(w.pending, content...)
	w.size += int64(len(content))
	return len(content), nil
}
func (w *verifEntryWriter) Sync() error {
	if len(w.pending) == 0 {
		return nil
	}
	if w.fs.step() {
		w.fs.files[w.name] = append(w.fs.files[w.name], w.pending...)
	} else if w.fs.tornAt >= 0 && w.fs.ops == w.fs.crashAt {
		k := w.fs.tornAt
		if k > len(w.pending) {
			k = len(w.pending)
		}
		w.fs.files[w.name] = append(w.fs.files[w.name], w.pending[:k]...)
		w.fs.tornAt = -1
		w.fs.tornLen = len(w.pending)
	}
	w.pending = nil
	return nil
}
func (w *verifEntryWriter) Flush() error                { return w.Sync() }
func (w *verifEntryWriter) Close() error                { return w.Sync() }
func (w *verifEntryWriter) Size() int64                 { return w.size }
func (w *verifEntryWriter) Reset(fileName string) error { return errors.New("not modelled") }

type verifEntryReader struct {
	data []byte
	pos  int
	rec  []byte
	err  error
}

func (r *verifEntryReader) Next() bool {
	// mirrors bufioEntryReader.Next (contract: verifC01Framing in pkg/bufioutil): clean EOF at a record
	// boundary or right behind a length prefix, unexpected EOF inside a prefix or inside the content
	if r.pos >= len(r.data) {
		return false
	}
	var n uint64
	var shift uint
	for {
		if r.pos >= len(r.data) {
			r.err = io.ErrUnexpectedEOF
			return true
		}
		b := r.data[r.pos]
		r.pos++
		n |= uint64(b&0x7f) << shift
		if b < 0x80 {
			break
		}
		shift += 7
	}
	if n > 0 && r.pos >= len(r.data) {
		return false
	}
	if r.pos+int(n) > len(r.data) {
		r.err = io.ErrUnexpectedEOF
		r.pos = len(r.data)
		return true
	}
	r.rec = r.data[r.pos : r.pos+int(n)]
	r.pos += int(n)
	return true
}
func (r *verifEntryReader) Read() ([]byte, error) { return r.rec, r.err }
func (r *verifEntryReader) Count() int64          { return 0 }
func (r *verifEntryReader) Size() (int64, error)  { return int64(len(r.data)), nil }
func (r *verifEntryReader) Reset(string) error    { return errors.New("not modelled") }
func (r *verifEntryReader) Close() error          { return nil }

func verifStubExist(name string) bool {
	_, ok := verifFSys.files[name]
	return ok
}

func verifInstallFS() *verifFS {
	fs := &verifFS{files: map[string][]byte{}, crashAt: -1, tornAt: -1}
	verifFSys = fs
	writeFileFunc = func(name string, data []byte, _ os.FileMode) error {
		if fs.step() {
			fs.files[name] = append([]byte{}, data...)
		}
		return nil
	}
	readFileFunc = func(name string) ([]byte, error) {
		d, ok := fs.files[name]
		if !ok {
			return nil, os.ErrNotExist
		}
		return d, nil
	}
	renameFunc = func(from, to string) error {
		if fs.step() {
			fs.files[to] = fs.files[from]
			delete(fs.files, from)
			if !verifIsSymbolic() {
				// natively fileutil.Exist looks at the real file system: mirror the CURRENT file there
				_ = os.MkdirAll(filepath.Dir(to), 0o755)
				_ = os.WriteFile(to, fs.files[to], 0o644)
			}
		}
		return nil
	}
	newBufferWriterFunc = func(name string) (bufioutil.BufioWriter, error) {
		if fs.step() {
			fs.files[name] = nil // create / truncate
		}
		return &verifEntryWriter{fs: fs, name: name}, nil
	}
	newBufferReaderFunc = func(name string) (bufioutil.BufioEntryReader, error) {
		d, ok := fs.files[name]
		if !ok {
			return nil, os.ErrNotExist
		}
		return &verifEntryReader{data: d}, nil
	}
	return fs
}

// ---- the reference state of one family

type verifFileRec struct {
	level           int
	number          table.FileNumber
	min, max, size  uint32
}

type verifState struct {
	files []verifFileRec
	seq   int64
	hasSeq bool
}

func (s verifState) clone() verifState {
	return verifState{files: append([]verifFileRec{}, s.files...), seq: s.seq, hasSeq: s.hasSeq}
}

// the reader cache is not the subject here
type verifCache struct{ table.Cache }

func (verifCache) ReleaseReaders(readers []table.Reader) {}
func (verifCache) Evict(fileName string)                 {}
func (verifCache) Cleanup()                              {}
func (verifCache) Close() error                          { return nil }

func verifOpen(dir string) (StoreVersionSet, FamilyVersion, error) {
	vs := NewStoreVersionSet(dir, verifCache{}, 2)
	fv := vs.CreateFamilyVersion("f", 1)
	err := vs.Recover()
	return vs, fv, err
}

func verifMatches(fv FamilyVersion, want verifState) bool {
	snap := fv.GetSnapshot()
	defer snap.Close()
	cur := snap.GetCurrent()
	var got []verifFileRec
	for lvl := 0; lvl < 2; lvl++ {
		for _, f := range cur.GetFiles(lvl) {
			got = append(got, verifFileRec{lvl, f.GetFileNumber(), f.GetMinKey(), f.GetMaxKey(), uint32(f.GetFileSize())})
		}
	}
	if len(got) != len(want.files) {
		return false
	}
	sort.Slice(got, func(i, j int) bool { return got[i].number < got[j].number })
	w := append([]verifFileRec{}, want.files...)
	sort.Slice(w, func(i, j int) bool { return w[i].number < w[j].number })
	for i := range got {
		if got[i] != w[i] {
			return false
		}
	}
	seqs := cur.GetSequences()
	s, ok := seqs[1]
	if ok != want.hasSeq || (ok && s != want.seq) {
		return false
	}
	return true
}

var verifClass int

func verifSmallOrLarge(tag string) uint32 {
	// two classes of magnitudes (chosen per step), so that one- and five-byte varints of the records are both in the space
	if verifClass == 0 {
		return uint32(verifRange(tag, 0, 127))
	}
	return uint32(verifRange(tag, 1<<28, 1<<32-1))
}

// C01 (manifest / CURRENT protocol): a history of commits (flush with a sequence, compaction install)
// on a fresh store, a crash before any one file-system operation of the history, then reopen:
// recovery succeeds and shows the state after the last completed commit or after the commit in
// flight (entirely); the next file number handed out is above every referenced file.
func verifStoreDir() string {
	if verifIsSymbolic() {
		return "/store"
	}
	d, err := os.MkdirTemp("", "verif-store-")
	if err != nil {
		panic(err)
	}
	return d
}

func verifC01History() {
	dir := verifStoreDir()
	fs := verifInstallFS()
	vs, fv, err := verifOpen(dir)
	verifAssert(err == nil, "a fresh store opens")
	steps := 2
	if verifThorough() {
		steps = 3
	}
	state := verifState{}
	// what was committed long ago (outside the crash window): nothing, or one level-1 table - so that
	// a compaction of the history has a level-1 input to delete
	if verifChoose("startWithLevel1", 2) == 1 {
		n := vs.NextFileNumber()
		rec := verifFileRec{1, n, 3, 200, 77}
		el := NewEditLog(1)
		el.Add(CreateNewFile(1, NewFileMeta(n, rec.min, rec.max, rec.size)))
		verifAssert(vs.CommitFamilyEditLog("f", el) == nil, "setup commit returns")
		state.files = append(state.files, rec)
	}
	// the crash point is chosen among the operations of the history (counted after the initial open)
	opsAtStart := fs.ops
	crash := verifChoose("crashBeforeOp", 2*steps+2) // -> ops opsAtStart+crash onwards are lost; the last value = no crash
	if crash < 2*steps+1 {
		fs.crashAt = opsAtStart + crash
	}
	var before, after verifState
	inFlight := false
	for i := 0; i < steps; i++ {
		before = state.clone()
		el := NewEditLog(1)
		kind := 0
		if i > 0 {
			kind = verifChoose("stepKind", 2)
		}
		verifClass = verifChoose("magnitudeClass", 2)
		if kind == 0 || len(state.files) == 0 {
			// flush: a new level-0 table and the sequence of the flushed data
			n := vs.NextFileNumber()
			rec := verifFileRec{0, n, verifSmallOrLarge("minKey"), verifSmallOrLarge("maxKey"), verifSmallOrLarge("size")}
			el.Add(CreateNewFile(0, NewFileMeta(n, rec.min, rec.max, rec.size)))
			seq := verifRange("sequence", 0, 1<<40)
			el.Add(CreateSequence(1, seq))
			state.files = append(state.files, rec)
			state.seq, state.hasSeq = seq, true
		} else {
			// compaction install: the oldest level-0 file (the oldest file, if there is none) and the
			// level-1 table are replaced by one level-1 file (inputs marked deleted at their levels)
			pick := 0
			for j, f := range state.files {
				if f.level == 0 {
					pick = j
					break
				}
			}
			old := state.files[pick]
			n := vs.NextFileNumber()
			rec := verifFileRec{1, n, old.min, old.max, old.size}
			var rest []verifFileRec
			for j, f := range state.files {
				if j == pick || f.level == 1 {
					el.Add(NewDeleteFile(int32(f.level), f.number))
				} else {
					rest = append(rest, f)
				}
			}
			el.Add(CreateNewFile(1, NewFileMeta(n, rec.min, rec.max, rec.size)))
			state.files = append(rest, rec)
		}
		after = state.clone()
		opsBefore := fs.ops
		err := vs.CommitFamilyEditLog("f", el)
		verifAssert(err == nil, "commit returns")
		if fs.crashAt >= 0 && fs.ops >= fs.crashAt {
			// the process died during (or right before) this commit
			inFlight = fs.ops > opsBefore || fs.crashAt == opsBefore
			break
		}
	}
	// reopen on what reached the file system; the process may die again during this recovery (new
	// manifest with a full snapshot, synced, then CURRENT switched by rename)
	fs.crashAt = -1
	if verifChoose("cleanReopenFirst", 2) == 1 {
		// a reopen that completes (and commits nothing) before the one that may die: the second
		// recovery then starts from a manifest that holds only a snapshot
		_, _, err := verifOpen(dir)
		verifAssert(err == nil, "the store reopens after the crash (first reopen)")
	}
	if k := verifChoose("crashDuringRecovery", 7); k < 6 {
		fs.crashAt = fs.ops + k
		_, _, _ = verifOpen(dir)
		fs.crashAt = -1
	}
	vs2, fv2, err := verifOpen(dir)
	verifAssert(err == nil, "the store reopens after the crash")
	if err != nil {
		return
	}
	okAfter := verifMatches(fv2, after)
	okBefore := verifMatches(fv2, before)
	if inFlight {
		verifAssert(okAfter || okBefore, "the commit in flight is visible entirely or not at all")
	} else {
		verifAssert(okAfter, "every commit that returned is visible after reopening")
	}
	// file numbers are never reused
	next := vs2.NextFileNumber()
	snap := fv2.GetSnapshot()
	for _, f := range snap.GetCurrent().GetAllFiles() {
		verifAssert(next > f.GetFileNumber(), "a file number handed out after recovery is above every referenced file")
	}
	snap.Close()
	verifAssert(filepath.Base(string(fs.files[filepath.Join(dir, current())])) != "", "CURRENT names a manifest")
	_, hasManifest := fs.files[filepath.Join(dir, string(fs.files[filepath.Join(dir, current())]))]
	verifAssert(hasManifest, "CURRENT names an existing manifest")
	_ = fv
	verifReach("end")
}

func verifC01Reach() {
	fs := verifInstallFS()
	dir := verifStoreDir()
	vs, _, _ := verifOpen(dir)
	el := NewEditLog(1)
	n := vs.NextFileNumber()
	min := uint32(verifRange("minKey", 0, 127))
	el.Add(CreateNewFile(0, NewFileMeta(n, min, 200, 10)))
	_ = vs.CommitFamilyEditLog("f", el)
	_, fv2, _ := verifOpen(dir)
	snap := fv2.GetSnapshot()
	fsz := len(snap.GetCurrent().GetAllFiles())
	verifObserve("recover", min, fsz, fs.ops)
	verifAssert(min != 9, "reach")
}

// C01, half-written metadata record: the process dies INSIDE the write that appends a commit's
// records to the manifest (or inside the write of the snapshot a recovery puts into its new
// manifest), so that any prefix of the written bytes is in the file. Reopening must succeed, show the
// state before the commit in flight (or after it, when every byte arrived), keep file numbers
// unique, and a further commit + reopen must work.
func verifC01TornCommit() {
	dir := verifStoreDir()
	fs := verifInstallFS()
	vs, _, err := verifOpen(dir)
	verifAssert(err == nil, "a fresh store opens")
	state := verifState{}
	flush := func(torn, symbolic bool) (verifState, error) {
		n := vs.NextFileNumber()
		el := NewEditLog(1)
		rec := verifFileRec{0, n, 3, 1 << 30, 77}
		seq := int64(300)
		if symbolic {
			verifClass = verifChoose("magnitudeClass", 2)
			rec = verifFileRec{0, n, verifSmallOrLarge("minKey"), verifSmallOrLarge("maxKey"), verifSmallOrLarge("size")}
			seq = verifRange("sequence", 0, 1<<40)
		}
		el.Add(CreateNewFile(0, NewFileMeta(n, rec.min, rec.max, rec.size)))
		el.Add(CreateSequence(1, seq))
		after := state.clone()
		after.files = append(after.files, rec)
		after.seq, after.hasSeq = seq, true
		if torn {
			fs.crashAt = fs.ops
			fs.tornAt = verifChoose("tornAtByte", 72)
		}
		return after, vs.CommitFamilyEditLog("f", el)
	}
	// one commit that completes
	after, err := flush(false, false)
	verifAssert(err == nil, "commit returns")
	state = after
	before := state.clone()
	where := verifChoose("tornWhere", 2)
	complete := false
	if where == 0 {
		// the commit in flight is cut
		after, _ = flush(true, true)
		verifAssume(fs.tornLen > 0 && fs.tornAt < 0)
		fs.crashAt = -1
	} else {
		// the commit completes; the following recovery dies inside the write of its snapshot (the new
		// manifest is not CURRENT yet), the recovery after that must cope with both manifests
		after, err = flush(false, true)
		verifAssert(err == nil, "commit returns")
		before = after.clone()
		fs.crashAt = fs.ops + 1
		fs.tornAt = verifChoose("tornAtByte", 72)
		_, _, _ = verifOpen(dir)
		verifAssume(fs.tornLen > 0 && fs.tornAt < 0)
		fs.crashAt = -1
		complete = true
	}
	vs2, fv2, err := verifOpen(dir)
	verifAssert(err == nil, "the store reopens after a write was cut short")
	if err != nil {
		return
	}
	okAfter := verifMatches(fv2, after)
	okBefore := verifMatches(fv2, before)
	if complete {
		verifAssert(okAfter, "every commit that returned is visible after reopening")
	} else {
		verifAssert(okAfter || okBefore, "the commit in flight is visible entirely or not at all")
	}
	next := vs2.NextFileNumber()
	snap := fv2.GetSnapshot()
	for _, f := range snap.GetCurrent().GetAllFiles() {
		verifAssert(next > f.GetFileNumber(), "a file number handed out after recovery is above every referenced file")
	}
	snap.Close()
	// the recovered store accepts a further commit and shows it after one more reopen
	cur := before
	if okAfter {
		cur = after
	}
	el := NewEditLog(1)
	rec := verifFileRec{0, next, 5, 6, 7}
	el.Add(CreateNewFile(0, NewFileMeta(next, rec.min, rec.max, rec.size)))
	verifAssert(vs2.CommitFamilyEditLog("f", el) == nil, "commit after recovery returns")
	cur.files = append(cur.files, rec)
	_, fv3, err := verifOpen(dir)
	verifAssert(err == nil, "the store reopens again")
	if err == nil {
		verifAssert(verifMatches(fv3, cur), "commit after recovery is visible")
	}
	verifReach("end")
}

// C01, file numbers across concurrent commits: two writers (two families of one store) each take a
// file number, commit their flush - one of them two flushes -, every interleaving within the
// pre-emption bound; then the store is reopened: every commit that returned is visible, and the next
// file number handed out is above every file the recovered state references (a number is never
// handed out twice, before or after the reopen).
func verifC01ConcurrentCommits() {
	dir := verifStoreDir()
	verifInstallFS()
	vs := NewStoreVersionSet(dir, verifCache{}, 2)
	vs.CreateFamilyVersion("f", 1)
	vs.CreateFamilyVersion("g", 2)
	verifAssert(vs.Recover() == nil, "a fresh store opens")
	var handed []table.FileNumber
	flush := func(family string, id FamilyID) {
		n := vs.NextFileNumber()
		handed = append(handed, n)
		el := NewEditLog(id)
		el.Add(CreateNewFile(0, NewFileMeta(n, 1, 9, 50)))
		verifAssert(vs.CommitFamilyEditLog(family, el) == nil, "commit returns")
	}
	verifSpawn(func() { flush("f", 1) })
	verifSpawn(func() {
		flush("g", 2)
		flush("g", 2)
	})
	verifJoinAll()
	for i := range handed {
		for j := range handed {
			verifAssert(i == j || handed[i] != handed[j], "a file number is handed out once")
		}
	}
	// reopen
	vs2 := NewStoreVersionSet(dir, verifCache{}, 2)
	f2 := vs2.CreateFamilyVersion("f", 1)
	g2 := vs2.CreateFamilyVersion("g", 2)
	verifAssert(vs2.Recover() == nil, "the store reopens")
	count := 0
	next := vs2.NextFileNumber()
	for _, fv := range []FamilyVersion{f2, g2} {
		snap := fv.GetSnapshot()
		for _, fm := range snap.GetCurrent().GetAllFiles() {
			count++
			verifAssert(next > fm.GetFileNumber(), "a file number handed out after recovery is above every referenced file")
		}
		snap.Close()
	}
	verifAssert(count == 3, "every commit that returned is visible after reopening")
	verifReach("end")
}
