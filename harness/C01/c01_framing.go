package bufioutil

import (
	"bufio"
	"bytes"
	"errors"
	"io"
)

// The record framing the manifest is written with, on the real entry writer / entry reader (their
// bufio layers placed over in-memory buffers instead of *os.File): records written and flushed come
// back byte for byte and in order; of a file cut at ANY byte (what a process leaves that died inside
// a write) the reader yields exactly the records that are complete, never a partial or invented one,
// and ends with EOF or an unexpected-EOF error. This is the contract the file-system model of
// verifC01History / verifC01TornCommit relies on (assume / guarantee).
func verifC01Framing() {
	var file bytes.Buffer
	w := &bufioEntryWriter{w: bufio.NewWriterSize(&file, defaultWriteBufferSize)}
	// lengths: one-byte and two-byte length prefixes
	lens := [][]int{{0, 3}, {2, 1}, {130, 2}, {1, 128}}[verifChoose("shape", 4)]
	recs := make([][]byte, len(lens))
	total := 0
	for i, l := range lens {
		recs[i] = verifSymBytes("rec", l)
		n, err := w.Write(recs[i])
		verifAssert(err == nil && n > l, "record accepted")
		total += n
	}
	verifAssert(w.Size() == int64(total), "writer size counts prefix and content")
	verifAssert(w.Flush() == nil, "flush")
	data := file.Bytes()
	verifAssert(len(data) == total, "file holds prefix + content of every record")
	cut := verifChoose("cut", len(data)+1)
	r := &bufioEntryReader{r: bufio.NewReaderSize(bytes.NewReader(data[:cut]), 16)}
	got := 0
	pos := 0
	for r.Next() {
		content, err := r.Read()
		if err != nil {
			verifAssert(errors.Is(err, io.ErrUnexpectedEOF), "a torn tail is reported as unexpected EOF")
			verifAssert(cut < len(data), "only a cut file reports an error")
			break
		}
		verifAssert(got < len(recs), "no invented record")
		if got >= len(recs) {
			return
		}
		verifAssert(len(content) == len(recs[got]), "record length survives")
		for j := range content {
			verifAssert(content[j] == recs[got][j], "record bytes survive")
		}
		pos += len(recs[got]) + 1
		if len(recs[got]) >= 128 {
			pos++
		}
		verifAssert(pos <= cut, "a record is yielded only when all of its bytes are in the file")
		got++
	}
	// every complete record was yielded
	next := pos
	if got < len(recs) {
		next = pos + len(recs[got]) + 1
		if len(recs[got]) >= 128 {
			next++
		}
		verifAssert(next > cut, "a complete record is not dropped")
	} else {
		verifAssert(cut == len(data) || pos <= cut, "all records read")
	}
	if cut == len(data) {
		verifAssert(got == len(recs), "an intact file yields every record")
		verifAssert(r.Count() == int64(total), "Count is the number of bytes consumed")
	}
	verifReach("end")
}

func verifC01FramingReach() {
	var file bytes.Buffer
	w := &bufioEntryWriter{w: bufio.NewWriterSize(&file, defaultWriteBufferSize)}
	rec := verifSymBytes("rec", 2)
	_, _ = w.Write(rec)
	_ = w.Flush()
	r := &bufioEntryReader{r: bufio.NewReaderSize(bytes.NewReader(file.Bytes()), 16)}
	ok := r.Next()
	c, _ := r.Read()
	verifObserve("framing", rec[0], rec[1], ok, len(c), c[0], file.Len())
	verifAssert(c[1] != 7, "reach")
}
