#!/bin/bash
# usage: mkov.sh <pkgdir relative to /repo> <testfile> -> prints overlay json path
pkg=$1; tf=$2
out=/tmp/probe/native/ov_$(echo $pkg | tr / _).json
python3 - "$pkg" "$tf" "$out" <<'PY'
import sys, os, json, glob
pkg, tf, out = sys.argv[1:4]
rep = {}
for f in glob.glob(f"/repo/{pkg}/*_test.go"):
    rep[f] = ""
rep[f"/repo/{pkg}/zz_probe_test.go"] = os.path.abspath(tf)
json.dump({"Replace": rep}, open(out, "w"))
print(out)
PY
