package exec

import (
	"fmt"
	"go/types"

	"golang.org/x/tools/go/ssa"

	"verif/gosmt/smt"
)

// ---------------------------------------------------------------- write log (for merging)

type slotWrite struct {
	slot *Value
	old  Value
}
type regWrite struct {
	fr  *Frame
	reg ssa.Value
	old Value
	had bool
}
type symWrite struct {
	arr *ArrObj
	old *smt.Term
}

type writeLog struct {
	slots []slotWrite
	regs  []regWrite
	syms  []symWrite
	undo  []func()
	outer *writeLog
}

// writeSlot is the only way a heap cell is changed.
func (e *Exec) writeSlot(slot *Value, v Value) {
	if e.log != nil {
		e.log.slots = append(e.log.slots, slotWrite{slot, *slot})
	}
	*slot = v
}

func (e *Exec) writeSym(a *ArrObj, t *smt.Term) {
	if e.log != nil {
		e.log.syms = append(e.log.syms, symWrite{a, a.Sym})
	}
	a.Sym = t
}

func (e *Exec) noteUndo(f func()) {
	if e.log != nil {
		e.log.undo = append(e.log.undo, f)
	}
}

func (l *writeLog) rollback() {
	for i := len(l.undo) - 1; i >= 0; i-- {
		l.undo[i]()
	}
	for i := len(l.slots) - 1; i >= 0; i-- {
		*l.slots[i].slot = l.slots[i].old
	}
	for i := len(l.syms) - 1; i >= 0; i-- {
		l.syms[i].arr.Sym = l.syms[i].old
	}
	for i := len(l.regs) - 1; i >= 0; i-- {
		w := l.regs[i]
		if w.had {
			w.fr.regs[w.reg] = w.old
		} else {
			delete(w.fr.regs, w.reg)
		}
	}
}

// ---------------------------------------------------------------- load / store

func (e *Exec) load(th *Thread, fr *Frame, in ssa.Instruction, pv Value) Value {
	p, ok := pv.(*Pointer)
	if !ok {
		if po, isP := pv.(*Poison); isP {
			panic(unsupported("load through poisoned pointer: " + po.Why))
		}
		panic(unsupported(fmt.Sprintf("load through %T", pv)))
	}
	if p == nil {
		e.goPanic(th, fr, in, "invalid memory address or nil pointer dereference")
	}
	e.watchAccess(th, p, false)
	if p.Slot != nil {
		v := *p.Slot
		if v == nil {
			panic(fmt.Sprintf("load of uninitialised slot at %s", e.pos(in)))
		}
		return e.copyVal(v)
	}
	return e.loadElem(fr, in, p.Arr, p.Idx)
}

func (e *Exec) store(th *Thread, fr *Frame, in ssa.Instruction, pv Value, v Value) {
	p, ok := pv.(*Pointer)
	if !ok {
		panic(unsupported(fmt.Sprintf("store through %T", pv)))
	}
	if p == nil {
		e.goPanic(th, fr, in, "invalid memory address or nil pointer dereference")
	}
	e.watchAccess(th, p, true)
	if p.Slot != nil {
		e.storeInto(p.Slot, v)
		return
	}
	e.storeElem(fr, in, p.Arr, p.Idx, v)
}

// storeInto writes v into slot, keeping the identity of aggregate cells (so that field and element
// pointers taken earlier stay valid).
func (e *Exec) storeInto(slot *Value, v Value) {
	switch nv := v.(type) {
	case StructV:
		if old, ok := (*slot).(StructV); ok && len(old) == len(nv) {
			for i := range nv {
				e.storeInto(&old[i], nv[i])
			}
			return
		}
		e.writeSlot(slot, e.copyVal(v))
		return
	case *ArrObj:
		if old, ok := (*slot).(*ArrObj); ok && old != nil && nv != nil && old != nv {
			if old.Elems != nil && nv.Elems != nil && len(old.Elems) == len(nv.Elems) {
				for i := range nv.Elems {
					e.storeInto(&old.Elems[i], nv.Elems[i])
				}
				return
			}
			if old.Sym != nil && nv.Sym != nil {
				e.writeSym(old, nv.Sym)
				return
			}
		}
		if old, ok := (*slot).(*ArrObj); ok && old == nv {
			return
		}
		e.writeSlot(slot, e.copyVal(v))
		return
	}
	e.writeSlot(slot, v)
}

// loadElem reads arr[idx] with a possibly symbolic index (bounds were checked by the caller).
func (e *Exec) loadElem(fr *Frame, in ssa.Instruction, a *ArrObj, idx *smt.Term) Value {
	if a.Sym != nil {
		return e.ctx.Select(a.Sym, e.idxTerm(idx, a), a.ElemS)
	}
	if idx.IsConst() {
		return e.copyVal(a.Elems[idx.Int64()])
	}
	lo, hi := e.idxRange(idx, len(a.Elems))
	if lo > hi {
		panic(&pathEnd{"empty index range"})
	}
	// ite chain over the possible cells
	res := e.copyVal(a.Elems[hi])
	for i := hi - 1; i >= lo; i-- {
		g := e.ctx.Cmp(smt.OEq, idx, e.ctx.Int(idx.Sort, int64(i)))
		m, ok := e.iteVal(g, a.Elems[i], res)
		if !ok {
			// fall back: concretise the index
			k := e.concretize(fr, in, idx, lo, hi)
			return e.copyVal(a.Elems[k])
		}
		res = m
	}
	return res
}

func (e *Exec) idxRange(idx *smt.Term, n int) (int, int) {
	lo, hi := 0, n-1
	if idx.Lo.IsInt64() && idx.Lo.Int64() > int64(lo) {
		lo = int(idx.Lo.Int64())
	}
	if idx.Hi.IsInt64() && idx.Hi.Int64() < int64(hi) {
		hi = int(idx.Hi.Int64())
	}
	return lo, hi
}

func (e *Exec) storeElem(fr *Frame, in ssa.Instruction, a *ArrObj, idx *smt.Term, v Value) {
	if a.Sym != nil {
		vt := e.term(v)
		if vt.Sort != a.ElemS {
			vt = e.ctx.Conv(vt, a.ElemS)
		}
		e.writeSym(a, e.ctx.Store(a.Sym, e.idxTerm(idx, a), vt))
		return
	}
	if idx.IsConst() {
		e.storeInto(&a.Elems[idx.Int64()], v)
		return
	}
	lo, hi := e.idxRange(idx, len(a.Elems))
	// check mergeability first
	for i := lo; i <= hi; i++ {
		if _, ok := e.iteVal(e.ctx.Var("mergeprobe", smt.Bool, nil, nil), v, a.Elems[i]); !ok {
			k := e.concretize(fr, in, idx, lo, hi)
			e.storeInto(&a.Elems[k], v)
			return
		}
	}
	for i := lo; i <= hi; i++ {
		g := e.ctx.Cmp(smt.OEq, idx, e.ctx.Int(idx.Sort, int64(i)))
		m, ok := e.iteVal(g, v, a.Elems[i])
		if !ok {
			panic(unsupported("symbolic-index store of unmergeable value"))
		}
		e.writeSlot(&a.Elems[i], m)
	}
}

func (e *Exec) idxTerm(idx *smt.Term, a *ArrObj) *smt.Term {
	if idx.Sort != smt.I64 {
		return e.ctx.Conv(idx, smt.I64)
	}
	return idx
}

// concretePtr turns a symbolic element pointer into a concrete slot by case split.
func (e *Exec) concretizePtr(fr *Frame, in ssa.Instruction, p *Pointer) *Pointer {
	if p.Arr.Sym != nil {
		panic(unsupported("address of element of symbolic array used as aggregate"))
	}
	if p.Idx.IsConst() {
		return &Pointer{Slot: &p.Arr.Elems[p.Idx.Int64()]}
	}
	lo, hi := e.idxRange(p.Idx, len(p.Arr.Elems))
	k := e.concretize(fr, in, p.Idx, lo, hi)
	return &Pointer{Slot: &p.Arr.Elems[k]}
}

// ---------------------------------------------------------------- value-level ite

// iteVal builds "if g then a else b" on values; ok=false if the shapes cannot be merged.
func (e *Exec) iteVal(g *smt.Term, a, b Value) (Value, bool) {
	if g.IsConst() {
		if g.K == 1 {
			return a, true
		}
		return b, true
	}
	switch x := a.(type) {
	case *smt.Term:
		y, ok := b.(*smt.Term)
		if !ok || x.Sort != y.Sort {
			return nil, false
		}
		return e.ctx.Ite(g, x, y), true
	case string:
		switch y := b.(type) {
		case string:
			if x == y {
				return x, true
			}
			if len(x) == len(y) {
				return e.iteVal(g, e.symStr(x), e.symStr(y))
			}
		case *SymStr:
			if len(x) == len(y.B) {
				return e.iteVal(g, e.symStr(x), y)
			}
		}
		return nil, false
	case *SymStr:
		var y *SymStr
		switch yy := b.(type) {
		case *SymStr:
			y = yy
		case string:
			y = e.symStr(yy)
		default:
			return nil, false
		}
		if len(x.B) != len(y.B) {
			return nil, false
		}
		r := &SymStr{B: make([]*smt.Term, len(x.B))}
		for i := range x.B {
			r.B[i] = e.ctx.Ite(g, x.B[i], y.B[i])
		}
		return r, true
	case *Pointer:
		y, ok := b.(*Pointer)
		if !ok {
			return nil, false
		}
		if x == y || (x == nil && y == nil) {
			return x, true
		}
		if x != nil && y != nil {
			if x.Slot != nil && x.Slot == y.Slot {
				return x, true
			}
			if x.Slot == nil && y.Slot == nil && x.Arr == y.Arr {
				return &Pointer{Arr: x.Arr, Idx: e.ctx.Ite(g, x.Idx, y.Idx)}, true
			}
		}
		return nil, false
	case StructV:
		y, ok := b.(StructV)
		if !ok || len(x) != len(y) {
			return nil, false
		}
		r := make(StructV, len(x))
		for i := range x {
			m, ok := e.iteVal(g, x[i], y[i])
			if !ok {
				return nil, false
			}
			r[i] = m
		}
		return r, true
	case TupleV:
		y, ok := b.(TupleV)
		if !ok || len(x) != len(y) {
			return nil, false
		}
		r := make(TupleV, len(x))
		for i := range x {
			m, ok := e.iteVal(g, x[i], y[i])
			if !ok {
				return nil, false
			}
			r[i] = m
		}
		return r, true
	case *ArrObj:
		y, ok := b.(*ArrObj)
		if !ok {
			return nil, false
		}
		if x == y {
			return x, true
		}
		if x == nil || y == nil {
			return nil, false
		}
		if x.Sym != nil && y.Sym != nil && x.N == y.N {
			n := &ArrObj{Sym: e.ctx.Ite(g, x.Sym, y.Sym), N: x.N, ElemS: x.ElemS}
			e.nobj++
			n.id = e.nobj
			return n, true
		}
		if x.Elems == nil || y.Elems == nil || len(x.Elems) != len(y.Elems) {
			return nil, false
		}
		n := &ArrObj{Elems: make([]Value, len(x.Elems))}
		e.nobj++
		n.id = e.nobj
		for i := range x.Elems {
			m, ok := e.iteVal(g, x.Elems[i], y.Elems[i])
			if !ok {
				return nil, false
			}
			n.Elems[i] = m
		}
		return n, true
	case SliceV:
		y, ok := b.(SliceV)
		if !ok {
			return nil, false
		}
		if x.Base != y.Base {
			return nil, false
		}
		if x.Base == nil {
			return x, true
		}
		return SliceV{Base: x.Base, Off: e.ctx.Ite(g, x.Off, y.Off), Len: e.ctx.Ite(g, x.Len, y.Len), Cap: e.ctx.Ite(g, x.Cap, y.Cap)}, true
	case IfaceV:
		y, ok := b.(IfaceV)
		if !ok {
			return nil, false
		}
		if x.T == nil && y.T == nil {
			return x, true
		}
		if x.T == nil || y.T == nil || !types.Identical(x.T, y.T) {
			return nil, false
		}
		m, ok := e.iteVal(g, x.V, y.V)
		if !ok {
			return nil, false
		}
		return IfaceV{T: x.T, V: m}, true
	case *MapV:
		if y, ok := b.(*MapV); ok && x == y {
			return x, true
		}
		return nil, false
	case *ChanV:
		if y, ok := b.(*ChanV); ok && x == y {
			return x, true
		}
		return nil, false
	case *ssa.Function:
		if y, ok := b.(*ssa.Function); ok && x == y {
			return x, true
		}
		return nil, false
	case *Closure:
		if y, ok := b.(*Closure); ok && x == y {
			return x, true
		}
		return nil, false
	case *mapIter:
		if y, ok := b.(*mapIter); ok && x == y {
			return x, true
		}
		return nil, false
	case nil:
		if b == nil {
			return nil, true
		}
		return nil, false
	}
	return nil, false
}

func (e *Exec) symStr(s string) *SymStr {
	r := &SymStr{B: make([]*smt.Term, len(s))}
	for i := 0; i < len(s); i++ {
		r.B[i] = e.ctx.Const(smt.U8, uint64(s[i]))
	}
	return r
}

// ---------------------------------------------------------------- symbolic branches

func (e *Exec) visitIf(fr *Frame, in *ssa.If) cont {
	c := e.term(e.get(fr, in.Cond))
	if c.IsConst() {
		if c.K == 1 {
			return e.jump(fr, 0)
		}
		return e.jump(fr, 1)
	}
	B := fr.block
	if fr.visits == nil {
		fr.visits = map[*ssa.BasicBlock]int{}
	}
	fr.visits[B]++
	if fr.visits[B] > e.cfg.Unwind {
		e.unwindHit(fr, B)
	}
	if e.mergeWanted(fr, B) {
		if k, ok := e.tryMerge(fr, B, c); ok {
			return k
		}
	}
	if e.decideBool(fr, in, c, "branch "+e.pos(in)) {
		return e.jump(fr, 0)
	}
	return e.jump(fr, 1)
}

type mergeInfo struct {
	join    *ssa.BasicBlock // nil = function exit
	hasLoop bool
	size    int
	ok      bool
}

func (e *Exec) mergeWanted(fr *Frame, b *ssa.BasicBlock) bool {
	if e.cfg.Merge == "off" || e.nthreads() > 1 {
		return false
	}
	if e.noMerge[b] {
		return false
	}
	fn := fr.fn.String()
	for _, re := range e.cfg.forkRe {
		if re.MatchString(fn) {
			return false
		}
	}
	mi := e.shared.mergeInfoOf(b)
	if !mi.ok {
		return false
	}
	forced := false
	for _, re := range e.cfg.mergeRe {
		if re.MatchString(fn) {
			forced = true
		}
	}
	if mi.hasLoop && !forced {
		return false
	}
	if mi.join == nil && hasDefer(fr.fn) {
		return false
	}
	return true
}

// tryMerge executes both sides of the branch at the end of block b under guards and joins
// them at the immediate post-dominator. ok=false means nothing was changed and the caller must fork.
func (e *Exec) tryMerge(fr *Frame, b *ssa.BasicBlock, c *smt.Term) (cont, bool) {
	mi := e.shared.mergeInfoOf(b)
	if len(e.guards) >= e.cfg.MaxMergeDepth {
		return 0, false
	}
	type sideRes struct {
		st     status
		result Value
		slots  map[*Value]Value
		order  []*Value
		regs   map[ssa.Value]Value
		rorder []ssa.Value
		syms   map[*ArrObj]*smt.Term
		sorder []*ArrObj
		pcAdd  []*smt.Term
		nlog   *writeLog
		infeasible bool
	}
	snapDec := e.snapshotDecisions()
	snapPC := len(e.pc)
	snapVisits := map[*ssa.BasicBlock]int{}
	for k, v := range fr.visits {
		snapVisits[k] = v
	}
	savedDefers := len(fr.defers)
	runSide := func(g *smt.Term, succ int) (res *sideRes, fail string) {
		lg := &writeLog{outer: e.log}
		outer := e.log
		e.log = lg
		e.guards = append(e.guards, g)
		e.gconj = nil
		savedBlock, savedPrev, savedPC := fr.block, fr.prev, fr.pc
		restore := func() { fr.block, fr.prev, fr.pc, fr.atStart, fr.skipPhis = savedBlock, savedPrev, savedPC, false, false }
		depth0 := e.sideDepth
		defer func() {
			e.log = outer
			e.guards = e.guards[:len(e.guards)-1]
			e.gconj = nil
			e.sideDepth = depth0 // also when the side was left by a panic
			if r := recover(); r != nil {
				lg.rollback()
				restore()
				switch x := r.(type) {
				case *GoPanic:
					fail = "panic in side: " + x.Msg
				case *mergeAbort:
					fail = x.why
				case *pathEnd:
					if x.why == "infeasible-side" {
						res = &sideRes{infeasible: true}
						return
					}
					fail = "path end in side: " + x.why
				default:
					panic(r)
				}
				res = nil
			}
		}()
		fr.prev, fr.block, fr.pc, fr.atStart = b, b.Succs[succ], 0, true
		e.sideDepth++
		st := e.runUntil(fr, mi.join)
		e.sideDepth--
		if len(fr.defers) != savedDefers {
			panic(&mergeAbort{"defer registered inside merge side"})
		}
		res = &sideRes{st: st, result: fr.result, slots: map[*Value]Value{}, regs: map[ssa.Value]Value{}, syms: map[*ArrObj]*smt.Term{}}
		for _, w := range lg.slots {
			if _, ok := res.slots[w.slot]; !ok {
				res.order = append(res.order, w.slot)
			}
			res.slots[w.slot] = *w.slot
		}
		for _, w := range lg.syms {
			if _, ok := res.syms[w.arr]; !ok {
				res.sorder = append(res.sorder, w.arr)
			}
			res.syms[w.arr] = w.arr.Sym
		}
		for _, w := range lg.regs {
			if w.fr != fr {
				continue
			}
			if _, ok := res.regs[w.reg]; !ok {
				res.rorder = append(res.rorder, w.reg)
			}
			res.regs[w.reg] = fr.regs[w.reg]
		}
		if len(lg.undo) > 0 {
			lg.rollback()
			restore()
			return nil, "non-mergeable effect (map/chan/append) inside side"
		}
		res.nlog = lg
		lg.rollback()
		restore()
		return res, ""
	}
	failMerge := func(why string) (cont, bool) {
		e.restoreDecisions(snapDec)
		e.pc = e.pc[:snapPC]
		if e.modelPCLen > snapPC {
			e.modelPCLen = snapPC
		}
		fr.visits = snapVisits
		e.noMerge[b] = true
		e.stats.MergeFails++
		if e.cfg.Verbose > 1 {
			fmt.Printf("  merge failed at %s: %s\n", e.pos(b.Instrs[len(b.Instrs)-1]), why)
		}
		return 0, false
	}
	ra, why := runSide(c, 0)
	if ra == nil {
		return failMerge(why)
	}
	rb, why := runSide(e.ctx.Not(c), 1)
	if rb == nil {
		return failMerge(why)
	}
	if ra.infeasible || rb.infeasible {
		// one side cannot happen under the path condition: continue on the other one alone
		if ra.infeasible && rb.infeasible {
			if len(e.guards) > 0 {
				panic(&pathEnd{"infeasible-side"})
			}
			panic(&pathEnd{"infeasible"})
		}
		if ra.infeasible {
			e.addPC(e.ctx.Not(c))
			return e.jump(fr, 1), true
		}
		e.addPC(c)
		return e.jump(fr, 0), true
	}
	if ra.st != rb.st {
		return failMerge("sides end differently")
	}
	// build merged values first (no mutation until everything is known to merge)
	type sw struct {
		slot *Value
		v    Value
	}
	var sws []sw
	seen := map[*Value]bool{}
	for _, lst := range [][]*Value{ra.order, rb.order} {
		for _, s := range lst {
			if seen[s] {
				continue
			}
			seen[s] = true
			va, oka := ra.slots[s]
			vb, okb := rb.slots[s]
			if !oka {
				va = *s
			}
			if !okb {
				vb = *s
			}
			if va == nil || vb == nil {
				// slot allocated in one side only (fresh local): take whichever exists
				if va == nil {
					va = vb
				}
				sws = append(sws, sw{s, va})
				continue
			}
			m, ok := e.iteVal(c, va, vb)
			if !ok {
				return failMerge(fmt.Sprintf("unmergeable heap values %s / %s", describe(va), describe(vb)))
			}
			sws = append(sws, sw{s, m})
		}
	}
	type rw struct {
		reg ssa.Value
		v   Value
	}
	var rws []rw
	seenR := map[ssa.Value]bool{}
	for _, lst := range [][]ssa.Value{ra.rorder, rb.rorder} {
		for _, r := range lst {
			if seenR[r] {
				continue
			}
			seenR[r] = true
			va, oka := ra.regs[r]
			vb, okb := rb.regs[r]
			cur, has := fr.regs[r]
			if !oka && has {
				va, oka = cur, true
			}
			if !okb && has {
				vb, okb = cur, true
			}
			switch {
			case oka && okb:
				m, ok := e.iteVal(c, va, vb)
				if !ok {
					// registers that are dead after the join need not merge; keep a poison
					m = &Poison{Why: "register " + r.Name() + " differs between merged branches"}
				}
				rws = append(rws, rw{r, m})
			case oka:
				rws = append(rws, rw{r, va})
			case okb:
				rws = append(rws, rw{r, vb})
			}
		}
	}
	type yw struct {
		a *ArrObj
		t *smt.Term
	}
	var yws []yw
	seenY := map[*ArrObj]bool{}
	for _, lst := range [][]*ArrObj{ra.sorder, rb.sorder} {
		for _, a := range lst {
			if seenY[a] {
				continue
			}
			seenY[a] = true
			ta, oka := ra.syms[a]
			tb, okb := rb.syms[a]
			if !oka {
				ta = a.Sym
			}
			if !okb {
				tb = a.Sym
			}
			yws = append(yws, yw{a, e.ctx.Ite(c, ta, tb)})
		}
	}
	var result Value
	if ra.st == stReturned {
		m, ok := e.iteVal(c, ra.result, rb.result)
		if !ok {
			return failMerge("unmergeable results")
		}
		result = m
	}
	// commit
	for _, w := range sws {
		e.writeSlot(w.slot, w.v)
	}
	for _, w := range rws {
		e.setReg(fr, w.reg, w.v)
	}
	for _, w := range yws {
		e.writeSym(w.a, w.t)
	}
	e.stats.Merges++
	if ra.st == stReturned {
		fr.result = result
		fr.block = nil
		return kReturn, true
	}
	fr.block = mi.join
	fr.prev = nil
	// phis of the join were evaluated inside the sides; continue after them
	n := 0
	for _, in := range mi.join.Instrs {
		if _, ok := in.(*ssa.Phi); ok {
			n++
		} else {
			break
		}
	}
	_ = n
	fr.pc = 0
	fr.atStart = true
	fr.skipPhis = true
	return kJump, true
}

type mergeAbort struct{ why string }
