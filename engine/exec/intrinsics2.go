package exec

import (
	"math"
	"go/types"

	"golang.org/x/tools/go/ssa"

	"verif/gosmt/smt"
)

// Unsafe reinterpretations that occur in the targets get their little-endian meaning. The results
// are copies, not views: writing through one side later is not reflected on the other (none of the
// callers does that; stated in DESIGN.md).

func (e *Exec) wordsToBytes(fr *Frame, site ssa.Instruction, sv SliceV, width int) Value {
	if sv.Base == nil {
		return SliceV{}
	}
	n := e.sliceLenConst(fr, site, sv)
	out := e.newSlice(types.Typ[types.Uint8], n*width, n*width)
	ws := smt.IntSort(width*8, false)
	for i := 0; i < n; i++ {
		x := e.term(e.sliceGet(fr, site, sv, i))
		if x.Sort != ws {
			x = e.ctx.Conv(x, ws)
		}
		for b := 0; b < width; b++ {
			out.Base.Elems[i*width+b] = e.ctx.Conv(e.ctx.Shift(smt.OShr, x, e.ctx.Const(ws, uint64(8*b))), smt.U8)
		}
	}
	return out
}

func (e *Exec) bytesToWords(fr *Frame, site ssa.Instruction, sv SliceV, width int, elem types.Type) Value {
	if sv.Base == nil {
		return SliceV{}
	}
	n := e.sliceLenConst(fr, site, sv) / width
	out := e.newSlice(elem, n, n)
	ws := smt.IntSort(width*8, false)
	for i := 0; i < n; i++ {
		acc := e.ctx.Const(ws, 0)
		for b := width - 1; b >= 0; b-- {
			x := e.ctx.Conv(e.term(e.sliceGet(fr, site, sv, i*width+b)), ws)
			acc = e.ctx.Bin(smt.OOr, e.ctx.Shift(smt.OShl, acc, e.ctx.Const(ws, 8)), x)
		}
		out.Base.Elems[i] = acc
	}
	return out
}

func init() {
	reg := func(name string, f intrinsic) { intrinsics[name] = f }
	const ro = "github.com/lindb/roaring."
	reg(ro+"uint16SliceAsByteSlice", func(e *Exec, th *Thread, caller *Frame, site ssa.Instruction, args []Value) Value {
		return e.wordsToBytes(caller, site, args[0].(SliceV), 2)
	})
	reg(ro+"uint64SliceAsByteSlice", func(e *Exec, th *Thread, caller *Frame, site ssa.Instruction, args []Value) Value {
		return e.wordsToBytes(caller, site, args[0].(SliceV), 8)
	})
	reg(ro+"byteSliceAsUint16Slice", func(e *Exec, th *Thread, caller *Frame, site ssa.Instruction, args []Value) Value {
		return e.bytesToWords(caller, site, args[0].(SliceV), 2, types.Typ[types.Uint16])
	})
	reg(ro+"byteSliceAsUint64Slice", func(e *Exec, th *Thread, caller *Frame, site ssa.Instruction, args []Value) Value {
		return e.bytesToWords(caller, site, args[0].(SliceV), 8, types.Typ[types.Uint64])
	})
	reg(ro+"interval16SliceAsByteSlice", func(e *Exec, th *Thread, caller *Frame, site ssa.Instruction, args []Value) Value {
		sv := args[0].(SliceV)
		if sv.Base == nil {
			return SliceV{}
		}
		n := e.sliceLenConst(caller, site, sv)
		out := e.newSlice(types.Typ[types.Uint8], n*4, n*4)
		for i := 0; i < n; i++ {
			st := e.sliceGet(caller, site, sv, i).(StructV)
			for f := 0; f < 2; f++ {
				x := e.term(st[f])
				out.Base.Elems[i*4+f*2] = e.ctx.Conv(x, smt.U8)
				out.Base.Elems[i*4+f*2+1] = e.ctx.Conv(e.ctx.Shift(smt.OShr, x, e.ctx.Const(smt.U16, 8)), smt.U8)
			}
		}
		return out
	})
	reg(ro+"byteSliceAsInterval16Slice", func(e *Exec, th *Thread, caller *Frame, site ssa.Instruction, args []Value) Value {
		sv := args[0].(SliceV)
		if sv.Base == nil {
			return SliceV{}
		}
		n := e.sliceLenConst(caller, site, sv) / 4
		a := &ArrObj{Elems: make([]Value, n)}
		e.nobj++
		a.id = e.nobj
		for i := 0; i < n; i++ {
			st := make(StructV, 2)
			for f := 0; f < 2; f++ {
				lo := e.ctx.Conv(e.term(e.sliceGet(caller, site, sv, i*4+f*2)), smt.U16)
				hi := e.ctx.Conv(e.term(e.sliceGet(caller, site, sv, i*4+f*2+1)), smt.U16)
				st[f] = e.ctx.Bin(smt.OOr, e.ctx.Shift(smt.OShl, hi, e.ctx.Const(smt.U16, 8)), lo)
			}
			a.Elems[i] = st
		}
		return SliceV{Base: a, Off: e.mkInt(0), Len: e.mkInt(int64(n)), Cap: e.mkInt(int64(n))}
	})
	const enc = "github.com/lindb/lindb/pkg/encoding."
	reg(enc+"U32SliceToBytes", func(e *Exec, th *Thread, caller *Frame, site ssa.Instruction, args []Value) Value {
		return e.wordsToBytes(caller, site, args[0].(SliceV), 4)
	})
	reg(enc+"U64SliceToBytes", func(e *Exec, th *Thread, caller *Frame, site ssa.Instruction, args []Value) Value {
		return e.wordsToBytes(caller, site, args[0].(SliceV), 8)
	})
	reg(enc+"BytesToU32Slice", func(e *Exec, th *Thread, caller *Frame, site ssa.Instruction, args []Value) Value {
		return e.bytesToWords(caller, site, args[0].(SliceV), 4, types.Typ[types.Uint32])
	})
	reg(enc+"BytesToU64Slice", func(e *Exec, th *Thread, caller *Frame, site ssa.Instruction, args []Value) Value {
		return e.bytesToWords(caller, site, args[0].(SliceV), 8, types.Typ[types.Uint64])
	})
	reg(enc+"Float64ToBytes", func(e *Exec, th *Thread, caller *Frame, site ssa.Instruction, args []Value) Value {
		bits := e.ctx.FBits(e.term(args[0]))
		out := e.newSlice(types.Typ[types.Uint8], 8, 8)
		for b := 0; b < 8; b++ {
			out.Base.Elems[b] = e.ctx.Conv(e.ctx.Shift(smt.OShr, bits, e.ctx.Const(smt.U64, uint64(8*b))), smt.U8)
		}
		return out
	})
	reg(enc+"BytesToFloat64", func(e *Exec, th *Thread, caller *Frame, site ssa.Instruction, args []Value) Value {
		w := e.bytesToWords(caller, site, args[0].(SliceV), 8, types.Typ[types.Uint64]).(SliceV)
		return e.ctx.FFromBits(e.term(w.Base.Elems[0]))
	})
	for _, p := range []string{"github.com/lindb/common/pkg/strutil.", "github.com/lindb/lindb/pkg/strutil."} {
		reg(p+"String2ByteSlice", func(e *Exec, th *Thread, caller *Frame, site ssa.Instruction, args []Value) Value {
			bs, _ := e.strBytes(args[0])
			sv := e.newSlice(types.Typ[types.Uint8], len(bs), len(bs))
			for i, b := range bs {
				sv.Base.Elems[i] = b
			}
			return sv
		})
		reg(p+"ByteSlice2String", func(e *Exec, th *Thread, caller *Frame, site ssa.Instruction, args []Value) Value {
			return e.normStr(e.bytesOf(caller, site, args[0]))
		})
	}
	// cloning a string gives an equal string (strings are values here)
	for _, n := range []string{"strings.Clone", "internal/stringslite.Clone"} {
		reg(n, func(e *Exec, th *Thread, caller *Frame, site ssa.Instruction, args []Value) Value { return args[0] })
	}
	reg("math/rand.Intn", func(e *Exec, th *Thread, caller *Frame, site ssa.Instruction, args []Value) Value {
		n, ok := e.constInt(args[0])
		if !ok || n <= 0 {
			panic(unsupported("rand.Intn with symbolic bound"))
		}
		return e.nondet("rand.Intn", smt.I64, bigI(0), bigI(n-1), "i64")
	})
	reg("math/rand.Int63", func(e *Exec, th *Thread, caller *Frame, site ssa.Instruction, args []Value) Value {
		return e.nondet("rand.Int63", smt.I64, bigI(0), nil, "i64")
	})
}

func init() {
	// third-party hashes are uninterpreted functions: equal inputs give equal outputs, nothing else is known
	hashBytes := func(name string) intrinsic {
		return func(e *Exec, th *Thread, caller *Frame, site ssa.Instruction, args []Value) Value {
			bs := e.bytesOf(caller, site, args[0])
			allConst := true
			for _, b := range bs {
				if !b.IsConst() {
					allConst = false
				}
			}
			_ = allConst
			return e.ctx.UF(sanitize(name)+"_"+itoa(len(bs)), smt.U64, bs...)
		}
	}
	intrinsics["github.com/cespare/xxhash/v2.Sum64"] = hashBytes("xxhash")
	intrinsics["github.com/cespare/xxhash/v2.Sum64String"] = hashBytes("xxhash")
	intrinsics["github.com/lithammer/go-jump-consistent-hash.Hash"] = func(e *Exec, th *Thread, caller *Frame, site ssa.Instruction, args []Value) Value {
		key := e.term(args[0])
		n := e.term(args[1])
		r := e.ctx.UF("jumphash", smt.I32, key, n)
		// contract: 0 <= r < n for n > 0
		e.addPC(e.ctx.Implies(e.ctx.Cmp(smt.OLt, e.ctx.Const(smt.I32, 0), n), e.ctx.And(e.ctx.Cmp(smt.OLe, e.ctx.Const(smt.I32, 0), r), e.ctx.Cmp(smt.OLt, r, n))))
		return r
	}
}

func itoa(i int) string {
	if i == 0 {
		return "0"
	}
	s := ""
	for i > 0 {
		s = string(rune('0'+i%10)) + s
		i /= 10
	}
	return s
}

func init() {
	intrinsics["internal/bytealg.MakeNoZero"] = func(e *Exec, th *Thread, caller *Frame, site ssa.Instruction, args []Value) Value {
		n, ok := e.constInt(args[0])
		if !ok {
			panic(unsupported("MakeNoZero with symbolic length"))
		}
		return e.newSlice(types.Typ[types.Uint8], int(n), int(n))
	}
	intrinsics["unsafe.String"] = nil
	delete(intrinsics, "unsafe.String")
}

// ---------------------------------------------------------------- sync.Map as an ordered association list

func (e *Exec) syncMapOf(p Value) *MapV {
	s := e.syncOf(p)
	if s.m == nil {
		s.m = e.newMap()
	}
	return s.m
}

func init() {
	intrinsics["(*sync.Map).Load"] = func(e *Exec, th *Thread, caller *Frame, site ssa.Instruction, args []Value) Value {
		m := e.syncMapOf(args[0])
		e.yield(th, "sync.Map load")
		i := e.mapFind(caller, site, m, args[1])
		if i < 0 {
			return TupleV{IfaceV{}, e.ctx.BoolC(false)}
		}
		return TupleV{e.copyVal(*m.Vals[i]), e.ctx.BoolC(true)}
	}
	intrinsics["(*sync.Map).Store"] = func(e *Exec, th *Thread, caller *Frame, site ssa.Instruction, args []Value) Value {
		m := e.syncMapOf(args[0])
		e.yield(th, "sync.Map store")
		e.mapUpdate(caller, m, args[1], args[2])
		return nil
	}
	intrinsics["(*sync.Map).LoadOrStore"] = func(e *Exec, th *Thread, caller *Frame, site ssa.Instruction, args []Value) Value {
		m := e.syncMapOf(args[0])
		e.yield(th, "sync.Map loadorstore")
		i := e.mapFind(caller, site, m, args[1])
		if i >= 0 {
			return TupleV{e.copyVal(*m.Vals[i]), e.ctx.BoolC(true)}
		}
		e.mapUpdate(caller, m, args[1], args[2])
		return TupleV{args[2], e.ctx.BoolC(false)}
	}
	intrinsics["(*sync.Map).LoadAndDelete"] = func(e *Exec, th *Thread, caller *Frame, site ssa.Instruction, args []Value) Value {
		m := e.syncMapOf(args[0])
		e.yield(th, "sync.Map loadanddelete")
		i := e.mapFind(caller, site, m, args[1])
		if i < 0 {
			return TupleV{IfaceV{}, e.ctx.BoolC(false)}
		}
		v := e.copyVal(*m.Vals[i])
		e.mapDelete(caller, site, m, args[1])
		return TupleV{v, e.ctx.BoolC(true)}
	}
	intrinsics["(*sync.Map).Delete"] = func(e *Exec, th *Thread, caller *Frame, site ssa.Instruction, args []Value) Value {
		m := e.syncMapOf(args[0])
		e.yield(th, "sync.Map delete")
		e.mapDelete(caller, site, m, args[1])
		return nil
	}
	intrinsics["(*sync.Map).Range"] = func(e *Exec, th *Thread, caller *Frame, site ssa.Instruction, args []Value) Value {
		m := e.syncMapOf(args[0])
		n := len(m.Keys)
		for i := 0; i < n; i++ {
			if m.dead[i] {
				continue
			}
			r := e.callValue(th, caller, site, args[1], []Value{e.copyVal(m.Keys[i]), e.copyVal(*m.Vals[i])})
			t := e.term(r)
			if !t.IsConst() {
				panic(unsupported("sync.Map.Range callback with symbolic result"))
			}
			if t.K == 0 {
				break
			}
		}
		return nil
	}
}

func init() {
	// assembly-backed math functions: use the package's own pure-Go fallbacks
	for arch, pure := range map[string]string{"archMax": "max", "archMin": "min", "archFloor": "floor", "archCeil": "ceil", "archTrunc": "trunc", "archSqrt": "sqrt", "archModf": "modf"} {
		pure := pure
		intrinsics["math."+arch] = func(e *Exec, th *Thread, caller *Frame, site ssa.Instruction, args []Value) Value {
			pkg := e.prog.ImportedPackage("math")
			fn := pkg.Func(pure)
			if fn == nil || fn.Blocks == nil {
				panic(unsupported("math." + pure + " has no Go body"))
			}
			return e.callFn(th, caller, site, fn, args, nil)
		}
	}
}

func init() {
	intrinsics["github.com/google/uuid.New"] = func(e *Exec, th *Thread, caller *Frame, site ssa.Instruction, args []Value) Value {
		e.uuidCounter++
		a := &ArrObj{Elems: make([]Value, 16)}
		e.nobj++
		a.id = e.nobj
		for i := range a.Elems {
			a.Elems[i] = e.ctx.Const(smt.U8, 0)
		}
		a.Elems[15] = e.ctx.Const(smt.U8, uint64(e.uuidCounter&0xff))
		a.Elems[14] = e.ctx.Const(smt.U8, uint64((e.uuidCounter>>8)&0xff))
		return a
	}
	// the wall clock is a counter of seconds: monotone, never the subject of a check
	now := func(e *Exec, th *Thread, caller *Frame, site ssa.Instruction, args []Value) Value {
		e.clockTick++
		// time.Time{wall uint64, ext int64, loc *Location}: ext = seconds since year 1 when wall has no monotonic bit
		return StructV{e.ctx.Const(smt.U64, 0), e.ctx.Int(smt.I64, 63800000000+int64(e.clockTick)), (*Pointer)(nil)}
	}
	intrinsics["time.Now"] = now
	intrinsics["time.Since"] = func(e *Exec, th *Thread, caller *Frame, site ssa.Instruction, args []Value) Value {
		return e.ctx.Int(smt.I64, 1000)
	}
	intrinsics["time.Sleep"] = func(e *Exec, th *Thread, caller *Frame, site ssa.Instruction, args []Value) Value {
		e.yield(th, "sleep")
		return nil
	}
	intrinsics["github.com/lindb/common/pkg/fasttime.UnixNano"] = func(e *Exec, th *Thread, caller *Frame, site ssa.Instruction, args []Value) Value {
		e.clockTick++
		return e.ctx.Int(smt.I64, 1700000000000000000+int64(e.clockTick)*1000000)
	}
	intrinsics["github.com/lindb/common/pkg/fasttime.UnixMilliseconds"] = func(e *Exec, th *Thread, caller *Frame, site ssa.Instruction, args []Value) Value {
		e.clockTick++
		return e.ctx.Int(smt.I64, 1700000000000+int64(e.clockTick))
	}
	intrinsics["github.com/lindb/common/pkg/fasttime.UnixTimestamp"] = func(e *Exec, th *Thread, caller *Frame, site ssa.Instruction, args []Value) Value {
		e.clockTick++
		return e.ctx.Int(smt.I64, 1700000000+int64(e.clockTick))
	}
}

func init() {
	// CRC32 is an uninterpreted function of (previous crc, bytes): writer and reader compute the same thing
	intrinsics["hash/crc32.ieeeInit"] = func(e *Exec, th *Thread, caller *Frame, site ssa.Instruction, args []Value) Value { return nil }
	crcUpdate := func(e *Exec, th *Thread, caller *Frame, site ssa.Instruction, args []Value) Value {
		crc := e.term(args[0])
		bs := e.bytesOf(caller, site, args[2])
		if len(bs) == 0 {
			return crc
		}
		return e.ctx.UF("crc32_"+itoa(len(bs)), smt.U32, append([]*smt.Term{crc}, bs...)...)
	}
	intrinsics["hash/crc32.update"] = crcUpdate
	intrinsics["hash/crc32.Update"] = crcUpdate
	intrinsics["hash/crc32.ChecksumIEEE"] = func(e *Exec, th *Thread, caller *Frame, site ssa.Instruction, args []Value) Value {
		bs := e.bytesOf(caller, site, args[0])
		return e.ctx.UF("crc32_"+itoa(len(bs)), smt.U32, append([]*smt.Term{e.ctx.Const(smt.U32, 0)}, bs...)...)
	}
	intrinsics["hash/crc32.Checksum"] = func(e *Exec, th *Thread, caller *Frame, site ssa.Instruction, args []Value) Value {
		bs := e.bytesOf(caller, site, args[0])
		return e.ctx.UF("crc32_"+itoa(len(bs)), smt.U32, append([]*smt.Term{e.ctx.Const(smt.U32, 0)}, bs...)...)
	}
}

func init() {
	// assembly select64 of pkg/trie: the package's own portable implementation
	intrinsics["github.com/lindb/lindb/pkg/trie.select64"] = func(e *Exec, th *Thread, caller *Frame, site ssa.Instruction, args []Value) Value {
		var pkg *ssa.Package
		for _, p := range e.prog.AllPackages() {
			if p.Pkg.Path() == "github.com/lindb/lindb/pkg/trie" {
				pkg = p
			}
		}
		if pkg == nil || pkg.Func("select64Broadword") == nil {
			panic(unsupported("select64Broadword not found"))
		}
		return e.callFn(th, caller, site, pkg.Func("select64Broadword"), args, nil)
	}
	intrinsics["math/bits.OnesCount64"] = func(e *Exec, th *Thread, caller *Frame, site ssa.Instruction, args []Value) Value {
		t := e.term(args[0])
		if t.IsConst() {
			n := 0
			for x := t.K; x != 0; x &= x - 1 {
				n++
			}
			return e.mkInt(int64(n))
		}
		// sum of the 64 bits
		acc := e.mkInt(0)
		for i := 0; i < 64; i++ {
			bit := e.ctx.Conv(e.ctx.Bin(smt.OAnd, e.ctx.Shift(smt.OShr, t, e.ctx.Const(smt.U64, uint64(i))), e.ctx.Const(smt.U64, 1)), smt.I64)
			acc = e.ctx.Bin(smt.OAdd, acc, bit)
		}
		return acc
	}
}

func init() {
	intrinsics["syscall.runtime_envs"] = func(e *Exec, th *Thread, caller *Frame, site ssa.Instruction, args []Value) Value {
		return SliceV{}
	}
	intrinsics["os.Getenv"] = func(e *Exec, th *Thread, caller *Frame, site ssa.Instruction, args []Value) Value { return "" }
	intrinsics["os.LookupEnv"] = func(e *Exec, th *Thread, caller *Frame, site ssa.Instruction, args []Value) Value {
		return TupleV{"", e.ctx.BoolC(false)}
	}
}

func init() {
	// the local zone is UTC unless a harness installs one (time.Local = time.FixedZone(...))
	intrinsics["time.initLocal"] = func(e *Exec, th *Thread, caller *Frame, site ssa.Instruction, args []Value) Value { return nil }
}

func init() {
	// sort.Slice uses reflection for swapping: insertion sort driven by the interpreted less function
	sortSlice := func(e *Exec, th *Thread, caller *Frame, site ssa.Instruction, args []Value) Value {
		iv, _ := args[0].(IfaceV)
		sv, ok := iv.V.(SliceV)
		if !ok || sv.Base == nil {
			return nil
		}
		n := e.sliceLenConst(caller, site, sv)
		lessAt := func(i, j int) bool {
			r := e.term(e.callValue(th, caller, site, args[1], []Value{e.mkInt(int64(i)), e.mkInt(int64(j))}))
			if r.IsConst() {
				return r.K == 1
			}
			return e.decideBool(caller, site, r, "sort.Slice less "+e.pos(site))
		}
		for i := 1; i < n; i++ {
			for j := i; j > 0 && lessAt(j, j-1); j-- {
				a := e.sliceGet(caller, site, sv, j)
				b := e.sliceGet(caller, site, sv, j-1)
				e.sliceSet(caller, site, sv, j, b)
				e.sliceSet(caller, site, sv, j-1, a)
			}
		}
		return nil
	}
	intrinsics["sort.Slice"] = sortSlice
	intrinsics["sort.SliceStable"] = sortSlice
}

func init() {
	// reflect.TypeOf is only supported as an identity token (map key / comparison), not for reflection
	intrinsics["reflect.TypeOf"] = func(e *Exec, th *Thread, caller *Frame, site ssa.Instruction, args []Value) Value {
		iv, _ := args[0].(IfaceV)
		if iv.T == nil {
			return IfaceV{}
		}
		return IfaceV{T: types.Typ[types.String], V: "reflect.Type:" + iv.T.String()}
	}
}

// math.Min / math.Max as one term (the special cases of math.min / math.max spelled out) instead of
// a fork per special case.
func init() {
	mk := func(isMin bool) intrinsic {
		return func(e *Exec, th *Thread, caller *Frame, site ssa.Instruction, args []Value) Value {
			c := e.ctx
			x, y := e.term(args[0]), e.term(args[1])
			if x.IsConst() && y.IsConst() {
				if isMin {
					return c.FloatC(math.Min(x.Float(), y.Float()))
				}
				return c.FloatC(math.Max(x.Float(), y.Float()))
			}
			zero := c.FloatC(0)
			nan := c.Or(c.FIsNaN(x), c.FIsNaN(y))
			bothZero := c.And(c.FCmp(smt.OFEq, x, zero), c.FCmp(smt.OFEq, x, y))
			sign := c.Not(c.Cmp(smt.OEq, c.Bin(smt.OAnd, c.FBits(x), c.Const(smt.U64, 1<<63)), c.Const(smt.U64, 0)))
			var inf, isInf, zeroCase, plain *smt.Term
			if isMin {
				lim := c.FloatC(-math.MaxFloat64)
				isInf = c.Or(c.FCmp(smt.OFLt, x, lim), c.FCmp(smt.OFLt, y, lim))
				inf = c.FloatC(math.Inf(-1))
				zeroCase = c.Ite(sign, x, y)
				plain = c.Ite(c.FCmp(smt.OFLt, x, y), x, y)
			} else {
				lim := c.FloatC(math.MaxFloat64)
				isInf = c.Or(c.FCmp(smt.OFLt, lim, x), c.FCmp(smt.OFLt, lim, y))
				inf = c.FloatC(math.Inf(1))
				zeroCase = c.Ite(sign, y, x)
				plain = c.Ite(c.FCmp(smt.OFLt, y, x), x, y)
			}
			return c.Ite(isInf, inf, c.Ite(nan, c.FloatC(math.NaN()), c.Ite(bothZero, zeroCase, plain)))
		}
	}
	intrinsics["math.Min"] = mk(true)
	intrinsics["math.Max"] = mk(false)
}

// errors.Is without reflection: identity of the dynamic values, an Is method, the Unwrap chain.
// (Unwrap() []error trees are not followed; none of the targets uses them.)
func init() {
	intrinsics["errors.Is"] = func(e *Exec, th *Thread, caller *Frame, site ssa.Instruction, args []Value) Value {
		err, _ := args[0].(IfaceV)
		target, _ := args[1].(IfaceV)
		if err.T == nil || target.T == nil {
			return e.ctx.BoolC(err.T == nil && target.T == nil)
		}
		for depth := 0; depth < 16; depth++ {
			if types.Identical(err.T, target.T) && types.Comparable(err.T) {
				eq := e.equal(err.V, target.V)
				if !eq.IsConst() {
					panic(unsupported("errors.Is on symbolic error values"))
				}
				if eq.IsTrue() {
					return e.ctx.BoolC(true)
				}
			}
			lookup := func(name string) *ssa.Function {
				// (*ssa.Program).LookupMethod panics when the method set has no such method
				if e.prog.MethodSets.MethodSet(err.T).Lookup(nil, name) == nil {
					return nil
				}
				return e.prog.LookupMethod(err.T, nil, name)
			}
			if m := lookup("Is"); m != nil && m.Signature.Params().Len() == 1 && m.Signature.Results().Len() == 1 {
				r := e.callFn(th, caller, site, m, []Value{err.V, target}, nil)
				if t, ok := r.(*smt.Term); ok && t.IsTrue() {
					return e.ctx.BoolC(true)
				}
			}
			if p, ok := err.V.(*Pointer); ok && p.Slot != nil && e.wrapped != nil {
				if w, ok := e.wrapped[p.Slot]; ok {
					err = w
					continue
				}
			}
			m := lookup("Unwrap")
			if m == nil || m.Signature.Results().Len() != 1 {
				return e.ctx.BoolC(false)
			}
			if _, isSlice := m.Signature.Results().At(0).Type().Underlying().(*types.Slice); isSlice {
				return e.ctx.BoolC(false)
			}
			next, _ := e.callFn(th, caller, site, m, []Value{err.V}, nil).(IfaceV)
			if next.T == nil {
				return e.ctx.BoolC(false)
			}
			err = next
		}
		return e.ctx.BoolC(false)
	}
}
