// Package exec is the symbolic SSA executor of gosmt.
package exec

import (
	"fmt"
	"go/types"
	"strings"

	"golang.org/x/tools/go/ssa"

	"verif/gosmt/smt"
)

// Value is one of:
//
//	*smt.Term        bool / integer / float scalar (constant or symbolic)
//	string           concrete string
//	*SymStr          string with symbolic bytes, concrete length
//	*Pointer         pointer (nil pointer = (*Pointer)(nil))
//	StructV          struct (value semantics; copied on load)
//	*ArrObj          array value ([N]T) – value semantics via copyVal
//	SliceV           slice
//	IfaceV           interface value
//	*MapV            map
//	*ChanV           channel
//	*ssa.Function, *Closure, *ssa.Builtin, *Bound   function values
//	TupleV           multiple results
//	*Poison          result of something the executor does not support (error on use)
type Value interface{}

type StructV []Value
type TupleV []Value

type SymStr struct{ B []*smt.Term }

type Pointer struct {
	Slot *Value
	Arr  *ArrObj
	Idx  *smt.Term
	// Tag marks special targets (e.g. opaque native objects)
	Tag interface{}
}

type ArrObj struct {
	Elems []Value
	// symbolic byte/word array (SMT array); Elems is nil then
	Sym   *smt.Term
	N     int
	ElemS smt.Sort
	id    int
}

type SliceV struct {
	Base          *ArrObj
	Off, Len, Cap *smt.Term // sort I64 ("int")
}

type IfaceV struct {
	T types.Type
	V Value
}

type Closure struct {
	Fn  *ssa.Function
	Env []Value
}

// Bound is a bound method value or an interface method value.
type Bound struct {
	Fn   *ssa.Function
	Recv Value
}

type MapV struct {
	Keys  []Value
	Vals  []*Value
	Index map[string]int
	dead  []bool
	n     int
	symKeys int
}

type ChanV struct {
	Buf    []Value
	Cap    int
	Closed bool
	id     int
	// rendezvous for unbuffered channels
	recvWaiting int
	sent, recvd int
}

type Poison struct{ Why string }

// PtrInt is a pointer that was converted to uintptr (only the noescape idiom is supported).
type PtrInt struct{ P *Pointer }

// mapIter is the state of a range-over-map or range-over-string.
type mapIter struct {
	m   *MapV
	pos int
	str Value
	order []int
}

func (e *Exec) intSort() smt.Sort { return smt.I64 }

func sortOfBasic(b *types.Basic) (smt.Sort, bool) {
	switch b.Kind() {
	case types.Bool, types.UntypedBool:
		return smt.Bool, true
	case types.Int, types.Int64, types.UntypedInt, types.UntypedRune:
		return smt.I64, true
	case types.Int8:
		return smt.I8, true
	case types.Int16:
		return smt.I16, true
	case types.Int32:
		return smt.I32, true
	case types.Uint, types.Uint64, types.Uintptr:
		return smt.U64, true
	case types.Uint8:
		return smt.U8, true
	case types.Uint16:
		return smt.U16, true
	case types.Uint32:
		return smt.U32, true
	case types.Float64, types.UntypedFloat:
		return smt.F64, true
	case types.Float32:
		return smt.F32, true
	}
	return smt.Sort{}, false
}

func sortOf(t types.Type) (smt.Sort, bool) {
	if b, ok := t.Underlying().(*types.Basic); ok {
		return sortOfBasic(b)
	}
	return smt.Sort{}, false
}

func isString(t types.Type) bool {
	b, ok := t.Underlying().(*types.Basic)
	return ok && b.Info()&types.IsString != 0
}

// zero returns the zero value of t.
func (e *Exec) zero(t types.Type) Value {
	switch u := t.Underlying().(type) {
	case *types.Basic:
		if u.Info()&types.IsString != 0 {
			return ""
		}
		if u.Kind() == types.UnsafePointer {
			return (*Pointer)(nil)
		}
		if u.Kind() == types.UntypedNil {
			return (*Pointer)(nil)
		}
		s, ok := sortOfBasic(u)
		if !ok {
			panic(unsupported("zero of basic type " + u.String()))
		}
		return e.ctx.Const(s, 0)
	case *types.Pointer:
		return (*Pointer)(nil)
	case *types.Struct:
		s := make(StructV, u.NumFields())
		for i := range s {
			s[i] = e.zero(u.Field(i).Type())
		}
		return s
	case *types.Array:
		n := int(u.Len())
		if n > 1<<22 {
			panic(unsupported("huge array"))
		}
		a := &ArrObj{Elems: make([]Value, n)}
		e.nobj++
		a.id = e.nobj
		if n > 0 {
			// scalars share the (immutable) zero term
			if _, ok := sortOf(u.Elem()); ok {
				z := e.zero(u.Elem())
				for i := range a.Elems {
					a.Elems[i] = z
				}
			} else {
				for i := range a.Elems {
					a.Elems[i] = e.zero(u.Elem())
				}
			}
		}
		return a
	case *types.Slice:
		return SliceV{}
	case *types.Interface:
		return IfaceV{}
	case *types.Map:
		return (*MapV)(nil)
	case *types.Chan:
		return (*ChanV)(nil)
	case *types.Signature:
		return (*Closure)(nil)
	case *types.Tuple:
		tv := make(TupleV, u.Len())
		for i := range tv {
			tv[i] = e.zero(u.At(i).Type())
		}
		return tv
	}
	panic(unsupported("zero of " + t.String()))
}

// copyVal copies a value with Go value semantics (structs and arrays are deep-copied).
func (e *Exec) copyVal(v Value) Value {
	switch x := v.(type) {
	case StructV:
		n := make(StructV, len(x))
		for i, f := range x {
			n[i] = e.copyVal(f)
		}
		return n
	case *ArrObj:
		if x == nil {
			return x
		}
		n := &ArrObj{Sym: x.Sym, N: x.N, ElemS: x.ElemS}
		e.nobj++
		n.id = e.nobj
		if x.Elems != nil {
			n.Elems = make([]Value, len(x.Elems))
			for i, f := range x.Elems {
				n.Elems[i] = e.copyVal(f)
			}
		}
		return n
	case TupleV:
		n := make(TupleV, len(x))
		for i, f := range x {
			n[i] = e.copyVal(f)
		}
		return n
	}
	return v
}

func unsupported(s string) *Unsupported { return &Unsupported{Why: s} }

// Unsupported is raised (as a Go panic) when the executor meets something it cannot encode.
type Unsupported struct{ Why string }

func (u *Unsupported) Error() string { return "unsupported: " + u.Why }

func (e *Exec) term(v Value) *smt.Term {
	switch t := v.(type) {
	case *smt.Term:
		return t
	case *Poison:
		panic(unsupported("use of poisoned value: " + t.Why))
	}
	panic(unsupported(fmt.Sprintf("expected scalar, got %T", v)))
}

func (e *Exec) constInt(v Value) (int64, bool) {
	t, ok := v.(*smt.Term)
	if !ok || !t.IsConst() {
		return 0, false
	}
	return t.Int64(), true
}

func (e *Exec) mkInt(i int64) *smt.Term { return e.ctx.Int(smt.I64, i) }

// describe renders a value for diagnostics.
func describe(v Value) string {
	switch x := v.(type) {
	case nil:
		return "<unset>"
	case *smt.Term:
		return x.String()
	case string:
		return fmt.Sprintf("%q", x)
	case *SymStr:
		var sb strings.Builder
		sb.WriteString("symstr[")
		for i, b := range x.B {
			if i > 0 {
				sb.WriteString(" ")
			}
			sb.WriteString(b.String())
		}
		sb.WriteString("]")
		return sb.String()
	case *Pointer:
		if x == nil {
			return "nil"
		}
		if x.Slot != nil {
			return fmt.Sprintf("&%p", x.Slot)
		}
		return fmt.Sprintf("&arr%d[%s]", x.Arr.id, x.Idx)
	case StructV:
		var sb strings.Builder
		sb.WriteString("{")
		for i, f := range x {
			if i > 0 {
				sb.WriteString(", ")
			}
			if i > 8 {
				sb.WriteString("...")
				break
			}
			sb.WriteString(describe(f))
		}
		sb.WriteString("}")
		return sb.String()
	case *ArrObj:
		if x == nil {
			return "arr(nil)"
		}
		return fmt.Sprintf("arr%d(len %d)", x.id, len(x.Elems))
	case SliceV:
		if x.Base == nil {
			return "slice(nil)"
		}
		var sb strings.Builder
		fmt.Fprintf(&sb, "slice(arr%d off=%s len=%s)[", x.Base.id, x.Off, x.Len)
		if x.Len.IsConst() && x.Off.IsConst() && x.Base.Elems != nil {
			for i := int64(0); i < x.Len.Int64() && i < 12; i++ {
				if i > 0 {
					sb.WriteString(" ")
				}
				sb.WriteString(describe(x.Base.Elems[x.Off.Int64()+i]))
			}
		}
		sb.WriteString("]")
		return sb.String()
	case IfaceV:
		if x.T == nil {
			return "iface(nil)"
		}
		return fmt.Sprintf("iface(%s: %s)", x.T, describe(x.V))
	case *MapV:
		if x == nil {
			return "map(nil)"
		}
		return fmt.Sprintf("map(len %d)", x.n)
	case TupleV:
		var sb strings.Builder
		sb.WriteString("(")
		for i, f := range x {
			if i > 0 {
				sb.WriteString(", ")
			}
			sb.WriteString(describe(f))
		}
		sb.WriteString(")")
		return sb.String()
	case *ssa.Function:
		return "func " + x.String()
	case *Closure:
		if x == nil {
			return "func(nil)"
		}
		return "closure " + x.Fn.String()
	case *Poison:
		return "poison(" + x.Why + ")"
	}
	return fmt.Sprintf("%T", v)
}

// hashKey returns a string identifying a concrete value for map indexing, or ok=false if symbolic.
func (e *Exec) hashKey(v Value) (string, bool) {
	switch x := v.(type) {
	case *smt.Term:
		if !x.IsConst() {
			return "", false
		}
		return fmt.Sprintf("t%d:%d", x.Sort.K, x.K), true
	case string:
		return "s:" + x, true
	case *SymStr:
		// concrete if all bytes constant
		b := make([]byte, len(x.B))
		for i, t := range x.B {
			if !t.IsConst() {
				return "", false
			}
			b[i] = byte(t.K)
		}
		return "s:" + string(b), true
	case *Pointer:
		if x == nil {
			return "p:nil", true
		}
		if x.Slot != nil {
			return fmt.Sprintf("p:%p", x.Slot), true
		}
		if x.Idx != nil && x.Idx.IsConst() {
			return fmt.Sprintf("p:a%d:%d", x.Arr.id, x.Idx.K), true
		}
		return "", false
	case StructV:
		var sb strings.Builder
		sb.WriteString("{")
		for _, f := range x {
			k, ok := e.hashKey(f)
			if !ok {
				return "", false
			}
			sb.WriteString(k)
			sb.WriteString(",")
		}
		sb.WriteString("}")
		return sb.String(), true
	case *ArrObj:
		var sb strings.Builder
		sb.WriteString("[")
		for _, f := range x.Elems {
			k, ok := e.hashKey(f)
			if !ok {
				return "", false
			}
			sb.WriteString(k)
			sb.WriteString(",")
		}
		sb.WriteString("]")
		return sb.String(), true
	case IfaceV:
		if x.T == nil {
			return "i:nil", true
		}
		k, ok := e.hashKey(x.V)
		if !ok {
			return "", false
		}
		return "i:" + x.T.String() + ":" + k, true
	case *ChanV:
		return fmt.Sprintf("c:%p", x), true
	case *MapV:
		return fmt.Sprintf("m:%p", x), true
	}
	return "", false
}
