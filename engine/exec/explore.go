package exec

import (
	"encoding/json"
	"strconv"
	"fmt"
	"go/types"
	"math/big"
	"os"
	"regexp"
	"sort"
	"strings"
	"sync"
	"time"

	"golang.org/x/tools/go/ssa"

	"verif/gosmt/smt"
)

// Config is the per-harness configuration (from the harness manifest).
type Config struct {
	Entry         string   `json:"entry"`
	Enc           string   `json:"enc"`    // "bv" | "int"
	Solver        string   `json:"solver"` // binary; default z3-new
	Merge         string   `json:"merge"`  // "auto" | "off"
	ForkFuncs     []string `json:"fork_funcs"`
	MergeFuncs    []string `json:"merge_funcs"`
	Unwind        int      `json:"unwind"`
	MaxPaths      int      `json:"max_paths"`
	MaxSteps      int      `json:"max_steps"`
	MaxDepth      int      `json:"max_depth"`
	MaxMergeDepth int      `json:"max_merge_depth"`
	QueryTimeoutS float64  `json:"query_timeout_s"`
	FeasTimeoutS  float64  `json:"feas_timeout_s"`
	Preempt       int      `json:"preempt"`
	Workers       int      `json:"workers"`
	Stubs         map[string]string `json:"stubs"` // ssa function name -> harness function name
	Opaque        []string `json:"opaque"`         // extra opaque package prefixes
	LazyFeas      bool     `json:"lazy_feas"`
	ExpectViolation bool   `json:"expect_violation"` // reach twin
	Verbose       int      `json:"-"`
	Thorough      bool     `json:"-"`
	// concrete replay: fixed values of the nondet calls (tag -> values by occurrence) and fixed schedule
	FixedValues   map[string][]string `json:"-"`
	FixedSched    []int    `json:"-"`
	Replaying     bool     `json:"-"`
	TimeBudgetS   float64  `json:"time_budget_s"`
	forkRe        []*regexp.Regexp
	mergeRe       []*regexp.Regexp
}

func (c *Config) Defaults() {
	if c.Enc == "" {
		c.Enc = "bv"
	}
	if c.Solver == "" {
		c.Solver = "z3-new"
	}
	if c.Merge == "" {
		c.Merge = "auto"
	}
	if c.Unwind == 0 {
		c.Unwind = 16
	}
	if c.MaxPaths == 0 {
		c.MaxPaths = 200000
	}
	if c.MaxSteps == 0 {
		c.MaxSteps = 20000000
	}
	if c.MaxDepth == 0 {
		c.MaxDepth = 400
	}
	if c.MaxMergeDepth == 0 {
		c.MaxMergeDepth = 64
	}
	if c.QueryTimeoutS == 0 {
		c.QueryTimeoutS = 60
	}
	if c.FeasTimeoutS == 0 {
		c.FeasTimeoutS = 5
	}
	if c.Workers == 0 {
		c.Workers = 8
	}
	for _, s := range c.ForkFuncs {
		c.forkRe = append(c.forkRe, regexp.MustCompile(s))
	}
	for _, s := range c.MergeFuncs {
		c.mergeRe = append(c.mergeRe, regexp.MustCompile(s))
	}
}

// Shared is the read-only (or lock-protected) state shared by all runs of one harness.
type Shared struct {
	Prog    *ssa.Program
	Pkg     *ssa.Package
	mu      sync.Mutex
	minfo   map[*ssa.BasicBlock]*mergeInfo
	loopHdr map[*ssa.BasicBlock]bool
	loopFn  map[*ssa.Function]bool
	stubFns map[string]*ssa.Function
}

var deferMu sync.Mutex
var qlog = os.Getenv("GOSMT_QLOG") != ""

func NewShared(prog *ssa.Program, pkg *ssa.Package) *Shared {
	return &Shared{Prog: prog, Pkg: pkg, minfo: map[*ssa.BasicBlock]*mergeInfo{}, loopHdr: map[*ssa.BasicBlock]bool{}, loopFn: map[*ssa.Function]bool{}, stubFns: map[string]*ssa.Function{}}
}

// Decision is one choice point on a path.
type Decision struct {
	N      int    // alternatives
	Chosen int
	Site   string // for desync detection
	Feas   []bool
}

// NondetRec records one verifNondet* value of a path.
type NondetRec struct {
	Tag  string
	Occ  int
	Term *smt.Term
	Kind string
}

type Violation struct {
	Kind    string            `json:"kind"` // "assert" | "panic" | "deadlock"
	Label   string            `json:"label"`
	Where   string            `json:"where"`
	Prefix  []int             `json:"prefix"`
	Values  []ReplayValue     `json:"values"`
	Observe []string          `json:"observe,omitempty"`
	Sched   []int             `json:"sched,omitempty"`
}

type ReplayValue struct {
	Tag  string `json:"tag"`
	Occ  int    `json:"occ"`
	Kind string `json:"kind"`
	V    string `json:"v"` // decimal (unsigned bits for floats)
}

type Stats struct {
	Paths, PathsInfeasible                      int
	Queries, Sat, Unsat, Unknown, Errors        int
	SolverTime                                  time.Duration
	Asserts, AssertsTrivial, AssertsDischarged  int
	Obligations, ObligationsDischarged          int
	Merges, MergeFails                          int
	Decisions                                   int
	Steps                                       int
	SchedPoints                                 int
	Unwinds                                     int
	Terms                                       int
	CacheHits                                   int
	ModelHits                                   int
}

func (s *Stats) add(o *Stats) {
	s.Paths += o.Paths
	s.PathsInfeasible += o.PathsInfeasible
	s.Queries += o.Queries
	s.Sat += o.Sat
	s.Unsat += o.Unsat
	s.Unknown += o.Unknown
	s.Errors += o.Errors
	s.SolverTime += o.SolverTime
	s.Asserts += o.Asserts
	s.AssertsTrivial += o.AssertsTrivial
	s.AssertsDischarged += o.AssertsDischarged
	s.Obligations += o.Obligations
	s.ObligationsDischarged += o.ObligationsDischarged
	s.Merges += o.Merges
	s.MergeFails += o.MergeFails
	s.Decisions += o.Decisions
	s.Steps += o.Steps
	s.SchedPoints += o.SchedPoints
	s.Unwinds += o.Unwinds
	s.Terms += o.Terms
	s.CacheHits += o.CacheHits
	s.ModelHits += o.ModelHits
}

// PathResult is what one run (one decision prefix) produced.
type PathResult struct {
	Prefix       []int
	Decisions    []Decision
	End          string // "done" | "infeasible" | "assume-false" | ...
	Violations   []Violation
	Inconclusive []string
	Pending      [][]int
	Stats        Stats
	Funcs        map[string]int
	Sample       string
	AssertLabels map[string]int
	Reached      bool
}

// Exec is the state of one run.
type Exec struct {
	shared *Shared
	prog   *ssa.Program
	cfg    *Config
	ctx    *smt.Ctx
	sol    *smt.Solver

	globals   map[*ssa.Global]*Value
	pkgInit   map[*ssa.Package]int
	pc        []*smt.Term
	guards    []*smt.Term
	gconj     *smt.Term
	log       *writeLog
	sideDepth int
	noMerge   map[*ssa.BasicBlock]bool

	prefix    []int
	dpos      int
	decisions []Decision
	pending   [][]int

	nondets   []NondetRec
	nondetOcc map[string]int
	observes  []observeRec

	wrapped   map[*Value]IfaceV // errors made by the fmt.Errorf intrinsic with %w -> the wrapped error
	nobj      int
	steps     int
	depth     int
	stats     Stats
	res       *PathResult
	funcsSeen map[*ssa.Function]int

	threads   []*Thread
	cur       *Thread
	preempts  int
	aborted   bool
	sched     []int

	watched    map[*Value]bool
	unsatCache map[string]bool
	uuidCounter int
	schedPos    int
	lastModel   map[*smt.Term]uint64
	lastEval    *smt.Evaluator
	modelPCLen  int
	modelFresh  bool
	clockTick   int
	syncs      map[*Value]*syncSt
	resched    bool
	deadlocked bool
	abortWith  interface{}
	tolerant  int // >0 while running package initialisers
	clock     *smt.Term
	harnessPkg *ssa.Package
	intr      map[string]intrinsic
	natives   map[string]interface{}
}

func (e *Exec) snapshotDecisions() [5]int {
	return [5]int{e.dpos, len(e.decisions), len(e.pending), len(e.nondets), len(e.observes)}
}
func (e *Exec) restoreDecisions(s [5]int) {
	e.dpos = s[0]
	e.decisions = e.decisions[:s[1]]
	e.pending = e.pending[:s[2]]
	for _, n := range e.nondets[s[3]:] {
		e.nondetOcc[n.Tag]--
	}
	e.nondets = e.nondets[:s[3]]
	e.observes = e.observes[:s[4]]
}

func (e *Exec) guardConj() *smt.Term {
	if e.gconj != nil {
		return e.gconj
	}
	g := e.ctx.BoolC(true)
	for _, x := range e.guards {
		g = e.ctx.And(g, x)
	}
	e.gconj = g
	return g
}

// addPC adds a path constraint (under the current guards).
func (e *Exec) addPC(c *smt.Term) {
	if len(e.guards) > 0 {
		c = e.ctx.Implies(e.guardConj(), c)
	}
	if c.IsTrue() {
		return
	}
	e.pc = append(e.pc, c)
}

func (e *Exec) query(timeout float64, extra ...*smt.Term) smt.Result {
	asserts := make([]*smt.Term, 0, len(e.pc)+len(e.guards)+len(extra))
	asserts = append(asserts, e.pc...)
	if len(e.guards) > 0 {
		asserts = append(asserts, e.guardConj())
	}
	for _, x := range extra {
		if x.IsFalse() {
			return smt.Unsat
		}
		if !x.IsTrue() {
			asserts = append(asserts, x)
		}
	}
	for _, x := range asserts {
		if x.IsFalse() {
			return smt.Unsat
		}
	}
	// unsat answers stay valid when the path condition grows: cache them per (guards, extra)
	var ckey string
	if len(extra) == 1 {
		ckey = fmt.Sprintf("%d|%d", e.guardConj().ID, extra[0].ID)
		if e.unsatCache[ckey] {
			e.stats.CacheHits++
			return smt.Unsat
		}
	}
	tq := time.Now()
	r := e.sol.Check(time.Duration(timeout*float64(time.Second)), asserts...)
	if qlog {
		last := ""
		if len(extra) > 0 {
			last = extra[len(extra)-1].String()
			if len(last) > 100 {
				last = last[:100]
			}
		}
		fmt.Printf("    query %d asserts -> %s %.2fs  [%s]\n", len(asserts), r, time.Since(tq).Seconds(), last)
	}
	if r == smt.Unsat && ckey != "" {
		if e.unsatCache == nil {
			e.unsatCache = map[string]bool{}
		}
		e.unsatCache[ckey] = true
	}
	return r
}

// feasible reports whether pc ∧ guards ∧ c may be satisfiable (unknown counts as feasible).
func (e *Exec) feasible(c *smt.Term) bool {
	if c.IsTrue() {
		return true
	}
	if c.IsFalse() {
		return false
	}
	// a model of an earlier query that also satisfies what was added since, the guards and c, is a witness
	if e.lastModel != nil && e.cfg.Enc == "bv" {
		ev := e.lastEval
		ok := true
		for _, p := range e.pc[e.modelPCLen:] {
			if v, k := ev.Eval(p); !k || v != 1 {
				ok = false
				break
			}
		}
		if ok {
			e.modelPCLen = len(e.pc)
			if len(e.guards) > 0 {
				if v, k := ev.Eval(e.guardConj()); !k || v != 1 {
					ok = false
				}
			}
		}
		if ok {
			if v, k := ev.Eval(c); k && v == 1 {
				e.stats.ModelHits++
				return true
			}
		} else {
			e.lastModel = nil
		}
	}
	r := e.query(e.cfg.FeasTimeoutS, c)
	if r == smt.Sat {
		if e.cfg.Enc == "bv" {
			e.captureModel()
		}
		e.sol.EndModel()
	}
	return r != smt.Unsat
}

// captureModel reads the values of all declared integer/boolean variables from the solver's model.
func (e *Exec) captureModel() {
	var vs []*smt.Term
	for _, v := range e.ctx.Vars {
		if v.Sort.K == smt.KInt || v.Sort.K == smt.KBool {
			vs = append(vs, v)
		}
	}
	vals, err := e.sol.Values(vs)
	if err != nil {
		e.lastModel = nil
		return
	}
	m := map[*smt.Term]uint64{}
	for i, v := range vs {
		if vals[i] == "" {
			if v.Sort.K == smt.KInt {
				// undeclared variable: any value of its interval
				if v.Lo.Sign() < 0 {
					m[v] = uint64(v.Lo.Int64()) & maskW(v.Sort)
				} else {
					m[v] = v.Lo.Uint64()
				}
			} else {
				m[v] = 0
			}
			continue
		}
		bits, ok := smt.ParseValue(vals[i], v.Sort)
		if !ok {
			e.lastModel = nil
			return
		}
		m[v] = bits
	}
	e.lastModel = m
	e.lastEval = smt.NewEvaluator(m)
	e.modelPCLen = len(e.pc)
}

// decideN takes an n-way decision whose alternatives have the given conditions.
func (e *Exec) decideN(site string, conds []*smt.Term) int {
	return e.decideNX(site, conds, false)
}

// decideNX: allFeasible skips the feasibility queries (the caller knows every alternative is possible).
const impliedFlag = 1 << 20

func (e *Exec) decideNX(site string, conds []*smt.Term, allFeasible bool) int {
	n := len(conds)
	if e.cfg.Replaying {
		// concrete replay: exactly one alternative is true
		for i, c := range conds {
			if c.IsTrue() {
				allOther := true
				for j, o := range conds {
					if j != i && !o.IsFalse() {
						allOther = false
					}
				}
				if allOther {
					return i
				}
			}
		}
	}
	e.stats.Decisions++
	if e.dpos < len(e.prefix) {
		d := e.prefix[e.dpos]
		e.dpos++
		// an implied decision (the only satisfiable alternative under the path condition) carries a
		// flag: its condition follows from the path condition and is not added to it
		implied := d&impliedFlag != 0
		d &^= impliedFlag
		if d >= n {
			panic(&Desync{fmt.Sprintf("decision %d out of range %d at %s", d, n, site)})
		}
		if implied {
			e.decisions = append(e.decisions, Decision{N: n, Chosen: d | impliedFlag, Site: site})
			return d
		}
		e.decisions = append(e.decisions, Decision{N: n, Chosen: d, Site: site})
		e.addPC(conds[d])
		return d
	}
	feas := make([]bool, n)
	first := -1
	nfeas := 0
	checked := !(allFeasible || e.cfg.LazyFeas) && len(e.guards) == 0
	for i, c := range conds {
		if (allFeasible || e.cfg.LazyFeas) && !c.IsConst() {
			feas[i] = true
		} else if i == 1 && n == 2 && !feas[0] && len(e.guards) == 0 && c == e.ctx.Not(conds[0]) {
			// the path condition is feasible and excludes conds[0]: its complement holds
			feas[i] = true
		} else {
			feas[i] = e.feasible(c)
		}
		if feas[i] {
			nfeas++
			if first < 0 {
				first = i
			}
		}
	}
	if first < 0 {
		panic(&pathEnd{"infeasible"})
	}
	if checked && nfeas == 1 && n > 1 && !e.cfg.Replaying {
		// every other alternative is unsatisfiable under the (feasible) path condition, so the path
		// condition implies this one: keep the path condition small
		e.decisions = append(e.decisions, Decision{N: n, Chosen: first | impliedFlag, Site: site, Feas: feas})
		e.dpos++
		return first
	}
	base := make([]int, len(e.decisions))
	for i, d := range e.decisions {
		base[i] = d.Chosen
	}
	for i := first + 1; i < n; i++ {
		if feas[i] {
			p := append(append([]int{}, base...), i)
			e.pending = append(e.pending, p)
		}
	}
	e.decisions = append(e.decisions, Decision{N: n, Chosen: first, Site: site, Feas: feas})
	e.dpos++
	e.addPC(conds[first])
	return first
}

type Desync struct{ Why string }

type observeRec struct {
	label string
	vals  []Value
}

func (e *Exec) decideBool(fr *Frame, in ssa.Instruction, c *smt.Term, site string) bool {
	return e.decideN(site, []*smt.Term{c, e.ctx.Not(c)}) == 0
}

// concretize forks over the values lo..hi of a symbolic integer.
func (e *Exec) concretize(fr *Frame, in ssa.Instruction, t *smt.Term, lo, hi int) int {
	if t.IsConst() {
		return int(t.Int64())
	}
	if hi-lo > 4096 {
		panic(unsupported("concretisation range too large at " + e.pos(in)))
	}
	conds := make([]*smt.Term, 0, hi-lo+1)
	for i := lo; i <= hi; i++ {
		conds = append(conds, e.ctx.Cmp(smt.OEq, t, e.ctx.Int(t.Sort, int64(i))))
	}
	return lo + e.decideN("concretize "+e.pos(in), conds)
}

// obligation: cond must hold, otherwise the Go program panics with msg.
func (e *Exec) obligation(th *Thread, fr *Frame, in ssa.Instruction, cond *smt.Term, msg string) {
	if cond.IsTrue() {
		return
	}
	if cond.IsFalse() {
		e.goPanic(th, fr, in, msg)
	}
	e.stats.Obligations++
	if e.sideDepth > 0 {
		r := e.query(e.cfg.FeasTimeoutS, e.ctx.Not(cond))
		if r == smt.Sat {
			e.sol.EndModel()
		}
		if r != smt.Unsat {
			panic(&mergeAbort{"possible panic in side: " + msg})
		}
		e.stats.ObligationsDischarged++
		return
	}
	if e.decideN("oblig "+e.pos(in)+" "+msg, []*smt.Term{cond, e.ctx.Not(cond)}) == 1 {
		e.goPanic(th, fr, in, msg)
	}
	e.stats.ObligationsDischarged++
}

// ---------------------------------------------------------------- nondet / assume / assert

func (e *Exec) nondet(tag string, s smt.Sort, lo, hi *big.Int, kind string) *smt.Term {
	occ := e.nondetOcc[tag]
	e.nondetOcc[tag] = occ + 1
	if e.cfg.Replaying {
		var bits uint64
		if l := e.cfg.FixedValues[tag]; occ < len(l) && l[occ] != "" {
			if u, err := strconv.ParseUint(l[occ], 10, 64); err == nil {
				bits = u
			} else if i, err := strconv.ParseInt(l[occ], 10, 64); err == nil {
				bits = uint64(i)
			}
		} else if lo != nil {
			bits = uint64(lo.Int64())
		}
		v := e.ctx.Const(s, bits)
		e.nondets = append(e.nondets, NondetRec{Tag: tag, Occ: occ, Term: v, Kind: kind})
		return v
	}
	name := fmt.Sprintf("v_%s_%d", sanitize(tag), occ)
	v := e.ctx.Var(name, s, lo, hi)
	e.nondets = append(e.nondets, NondetRec{Tag: tag, Occ: occ, Term: v, Kind: kind})
	return v
}

func maskW(s smt.Sort) uint64 {
	if s.W >= 64 {
		return ^uint64(0)
	}
	return (uint64(1) << s.W) - 1
}

func sanitize(s string) string {
	var sb strings.Builder
	for _, r := range s {
		if (r >= 'a' && r <= 'z') || (r >= 'A' && r <= 'Z') || (r >= '0' && r <= '9') || r == '_' {
			sb.WriteRune(r)
		} else {
			sb.WriteRune('_')
		}
	}
	return sb.String()
}

func (e *Exec) assume(c *smt.Term) {
	if c.IsTrue() {
		return
	}
	if c.IsFalse() {
		if len(e.guards) > 0 {
			panic(&pathEnd{"infeasible-side"})
		}
		panic(&pathEnd{"assume-false"})
	}
	e.addPC(c)
	if !e.cfg.LazyFeas && len(e.guards) == 0 {
		if !e.feasiblePC() {
			panic(&pathEnd{"assume-infeasible"})
		}
	}
}

// feasiblePC reports whether the path condition itself may be satisfiable (unknown counts as feasible).
func (e *Exec) feasiblePC() bool {
	if e.lastModel != nil && e.cfg.Enc == "bv" {
		ok := true
		for _, p := range e.pc[e.modelPCLen:] {
			if v, k := e.lastEval.Eval(p); !k || v != 1 {
				ok = false
				break
			}
		}
		if ok {
			e.modelPCLen = len(e.pc)
			e.stats.ModelHits++
			return true
		}
		e.lastModel = nil
	}
	r := e.query(e.cfg.FeasTimeoutS)
	if r == smt.Sat {
		if e.cfg.Enc == "bv" {
			e.captureModel()
		}
		e.sol.EndModel()
	}
	return r != smt.Unsat
}

func (e *Exec) assert(fr *Frame, site ssa.Instruction, c *smt.Term, label string) {
	e.stats.Asserts++
	e.res.AssertLabels[label]++
	if c.IsTrue() {
		e.stats.AssertsTrivial++
		e.stats.AssertsDischarged++
		return
	}
	if os.Getenv("GOSMT_DUMPASSERT") == label {
		smt.StrDepth = 60
		fmt.Println("ASSERT", label, ":", c.String())
		smt.StrDepth = 6
	}
	r := e.query(e.cfg.QueryTimeoutS, e.ctx.Not(c))
	switch r {
	case smt.Unsat:
		e.stats.AssertsDischarged++
	case smt.Sat:
		v := e.violationFromModel("assert", label, e.pos(site))
		e.sol.EndModel()
		e.res.Violations = append(e.res.Violations, v)
		// continue under the assumption that the assertion held, to find other failures
		e.addPC(c)
	default:
		e.res.Inconclusive = append(e.res.Inconclusive, fmt.Sprintf("assert %q at %s: solver %s (%s)", label, e.pos(site), r, e.sol.LastErr))
		e.addPC(c)
	}
}

func (e *Exec) violationFromModel(kind, label, where string) Violation {
	v := Violation{Kind: kind, Label: label, Where: where}
	for _, d := range e.decisions {
		v.Prefix = append(v.Prefix, d.Chosen&^impliedFlag)
	}
	ts := make([]*smt.Term, len(e.nondets))
	for i, n := range e.nondets {
		ts[i] = n.Term
	}
	vals, err := e.sol.Values(ts)
	for i, n := range e.nondets {
		rv := ReplayValue{Tag: n.Tag, Occ: n.Occ, Kind: n.Kind}
		var bits uint64
		ok := false
		if err == nil && vals[i] != "" {
			bits, ok = smt.ParseValue(vals[i], n.Term.Sort)
		}
		if !ok {
			// unconstrained: smallest value of the interval
			if n.Term.Sort.K == smt.KInt {
				bits = n.Term.Lo.Uint64()
				if n.Term.Lo.Sign() < 0 {
					bits = uint64(n.Term.Lo.Int64())
				}
			}
		}
		if n.Term.Sort.K == smt.KInt && n.Term.Sort.Signed {
			rv.V = fmt.Sprintf("%d", smt.SignExt(bits, int(n.Term.Sort.W)))
		} else {
			rv.V = fmt.Sprintf("%d", bits)
		}
		v.Values = append(v.Values, rv)
	}
	for _, o := range e.observes {
		line := o.label + ":"
		var ts2 []*smt.Term
		for _, x := range o.vals {
			if t, ok := x.(*smt.Term); ok && !t.IsConst() && t.Sort.K != smt.KArr {
				ts2 = append(ts2, t)
			}
		}
		var vals2 []string
		if len(ts2) > 0 {
			vals2, _ = e.sol.Values(ts2)
			// terms the solver has no definition for are evaluated under the model's variable values
			if e.lastEval == nil || e.modelFresh == false {
				e.captureModel()
			}
			for i2, t2 := range ts2 {
				if i2 < len(vals2) && vals2[i2] == "" && e.lastEval != nil {
					if bits, ok := e.lastEval.Eval(t2); ok {
						switch t2.Sort.K {
						case smt.KBool:
							if bits == 1 {
								vals2[i2] = "true"
							} else {
								vals2[i2] = "false"
							}
						case smt.KInt:
							vals2[i2] = fmt.Sprintf("(_ bv%d %d)", bits, t2.Sort.W)
						}
					}
				}
			}
		}
		k := 0
		for _, x := range o.vals {
			switch t := x.(type) {
			case *smt.Term:
				var bits uint64
				ok := true
				if t.IsConst() {
					bits = t.K
				} else {
					ok = false
					if k < len(vals2) {
						bits, ok = smt.ParseValue(vals2[k], t.Sort)
					}
					k++
				}
				switch {
				case !ok:
					line += " ?"
				case t.Sort.K == smt.KBool:
					line += fmt.Sprintf(" %v", bits == 1)
				case t.Sort.K == smt.KInt && t.Sort.Signed:
					line += fmt.Sprintf(" %d", smt.SignExt(bits, int(t.Sort.W)))
				case t.Sort.K == smt.KInt:
					line += fmt.Sprintf(" %d", bits)
				default:
					line += fmt.Sprintf(" f%d", bits)
				}
			case string:
				line += " " + t
			default:
				line += " ?"
			}
		}
		v.Observe = append(v.Observe, line)
	}
	v.Sched = append(v.Sched, e.sched...)
	return v
}

// ---------------------------------------------------------------- one run

type Runner struct {
	Shared *Shared
	Cfg    *Config
	Entry  *ssa.Function
}

func (r *Runner) newExec(sol *smt.Solver, prefix []int) *Exec {
	e := &Exec{shared: r.Shared, prog: r.Shared.Prog, cfg: r.Cfg, ctx: smt.NewCtx(), sol: sol,
		globals: map[*ssa.Global]*Value{}, pkgInit: map[*ssa.Package]int{}, noMerge: map[*ssa.BasicBlock]bool{},
		prefix: prefix, nondetOcc: map[string]int{}, funcsSeen: map[*ssa.Function]int{}, harnessPkg: r.Shared.Pkg}
	e.res = &PathResult{Prefix: prefix, AssertLabels: map[string]int{}}
	return e
}

// RunPath executes the harness once along the given decision prefix.
func (r *Runner) RunPath(sol *smt.Solver, prefix []int) (res *PathResult) {
	e := r.newExec(sol, prefix)
	res = e.res
	sol.P.ResetAll()
	sol.Reset()
	q0, s0, u0, k0, t0, er0 := sol.Queries, sol.NSat, sol.NUnsat, sol.NUnk, sol.Time, sol.NErr
	th := e.newThread(nil)
	e.cur = th
	func() {
		defer func() {
			if x := recover(); x != nil {
				switch p := x.(type) {
				case *pathEnd:
					res.End = p.why
				case *Unsupported:
					res.End = "unsupported"
					res.Inconclusive = append(res.Inconclusive, p.Error())
				case *Desync:
					res.End = "desync"
					res.Inconclusive = append(res.Inconclusive, "replay desync: "+p.Why)
				case *GoPanic:
					// a Go panic that escaped the harness: a violation if the path is feasible
					res.End = "panic"
					if e.feasibleForReport() {
						v := e.violationFromModel("panic", p.Msg, p.Where)
						e.sol.EndModel()
						res.Violations = append(res.Violations, v)
					}
				default:
					if os.Getenv("GOSMT_CRASH") != "" {
						panic(x)
					}
					res.End = "engine-error"
					res.Inconclusive = append(res.Inconclusive, fmt.Sprintf("engine error: %v", x))
				}
			}
		}()
		e.callFn(th, nil, nil, r.Entry, nil, nil)
		e.finishThreads(th)
		res.End = "done"
		res.Reached = true
	}()
	e.killThreads()
	for _, d := range e.decisions {
		_ = d
	}
	res.Decisions = e.decisions
	res.Pending = e.pending
	e.stats.Paths = 1
	if res.End == "infeasible" || res.End == "assume-false" || res.End == "assume-infeasible" {
		e.stats.PathsInfeasible = 1
	}
	e.stats.Queries = sol.Queries - q0
	e.stats.Sat = sol.NSat - s0
	e.stats.Unsat = sol.NUnsat - u0
	e.stats.Unknown = sol.NUnk - k0
	e.stats.Errors = sol.NErr - er0
	e.stats.SolverTime = sol.Time - t0
	e.stats.Steps = e.steps
	e.stats.Terms = e.ctx.Terms
	res.Stats = e.stats
	res.Funcs = map[string]int{}
	for f, n := range e.funcsSeen {
		res.Funcs[f.String()] = n
	}
	if len(e.pc) > 0 || len(e.nondets) > 0 {
		var sb strings.Builder
		for i, n := range e.nondets {
			if i > 6 {
				sb.WriteString(" ...")
				break
			}
			fmt.Fprintf(&sb, "%s ", n.Term.Name)
		}
		sb.WriteString("| pc:")
		for i, c := range e.pc {
			if i > 4 {
				sb.WriteString(" ...")
				break
			}
			s := c.String()
			if len(s) > 160 {
				s = s[:160] + "…"
			}
			sb.WriteString(" " + s)
		}
		res.Sample = sb.String()
	}
	return res
}

func (e *Exec) feasibleForReport() bool {
	// guards are irrelevant here: a panic that escapes was not inside a merge side
	e.guards = nil
	e.gconj = nil
	r := e.query(e.cfg.QueryTimeoutS)
	if r == smt.Sat {
		return true
	}
	if r != smt.Unsat {
		e.res.Inconclusive = append(e.res.Inconclusive, "panic path: feasibility "+r.String())
	}
	return false
}

// ---------------------------------------------------------------- exploration

type Summary struct {
	Harness      string
	Violations   []Violation
	Inconclusive []string
	Stats        Stats
	Funcs        map[string]int
	Samples      []string
	Ends         map[string]int
	Wall         time.Duration
	Exhausted    bool // all paths within the bounds were explored
	AssertLabels map[string]int
	Reached      int
}

func (r *Runner) Explore() *Summary {
	cfg := r.Cfg
	sum := &Summary{Harness: cfg.Entry, Funcs: map[string]int{}, Ends: map[string]int{}, AssertLabels: map[string]int{}}
	t0 := time.Now()
	var mu sync.Mutex
	cond := sync.NewCond(&mu)
	work := [][]int{{}}
	active := 0
	done := false
	paths := 0
	enc := smt.EncBV
	if cfg.Enc == "int" {
		enc = smt.EncInt
	}
	seenViol := map[string]bool{}
	// once a violation that is not a listed known finding has been found the verdict is settled:
	// exploration goes on for a grace period (other labels may still turn up) and then stops
	var stopAt time.Time
	grace, _ := strconv.ParseFloat(os.Getenv("GOSMT_STOP_GRACE"), 64)
	var knownRe []*regexp.Regexp
	if kl := os.Getenv("GOSMT_KNOWN_LABELS"); kl != "" {
		var pats []string
		if json.Unmarshal([]byte(kl), &pats) == nil {
			for _, p := range pats {
				if re, err := regexp.Compile(p); err == nil {
					knownRe = append(knownRe, re)
				}
			}
		}
	}
	isKnown := func(label string) bool {
		for _, re := range knownRe {
			if re.MatchString(label) {
				return true
			}
		}
		return false
	}
	var wg sync.WaitGroup
	nw := cfg.Workers
	for w := 0; w < nw; w++ {
		wg.Add(1)
		go func() {
			defer wg.Done()
			var sol *smt.Solver
			defer func() {
				if sol != nil {
					sol.Close()
				}
			}()
			for {
				mu.Lock()
				for len(work) == 0 && active > 0 && !done {
					cond.Wait()
				}
				if done || (len(work) == 0 && active == 0) {
					mu.Unlock()
					cond.Broadcast()
					return
				}
				p := work[len(work)-1]
				work = work[:len(work)-1]
				active++
				paths++
				if !stopAt.IsZero() && time.Now().After(stopAt) {
					done = true
					paths--
					active--
					mu.Unlock()
					cond.Broadcast()
					return
				}
				if paths > cfg.MaxPaths || (cfg.TimeBudgetS > 0 && time.Since(t0).Seconds() > cfg.TimeBudgetS) {
					done = true
					sum.Inconclusive = append(sum.Inconclusive, fmt.Sprintf("exploration budget exhausted after %d paths (%.0fs); %d prefixes unexplored", paths-1, time.Since(t0).Seconds(), len(work)+1))
					active--
					mu.Unlock()
					cond.Broadcast()
					return
				}
				mu.Unlock()
				if sol == nil {
					sol = smt.NewSolver(cfg.Solver, enc)
					if lf := os.Getenv("GOSMT_SMTLOG"); lf != "" {
						f, _ := os.Create(lf)
						sol.Log = f
					}
				}
				res := r.RunPath(sol, p)
				mu.Lock()
				active--
				for i := len(res.Pending) - 1; i >= 0; i-- {
					work = append(work, res.Pending[i])
				}
				sum.Stats.add(&res.Stats)
				sum.Ends[res.End]++
				if res.Reached {
					sum.Reached++
				}
				for k, v := range res.Funcs {
					sum.Funcs[k] += v
				}
				for k, v := range res.AssertLabels {
					sum.AssertLabels[k] += v
				}
				if len(sum.Samples) < 5 && res.Sample != "" {
					sum.Samples = append(sum.Samples, res.Sample)
				}
				for _, v := range res.Violations {
					key := v.Kind + "|" + v.Label + "|" + v.Where
					if !seenViol[key] || len(sum.Violations) < 3 {
						if len(sum.Violations) < 50 {
							sum.Violations = append(sum.Violations, v)
						}
					}
					seenViol[key] = true
					if grace > 0 && stopAt.IsZero() && !cfg.ExpectViolation && !isKnown(v.Label) {
						stopAt = time.Now().Add(time.Duration(grace * float64(time.Second)))
					}
				}
				for _, s := range res.Inconclusive {
					if len(sum.Inconclusive) < 50 {
						sum.Inconclusive = append(sum.Inconclusive, s)
					}
				}
				if cfg.Verbose > 0 {
					fmt.Printf("  path %v end=%s viol=%d pend=%d q=%d steps=%d\n", p, res.End, len(res.Violations), len(res.Pending), res.Stats.Queries, res.Stats.Steps)
				}
				mu.Unlock()
				cond.Broadcast()
			}
		}()
	}
	wg.Wait()
	sum.Wall = time.Since(t0)
	sum.Exhausted = !done
	sort.Strings(sum.Inconclusive)
	return sum
}

var _ = types.Typ
