package exec

import (
	"fmt"
	"go/token"
	"go/types"
	"unicode/utf8"

	"golang.org/x/tools/go/ssa"

	"verif/gosmt/smt"
)

func (e *Exec) unop(fr *Frame, in *ssa.UnOp, x Value) Value {
	switch in.Op {
	case token.MUL:
		return e.load(fr.th, fr, in, x)
	case token.SUB:
		t := e.term(x)
		switch t.Sort.K {
		case smt.KF64, smt.KF32:
			return e.ctx.FNeg(t)
		}
		return e.ctx.Neg(t)
	case token.NOT:
		return e.ctx.Not(e.term(x))
	case token.XOR:
		return e.ctx.BNot(e.term(x))
	case token.ARROW:
		v, ok := e.chanRecv(fr.th, fr, in, x)
		if in.CommaOk {
			return TupleV{v, e.ctx.BoolC(ok)}
		}
		return v
	}
	panic(unsupported("unop " + in.Op.String()))
}

func (e *Exec) strBytes(v Value) ([]*smt.Term, bool) {
	switch s := v.(type) {
	case string:
		return e.symStr(s).B, true
	case *SymStr:
		return s.B, true
	}
	return nil, false
}

func (e *Exec) strLen(v Value) int {
	switch s := v.(type) {
	case string:
		return len(s)
	case *SymStr:
		return len(s.B)
	}
	panic(unsupported(fmt.Sprintf("len of %T as string", v)))
}

func (e *Exec) normStr(b []*smt.Term) Value {
	buf := make([]byte, len(b))
	for i, t := range b {
		if !t.IsConst() {
			return &SymStr{B: b}
		}
		buf[i] = byte(t.K)
	}
	return string(buf)
}

// strCmp returns terms for a==b and a<b.
func (e *Exec) strCmp(a, b Value) (eq, lt *smt.Term) {
	if sa, ok := a.(string); ok {
		if sb, ok := b.(string); ok {
			return e.ctx.BoolC(sa == sb), e.ctx.BoolC(sa < sb)
		}
	}
	ba, _ := e.strBytes(a)
	bb, _ := e.strBytes(b)
	c := e.ctx
	if len(ba) != len(bb) {
		eq = c.BoolC(false)
	} else {
		eq = c.BoolC(true)
		for i := range ba {
			eq = c.And(eq, c.Cmp(smt.OEq, ba[i], bb[i]))
		}
	}
	// lexicographic less: build from the end
	n := len(ba)
	if len(bb) < n {
		n = len(bb)
	}
	lt = c.BoolC(len(ba) < len(bb))
	for i := n - 1; i >= 0; i-- {
		lt = c.Or(c.Cmp(smt.OLt, ba[i], bb[i]), c.And(c.Cmp(smt.OEq, ba[i], bb[i]), lt))
	}
	return
}

// equal builds the term for a == b (Go comparison semantics).
func (e *Exec) equal(a, b Value) *smt.Term {
	c := e.ctx
	switch x := a.(type) {
	case *smt.Term:
		y := e.term(b)
		if x.Sort.K == smt.KF64 || x.Sort.K == smt.KF32 {
			return c.FCmp(smt.OFEq, x, y)
		}
		return c.Cmp(smt.OEq, x, y)
	case string, *SymStr:
		eq, _ := e.strCmp(a, b)
		return eq
	case *Pointer:
		y, ok := b.(*Pointer)
		if !ok {
			panic(unsupported(fmt.Sprintf("compare pointer with %T", b)))
		}
		if x == nil || y == nil {
			return c.BoolC(x == nil && y == nil)
		}
		if x.Slot != nil || y.Slot != nil {
			return c.BoolC(x.Slot == y.Slot)
		}
		if x.Arr != y.Arr {
			return c.BoolC(false)
		}
		return c.Cmp(smt.OEq, x.Idx, y.Idx)
	case StructV:
		y := b.(StructV)
		r := c.BoolC(true)
		for i := range x {
			r = c.And(r, e.equal(x[i], y[i]))
		}
		return r
	case *ArrObj:
		y := b.(*ArrObj)
		r := c.BoolC(true)
		if x.Elems == nil || y.Elems == nil {
			panic(unsupported("compare of symbolic arrays"))
		}
		for i := range x.Elems {
			r = c.And(r, e.equal(x.Elems[i], y.Elems[i]))
		}
		return r
	case IfaceV:
		y, ok := b.(IfaceV)
		if !ok {
			panic(unsupported(fmt.Sprintf("compare iface with %T", b)))
		}
		if x.T == nil || y.T == nil {
			return c.BoolC(x.T == nil && y.T == nil)
		}
		if !types.Identical(x.T, y.T) {
			return c.BoolC(false)
		}
		return e.equal(x.V, y.V)
	case *MapV:
		y, _ := b.(*MapV)
		return c.BoolC(x == y)
	case *ChanV:
		y, _ := b.(*ChanV)
		return c.BoolC(x == y)
	case SliceV:
		y := b.(SliceV)
		if x.Base == nil || y.Base == nil {
			return c.BoolC(x.Base == nil && y.Base == nil)
		}
		panic(unsupported("slice comparison"))
	case *Closure:
		y, ok := b.(*Closure)
		if ok {
			return c.BoolC(x == nil && y == nil)
		}
		return c.BoolC(false)
	case *ssa.Function:
		switch y := b.(type) {
		case *ssa.Function:
			return c.BoolC(x == y)
		case *Closure:
			_ = y
			return c.BoolC(false)
		}
	case *Bound, *NativeFn:
		return c.BoolC(false)
	case *NopObj:
		_, ok := b.(*NopObj)
		return c.BoolC(ok)
	}
	panic(unsupported(fmt.Sprintf("equality on %T", a)))
}

func (e *Exec) binop(fr *Frame, in ssa.Instruction, op token.Token, t types.Type, x, y Value) Value {
	c := e.ctx
	switch op {
	case token.EQL:
		return e.equal(x, y)
	case token.NEQ:
		return c.Not(e.equal(x, y))
	}
	// strings
	if isString(t) {
		switch op {
		case token.ADD:
			if sx, ok := x.(string); ok {
				if sy, ok := y.(string); ok {
					return sx + sy
				}
			}
			bx, _ := e.strBytes(x)
			by, _ := e.strBytes(y)
			return e.normStr(append(append([]*smt.Term{}, bx...), by...))
		case token.LSS:
			_, lt := e.strCmp(x, y)
			return lt
		case token.GTR:
			_, lt := e.strCmp(y, x)
			return lt
		case token.LEQ:
			_, gt := e.strCmp(y, x)
			return c.Not(gt)
		case token.GEQ:
			_, lt := e.strCmp(x, y)
			return c.Not(lt)
		}
		panic(unsupported("string op " + op.String()))
	}
	if pi, ok := x.(*PtrInt); ok {
		// noescape idiom: uintptr(p) ^ 0
		if t, ok := y.(*smt.Term); ok && t.IsConst() && t.K == 0 && (op == token.XOR || op == token.ADD || op == token.OR) {
			return pi
		}
		panic(unsupported("arithmetic on pointer value"))
	}
	a := e.term(x)
	if op == token.SHL || op == token.SHR {
		b := e.term(y)
		if b.Sort.Signed && b.Lo.Sign() < 0 {
			e.obligation(fr.th, fr, in, c.Not(c.Cmp(smt.OLt, b, c.Const(b.Sort, 0))), "negative shift amount")
		}
		if op == token.SHL {
			return c.Shift(smt.OShl, a, b)
		}
		return c.Shift(smt.OShr, a, b)
	}
	b := e.term(y)
	if a.Sort.K == smt.KF64 || a.Sort.K == smt.KF32 {
		switch op {
		case token.ADD:
			return c.FBin(smt.OFAdd, a, b)
		case token.SUB:
			return c.FBin(smt.OFSub, a, b)
		case token.MUL:
			return c.FBin(smt.OFMul, a, b)
		case token.QUO:
			return c.FBin(smt.OFDiv, a, b)
		case token.LSS:
			return c.FCmp(smt.OFLt, a, b)
		case token.LEQ:
			return c.FCmp(smt.OFLe, a, b)
		case token.GTR:
			return c.FCmp(smt.OFLt, b, a)
		case token.GEQ:
			return c.FCmp(smt.OFLe, b, a)
		}
		panic(unsupported("float op " + op.String()))
	}
	if a.Sort.K == smt.KBool {
		switch op {
		case token.AND, token.LAND:
			return c.And(a, b)
		case token.OR, token.LOR:
			return c.Or(a, b)
		}
		panic(unsupported("bool op " + op.String()))
	}
	switch op {
	case token.ADD:
		return c.Bin(smt.OAdd, a, b)
	case token.SUB:
		return c.Bin(smt.OSub, a, b)
	case token.MUL:
		return c.Bin(smt.OMul, a, b)
	case token.QUO, token.REM:
		e.obligation(fr.th, fr, in, c.Not(c.Cmp(smt.OEq, b, c.Const(b.Sort, 0))), "integer divide by zero")
		if op == token.QUO {
			return c.Bin(smt.OQuo, a, b)
		}
		return c.Bin(smt.ORem, a, b)
	case token.AND:
		return c.Bin(smt.OAnd, a, b)
	case token.OR:
		return c.Bin(smt.OOr, a, b)
	case token.XOR:
		return c.Bin(smt.OXor, a, b)
	case token.AND_NOT:
		return c.Bin(smt.OAnd, a, c.BNot(b))
	case token.LSS:
		return c.Cmp(smt.OLt, a, b)
	case token.LEQ:
		return c.Cmp(smt.OLe, a, b)
	case token.GTR:
		return c.Cmp(smt.OLt, b, a)
	case token.GEQ:
		return c.Cmp(smt.OLe, b, a)
	}
	panic(unsupported("binop " + op.String()))
}

func (e *Exec) conv(fr *Frame, in ssa.Instruction, to, from types.Type, x Value) Value {
	ut, uf := to.Underlying(), from.Underlying()
	c := e.ctx
	switch tt := ut.(type) {
	case *types.Basic:
		if tt.Kind() == types.UnsafePointer {
			if pi, ok := x.(*PtrInt); ok {
				return pi.P
			}
			return x
		}
		if pi, ok := x.(*PtrInt); ok {
			return pi
		}
		if tt.Info()&types.IsString != 0 {
			switch ff := uf.(type) {
			case *types.Basic:
				if ff.Info()&types.IsString != 0 {
					return x
				}
				if ff.Info()&types.IsInteger != 0 {
					t := e.term(x)
					if !t.IsConst() {
						panic(unsupported("symbolic rune to string: " + describe(x) + " stack=" + e.stack(fr)))
					}
					return string(rune(t.Int64()))
				}
			case *types.Slice:
				sv := x.(SliceV)
				if el, ok := ff.Elem().Underlying().(*types.Basic); ok && el.Kind() == types.Int32 {
					// []rune -> string
					n := e.sliceLenConst(fr, in, sv)
					rs := make([]rune, n)
					for i := 0; i < n; i++ {
						t := e.term(e.sliceGet(fr, in, sv, i))
						if !t.IsConst() {
							panic(unsupported("symbolic runes to string"))
						}
						rs[i] = rune(t.Int64())
					}
					return string(rs)
				}
				n := e.sliceLenConst(fr, in, sv)
				bs := make([]*smt.Term, n)
				for i := 0; i < n; i++ {
					bs[i] = e.term(e.sliceGet(fr, in, sv, i))
				}
				return e.normStr(bs)
			}
			panic(unsupported("conversion to string from " + from.String()))
		}
		ts, ok := sortOfBasic(tt)
		if !ok {
			panic(unsupported("conversion to " + to.String()))
		}
		if p, isP := x.(*Pointer); isP {
			// uintptr(unsafe.Pointer(p)): only nil-ness is meaningful
			if p == nil {
				return c.Const(ts, 0)
			}
			return &PtrInt{P: p}
		}
		a := e.term(x)
		switch {
		case ts.K == smt.KInt && a.Sort.K == smt.KInt:
			return c.Conv(a, ts)
		case ts.K == smt.KInt:
			return c.F2I(a, ts)
		case a.Sort.K == smt.KInt:
			return c.I2F(a, ts)
		default:
			return c.F2F(a, ts)
		}
	case *types.Slice:
		if fb, ok := uf.(*types.Basic); ok && fb.Info()&types.IsString != 0 {
			if el, ok := tt.Elem().Underlying().(*types.Basic); ok && el.Kind() == types.Int32 {
				s, ok := x.(string)
				if !ok {
					panic(unsupported("symbolic string to []rune"))
				}
				rs := []rune(s)
				sv := e.newSlice(tt.Elem(), len(rs), len(rs))
				for i, r := range rs {
					sv.Base.Elems[i] = c.Int(smt.I32, int64(r))
				}
				return sv
			}
			bs, _ := e.strBytes(x)
			sv := e.newSlice(tt.Elem(), len(bs), len(bs))
			for i, b := range bs {
				sv.Base.Elems[i] = b
			}
			return sv
		}
		return x
	case *types.Pointer:
		if _, ok := x.(*Poison); ok {
			return x
		}
		return x
	}
	return x
}

func (e *Exec) sliceLenConst(fr *Frame, in ssa.Instruction, sv SliceV) int {
	if sv.Base == nil {
		return 0
	}
	if sv.Len.IsConst() {
		return int(sv.Len.Int64())
	}
	lo, hi := 0, 1<<20
	if sv.Len.Lo.IsInt64() && sv.Len.Lo.Int64() > 0 {
		lo = int(sv.Len.Lo.Int64())
	}
	if sv.Len.Hi.IsInt64() && sv.Len.Hi.Int64() < int64(hi) {
		hi = int(sv.Len.Hi.Int64())
	}
	if sv.Base.Elems != nil && hi > len(sv.Base.Elems) {
		hi = len(sv.Base.Elems)
	}
	return e.concretize(fr, in, sv.Len, lo, hi)
}

// sliceGet reads element i (concrete) of a slice.
func (e *Exec) sliceGet(fr *Frame, in ssa.Instruction, sv SliceV, i int) Value {
	idx := e.ctx.Bin(smt.OAdd, sv.Off, e.mkInt(int64(i)))
	return e.loadElem(fr, in, sv.Base, idx)
}
func (e *Exec) sliceSet(fr *Frame, in ssa.Instruction, sv SliceV, i int, v Value) {
	idx := e.ctx.Bin(smt.OAdd, sv.Off, e.mkInt(int64(i)))
	e.storeElem(fr, in, sv.Base, idx, v)
}

func (e *Exec) toInt(v Value) *smt.Term {
	t := e.term(v)
	if t.Sort != smt.I64 {
		return e.ctx.Conv(t, smt.I64)
	}
	return t
}

func (e *Exec) sliceOp(fr *Frame, in *ssa.Slice) Value {
	c := e.ctx
	x := e.get(fr, in.X)
	var lo, hi, max *smt.Term
	if in.Low != nil {
		lo = e.toInt(e.get(fr, in.Low))
	} else {
		lo = e.mkInt(0)
	}
	if in.High != nil {
		hi = e.toInt(e.get(fr, in.High))
	}
	if in.Max != nil {
		max = e.toInt(e.get(fr, in.Max))
	}
	switch xv := x.(type) {
	case string, *SymStr:
		n := e.strLen(x)
		if hi == nil {
			hi = e.mkInt(int64(n))
		}
		e.obligation(fr.th, fr, in, c.And(c.Cmp(smt.OLe, e.mkInt(0), lo), c.And(c.Cmp(smt.OLe, lo, hi), c.Cmp(smt.OLe, hi, e.mkInt(int64(n))))), "slice bounds out of range (string)")
		l := e.concretize(fr, in, lo, 0, n)
		h := e.concretize(fr, in, hi, l, n)
		if s, ok := x.(string); ok {
			return s[l:h]
		}
		return e.normStr(x.(*SymStr).B[l:h])
	case SliceV:
		if xv.Base == nil {
			e.obligation(fr.th, fr, in, c.And(c.Cmp(smt.OEq, lo, e.mkInt(0)), func() *smt.Term {
				if hi == nil {
					return c.BoolC(true)
				}
				return c.Cmp(smt.OEq, hi, e.mkInt(0))
			}()), "slice bounds out of range (nil slice)")
			return xv
		}
		if hi == nil {
			hi = xv.Len
		}
		if max == nil {
			max = xv.Cap
		}
		ok := c.And(c.Cmp(smt.OLe, e.mkInt(0), lo), c.And(c.Cmp(smt.OLe, lo, hi), c.And(c.Cmp(smt.OLe, hi, max), c.Cmp(smt.OLe, max, xv.Cap))))
		e.obligation(fr.th, fr, in, ok, "slice bounds out of range")
		return SliceV{Base: xv.Base, Off: c.Bin(smt.OAdd, xv.Off, lo), Len: c.Bin(smt.OSub, hi, lo), Cap: c.Bin(smt.OSub, max, lo)}
	case *Pointer:
		if xv == nil {
			e.goPanic(fr.th, fr, in, "slice of nil array pointer")
		}
		if xv.Slot == nil {
			panic(unsupported("slice of symbolic element pointer"))
		}
		arr, okA := (*xv.Slot).(*ArrObj)
		if !okA {
			panic(unsupported(fmt.Sprintf("slice of pointer to %T", *xv.Slot)))
		}
		n := arr.N
		if arr.Elems != nil {
			n = len(arr.Elems)
		}
		if hi == nil {
			hi = e.mkInt(int64(n))
		}
		if max == nil {
			max = e.mkInt(int64(n))
		}
		ok := c.And(c.Cmp(smt.OLe, e.mkInt(0), lo), c.And(c.Cmp(smt.OLe, lo, hi), c.And(c.Cmp(smt.OLe, hi, max), c.Cmp(smt.OLe, max, e.mkInt(int64(n))))))
		e.obligation(fr.th, fr, in, ok, "slice bounds out of range (array)")
		return SliceV{Base: arr, Off: lo, Len: c.Bin(smt.OSub, hi, lo), Cap: c.Bin(smt.OSub, max, lo)}
	}
	panic(unsupported(fmt.Sprintf("slice of %T", x)))
}

func (e *Exec) indexAddr(fr *Frame, in *ssa.IndexAddr, x Value, iv Value) Value {
	c := e.ctx
	idx := e.toInt(iv)
	switch xv := x.(type) {
	case SliceV:
		if xv.Base == nil {
			e.goPanic(fr.th, fr, in, "index out of range (nil slice)")
		}
		e.obligation(fr.th, fr, in, c.And(c.Cmp(smt.OLe, e.mkInt(0), idx), c.Cmp(smt.OLt, idx, xv.Len)), "index out of range")
		abs := c.Bin(smt.OAdd, xv.Off, idx)
		if abs.IsConst() && xv.Base.Elems != nil {
			return &Pointer{Slot: &xv.Base.Elems[abs.Int64()]}
		}
		return &Pointer{Arr: xv.Base, Idx: abs}
	case *Pointer:
		if xv == nil {
			e.goPanic(fr.th, fr, in, "invalid memory address or nil pointer dereference")
		}
		if xv.Slot == nil {
			xv = e.concretizePtr(fr, in, xv)
		}
		arr, ok := (*xv.Slot).(*ArrObj)
		if !ok {
			panic(unsupported(fmt.Sprintf("IndexAddr on pointer to %T", *xv.Slot)))
		}
		n := arr.N
		if arr.Elems != nil {
			n = len(arr.Elems)
		}
		e.obligation(fr.th, fr, in, c.And(c.Cmp(smt.OLe, e.mkInt(0), idx), c.Cmp(smt.OLt, idx, e.mkInt(int64(n)))), "index out of range")
		if idx.IsConst() && arr.Elems != nil {
			return &Pointer{Slot: &arr.Elems[idx.Int64()]}
		}
		return &Pointer{Arr: arr, Idx: idx}
	}
	panic(unsupported(fmt.Sprintf("IndexAddr on %T", x)))
}

func (e *Exec) index(fr *Frame, in *ssa.Index, x Value, iv Value) Value {
	c := e.ctx
	idx := e.toInt(iv)
	switch xv := x.(type) {
	case *ArrObj:
		n := len(xv.Elems)
		e.obligation(fr.th, fr, in, c.And(c.Cmp(smt.OLe, e.mkInt(0), idx), c.Cmp(smt.OLt, idx, e.mkInt(int64(n)))), "index out of range")
		return e.loadElem(fr, in, xv, idx)
	case string, *SymStr:
		return e.strIndex(fr, in, x, idx)
	}
	panic(unsupported(fmt.Sprintf("Index on %T", x)))
}

func (e *Exec) strIndex(fr *Frame, in ssa.Instruction, x Value, idx *smt.Term) Value {
	c := e.ctx
	n := e.strLen(x)
	e.obligation(fr.th, fr, in, c.And(c.Cmp(smt.OLe, e.mkInt(0), idx), c.Cmp(smt.OLt, idx, e.mkInt(int64(n)))), "index out of range (string)")
	if idx.IsConst() {
		if s, ok := x.(string); ok {
			return c.Const(smt.U8, uint64(s[idx.Int64()]))
		}
		return x.(*SymStr).B[idx.Int64()]
	}
	bs, _ := e.strBytes(x)
	lo, hi := e.idxRange(idx, n)
	res := bs[hi]
	for i := hi - 1; i >= lo; i-- {
		res = c.Ite(c.Cmp(smt.OEq, idx, e.mkInt(int64(i))), bs[i], res)
	}
	return res
}

// ---------------------------------------------------------------- maps

func (e *Exec) newMap() *MapV { return &MapV{Index: map[string]int{}} }

// mapFind returns the position of key in m or -1. Symbolic keys fork over the live entries.
func (e *Exec) mapFind(fr *Frame, in ssa.Instruction, m *MapV, key Value) int {
	if m == nil {
		return -1
	}
	if hk, ok := e.hashKey(key); ok && !m.hasSymKeys() {
		if i, ok := m.Index[hk]; ok && !m.dead[i] {
			return i
		}
		return -1
	}
	// symbolic: decide which live entry (if any) equals the key
	var conds []*smt.Term
	var pos []int
	none := e.ctx.BoolC(true)
	for i, k := range m.Keys {
		if m.dead[i] {
			continue
		}
		eq := e.equal(k, key)
		if eq.IsFalse() {
			continue
		}
		if eq.IsTrue() {
			return i
		}
		conds = append(conds, e.ctx.And(none, eq))
		pos = append(pos, i)
		none = e.ctx.And(none, e.ctx.Not(eq))
	}
	if len(conds) == 0 {
		return -1
	}
	conds = append(conds, none)
	pos = append(pos, -1)
	where := "map"
	if in != nil {
		where = e.pos(in)
	}
	return pos[e.decideN("mapkey "+where, conds)]
}

func (m *MapV) hasSymKeys() bool { return m.symKeys > 0 }

func (e *Exec) lookup(fr *Frame, in *ssa.Lookup, x Value, key Value) Value {
	switch xv := x.(type) {
	case string, *SymStr:
		return e.strIndex(fr, in, x, e.toInt(key))
	case *MapV:
		et := in.X.Type().Underlying().(*types.Map).Elem()
		i := e.mapFind(fr, in, xv, key)
		var v Value
		if i >= 0 {
			v = e.copyVal(*xv.Vals[i])
		} else {
			v = e.zero(et)
		}
		if in.CommaOk {
			return TupleV{v, e.ctx.BoolC(i >= 0)}
		}
		return v
	}
	panic(unsupported(fmt.Sprintf("Lookup on %T", x)))
}

func (e *Exec) mapUpdate(fr *Frame, m *MapV, key, val Value) {
	i := e.mapFind(fr, nil, m, key)
	if i >= 0 {
		e.writeSlot(m.Vals[i], val)
		return
	}
	hk, conc := e.hashKey(key)
	slot := new(Value)
	*slot = val
	m.Keys = append(m.Keys, key)
	m.Vals = append(m.Vals, slot)
	m.dead = append(m.dead, false)
	if conc {
		m.Index[hk] = len(m.Keys) - 1
	} else {
		m.symKeys++
	}
	m.n++
	e.noteUndo(func() {
		m.Keys = m.Keys[:len(m.Keys)-1]
		m.Vals = m.Vals[:len(m.Vals)-1]
		m.dead = m.dead[:len(m.dead)-1]
		if conc {
			delete(m.Index, hk)
		} else {
			m.symKeys--
		}
		m.n--
	})
}

func (e *Exec) mapDelete(fr *Frame, in ssa.Instruction, m *MapV, key Value) {
	i := e.mapFind(fr, in, m, key)
	if i < 0 {
		return
	}
	m.dead[i] = true
	m.n--
	hk, conc := e.hashKey(m.Keys[i])
	if conc {
		delete(m.Index, hk)
	} else {
		m.symKeys--
	}
	e.noteUndo(func() {
		m.dead[i] = false
		m.n++
		if conc {
			m.Index[hk] = i
		} else {
			m.symKeys++
		}
	})
}

func (e *Exec) rangeIter(fr *Frame, in *ssa.Range, x Value) Value {
	switch xv := x.(type) {
	case *MapV:
		it := &mapIter{m: xv}
		if xv != nil {
			// snapshot of the live positions at the start of the iteration
			it.order = make([]int, 0, len(xv.Keys))
			for i := range xv.Keys {
				if !xv.dead[i] {
					it.order = append(it.order, i)
				}
			}
		}
		return it
	case string:
		return &mapIter{str: xv}
	case *SymStr:
		if s, ok := e.normStr(xv.B).(string); ok {
			return &mapIter{str: s}
		}
		panic(unsupported("range over symbolic string"))
	}
	panic(unsupported(fmt.Sprintf("range over %T", x)))
}

func (e *Exec) next(fr *Frame, in *ssa.Next, it *mapIter) Value {
	c := e.ctx
	if in.IsString {
		s := it.str.(string)
		if it.pos >= len(s) {
			return TupleV{c.BoolC(false), e.mkInt(0), c.Int(smt.I32, 0)}
		}
		r, w := utf8.DecodeRuneInString(s[it.pos:])
		p := it.pos
		it.pos += w
		e.noteUndo(func() { it.pos = p })
		return TupleV{c.BoolC(true), e.mkInt(int64(p)), c.Int(smt.I32, int64(r))}
	}
	mt := in.Iter.(*ssa.Range).X.Type().Underlying().(*types.Map)
	for it.m != nil && it.pos < len(it.order) {
		i := it.order[it.pos]
		it.pos++
		if it.m.dead[i] {
			continue
		}
		p := it.pos - 1
		e.noteUndo(func() { it.pos = p })
		return TupleV{c.BoolC(true), e.copyVal(it.m.Keys[i]), e.copyVal(*it.m.Vals[i])}
	}
	return TupleV{c.BoolC(false), e.zero(mt.Key()), e.zero(mt.Elem())}
}

// ---------------------------------------------------------------- type assertions

func (e *Exec) implements(t types.Type, iface *types.Interface) bool {
	return types.Implements(t, iface)
}

func (e *Exec) typeAssert(fr *Frame, in *ssa.TypeAssert, iv IfaceV) Value {
	ok := false
	var v Value
	if iv.T != nil {
		if it, isI := in.AssertedType.Underlying().(*types.Interface); isI {
			if _, nop := iv.V.(*NopObj); nop {
				ok = true
			} else {
				ok = e.implements(iv.T, it)
			}
			v = iv
		} else {
			ok = types.Identical(iv.T, in.AssertedType)
			v = iv.V
		}
	}
	if !ok {
		if in.CommaOk {
			return TupleV{e.zero(in.AssertedType), e.ctx.BoolC(false)}
		}
		tn := "nil"
		if iv.T != nil {
			tn = iv.T.String()
		}
		e.goPanic(fr.th, fr, in, fmt.Sprintf("interface conversion: interface is %s, not %s", tn, in.AssertedType))
	}
	if in.CommaOk {
		return TupleV{e.copyVal(v), e.ctx.BoolC(true)}
	}
	return e.copyVal(v)
}

// ---------------------------------------------------------------- builtins

func (e *Exec) callBuiltin(th *Thread, caller *Frame, site ssa.Instruction, b *ssa.Builtin, args []Value) Value {
	c := e.ctx
	switch b.Name() {
	case "len":
		switch x := args[0].(type) {
		case string, *SymStr:
			return e.mkInt(int64(e.strLen(x)))
		case SliceV:
			if x.Base == nil {
				return e.mkInt(0)
			}
			return x.Len
		case *ArrObj:
			return e.mkInt(int64(len(x.Elems)))
		case *MapV:
			if x == nil {
				return e.mkInt(0)
			}
			return e.mkInt(int64(x.n))
		case *ChanV:
			if x == nil {
				return e.mkInt(0)
			}
			return e.mkInt(int64(len(x.Buf)))
		case *Pointer:
			// len(*[N]T)
			if a, ok := (*x.Slot).(*ArrObj); ok {
				if a.Elems == nil {
					return e.mkInt(int64(a.N))
				}
				return e.mkInt(int64(len(a.Elems)))
			}
		}
		if po, ok := args[0].(*Poison); ok {
			panic(unsupported("len of poisoned value: " + po.Why + " at " + e.pos(site)))
		}
		panic(unsupported(fmt.Sprintf("len of %T", args[0])))
	case "cap":
		switch x := args[0].(type) {
		case SliceV:
			if x.Base == nil {
				return e.mkInt(0)
			}
			return x.Cap
		case *ArrObj:
			return e.mkInt(int64(len(x.Elems)))
		case *ChanV:
			if x == nil {
				return e.mkInt(0)
			}
			return e.mkInt(int64(x.Cap))
		}
		panic(unsupported(fmt.Sprintf("cap of %T", args[0])))
	case "append":
		return e.appendOp(caller, site, args[0].(SliceV), args[1], b)
	case "copy":
		dst := args[0].(SliceV)
		var n int
		switch src := args[1].(type) {
		case SliceV:
			dl, sl := e.lenOf(dst), e.lenOf(src)
			ln := c.Ite(c.Cmp(smt.OLt, dl, sl), dl, sl)
			if !ln.IsConst() {
				// the shorter side is often known to the solver even when the offsets are symbolic
				if sl.IsConst() && !e.feasible(c.Cmp(smt.OLt, dl, sl)) {
					ln = sl
				} else if dl.IsConst() && !e.feasible(c.Cmp(smt.OLt, sl, dl)) {
					ln = dl
				}
			}
			n = e.concretizeLen(caller, site, ln)
			if n == 0 {
				return e.mkInt(0)
			}
			// overlapping copy semantics: read all first
			tmp := make([]Value, n)
			for i := 0; i < n; i++ {
				tmp[i] = e.sliceGet(caller, site, src, i)
			}
			for i := 0; i < n; i++ {
				e.sliceSet(caller, site, dst, i, tmp[i])
			}
		case string, *SymStr:
			bs, _ := e.strBytes(src)
			ln := c.Ite(c.Cmp(smt.OLt, e.lenOf(dst), e.mkInt(int64(len(bs)))), e.lenOf(dst), e.mkInt(int64(len(bs))))
			n = e.concretizeLen(caller, site, ln)
			for i := 0; i < n; i++ {
				e.sliceSet(caller, site, dst, i, bs[i])
			}
		default:
			panic(unsupported(fmt.Sprintf("copy from %T", args[1])))
		}
		return e.mkInt(int64(n))
	case "delete":
		m := args[0].(*MapV)
		if m != nil {
			e.mapDelete(caller, site, m, args[1])
		}
		return nil
	case "panic":
		panic(&GoPanic{Val: args[0], Msg: "panic: " + e.panicString(args[0]), Where: e.pos(site)})
	case "recover":
		// caller is the deferred function's frame; its caller is the panicking frame
		if caller != nil && caller.caller != nil && caller.caller.panicking {
			pf := caller.caller
			pf.panicking = false
			v := pf.panicVal.Val
			if v == nil {
				v = IfaceV{T: types.Typ[types.String], V: pf.panicVal.Msg}
			}
			if _, ok := v.(IfaceV); !ok {
				v = IfaceV{T: types.Typ[types.String], V: pf.panicVal.Msg}
			}
			return v
		}
		return IfaceV{}
	case "close":
		e.chanClose(th, caller, site, args[0].(*ChanV))
		return nil
	case "print", "println":
		return nil
	case "min", "max":
		r := e.term(args[0])
		for _, a := range args[1:] {
			t := e.term(a)
			var lt *smt.Term
			if r.Sort.K == smt.KInt {
				lt = c.Cmp(smt.OLt, t, r)
			} else {
				lt = c.FCmp(smt.OFLt, t, r)
			}
			if b.Name() == "max" {
				lt = c.Not(c.Or(lt, e.equal(t, r)))
				lt = c.Not(lt)
				// max: pick t if t > r
				if r.Sort.K == smt.KInt {
					lt = c.Cmp(smt.OLt, r, t)
				} else {
					lt = c.FCmp(smt.OFLt, r, t)
				}
			}
			r = c.Ite(lt, t, r)
		}
		return r
	case "clear":
		switch x := args[0].(type) {
		case *MapV:
			if x != nil {
				for i, k := range x.Keys {
					if !x.dead[i] {
						e.mapDelete(caller, site, x, k)
					}
				}
			}
		case SliceV:
			if x.Base == nil {
				return nil
			}
			var elem types.Type
			if sig, ok := b.Type().(*types.Signature); ok && sig.Params().Len() == 1 {
				if st, ok := sig.Params().At(0).Type().Underlying().(*types.Slice); ok {
					elem = st.Elem()
				}
			}
			if elem == nil {
				panic(unsupported("clear of a slice of unknown element type"))
			}
			n := e.concretizeLen(caller, site, e.lenOf(x))
			for i := 0; i < n; i++ {
				e.sliceSet(caller, site, x, i, e.zero(elem))
			}
		default:
			panic(unsupported("clear of non-map"))
		}
		return nil
	case "SliceData":
		sv := args[0].(SliceV)
		if sv.Base == nil {
			return (*Pointer)(nil)
		}
		return &Pointer{Arr: sv.Base, Idx: sv.Off, Tag: "slicedata"}
	case "String":
		p, _ := args[0].(*Pointer)
		n, ok := e.constInt(args[1])
		if !ok {
			panic(unsupported("unsafe.String with symbolic length"))
		}
		if n == 0 || p == nil {
			return ""
		}
		if p.Arr == nil || !p.Idx.IsConst() {
			panic(unsupported(fmt.Sprintf("unsafe.String of non-slice pointer (arr=%v) stack=%s", p.Arr != nil, e.stack(caller))))
		}
		bs := make([]*smt.Term, n)
		for i := range bs {
			bs[i] = e.term(e.loadElem(caller, site, p.Arr, e.mkInt(p.Idx.Int64()+int64(i))))
		}
		return e.normStr(bs)
	case "StringData":
		bs, _ := e.strBytes(args[0])
		if len(bs) == 0 {
			return (*Pointer)(nil)
		}
		sv := e.newSlice(types.Typ[types.Uint8], len(bs), len(bs))
		for i, b := range bs {
			sv.Base.Elems[i] = b
		}
		return &Pointer{Arr: sv.Base, Idx: e.mkInt(0), Tag: "slicedata"}
	case "Slice":
		p, _ := args[0].(*Pointer)
		n, ok := e.constInt(args[1])
		if !ok {
			panic(unsupported("unsafe.Slice with symbolic length"))
		}
		if p == nil {
			return SliceV{}
		}
		if p.Arr != nil && p.Idx.IsConst() {
			return SliceV{Base: p.Arr, Off: p.Idx, Len: e.mkInt(n), Cap: e.mkInt(n)}
		}
		panic(unsupported("unsafe.Slice of non-slice pointer"))
	case "ssa:wrapnilchk":
		p, _ := args[0].(*Pointer)
		if p == nil {
			e.goPanic(th, caller, site, "value method called using nil pointer")
		}
		return args[0]
	}
	panic(unsupported("builtin " + b.Name()))
}

func (e *Exec) lenOf(v Value) *smt.Term {
	switch x := v.(type) {
	case SliceV:
		if x.Base == nil {
			return e.mkInt(0)
		}
		return x.Len
	case string, *SymStr:
		return e.mkInt(int64(e.strLen(x)))
	}
	panic("lenOf")
}

func (e *Exec) concretizeLen(fr *Frame, in ssa.Instruction, ln *smt.Term) int {
	if ln.IsConst() {
		return int(ln.Int64())
	}
	lo, hi := 0, 1<<16
	if ln.Lo.IsInt64() && ln.Lo.Int64() > 0 {
		lo = int(ln.Lo.Int64())
	}
	if ln.Hi.IsInt64() && ln.Hi.Int64() < int64(hi) {
		hi = int(ln.Hi.Int64())
	}
	return e.concretize(fr, in, ln, lo, hi)
}

func (e *Exec) appendOp(fr *Frame, in ssa.Instruction, s SliceV, tail Value, b *ssa.Builtin) Value {
	var add []Value
	switch t := tail.(type) {
	case SliceV:
		n := e.sliceLenConst(fr, in, t)
		for i := 0; i < n; i++ {
			add = append(add, e.sliceGet(fr, in, t, i))
		}
	case string, *SymStr:
		bs, _ := e.strBytes(t)
		for _, x := range bs {
			add = append(add, x)
		}
	default:
		panic(unsupported(fmt.Sprintf("append of %T", tail)))
	}
	if len(add) == 0 {
		return s
	}
	if s.Base == nil {
		a := &ArrObj{Elems: make([]Value, len(add), len(add))}
		e.nobj++
		a.id = e.nobj
		copy(a.Elems, add)
		return SliceV{Base: a, Off: e.mkInt(0), Len: e.mkInt(int64(len(add))), Cap: e.mkInt(int64(len(add)))}
	}
	ln := e.sliceLenConst(fr, in, s)
	if !s.Cap.IsConst() || !s.Off.IsConst() {
		panic(unsupported("append to slice with symbolic cap/offset"))
	}
	cp := int(s.Cap.Int64())
	off := int(s.Off.Int64())
	if ln+len(add) <= cp {
		for i, v := range add {
			e.sliceSet(fr, in, s, ln+i, v)
		}
		return SliceV{Base: s.Base, Off: s.Off, Len: e.mkInt(int64(ln + len(add))), Cap: s.Cap}
	}
	ncap := 2 * cp
	if ncap < ln+len(add) {
		ncap = ln + len(add)
	}
	if ncap < 4 {
		ncap = 4
	}
	a := &ArrObj{Elems: make([]Value, ncap)}
	e.nobj++
	a.id = e.nobj
	for i := 0; i < ln; i++ {
		a.Elems[i] = e.sliceGet(fr, in, s, i)
	}
	_ = off
	for i, v := range add {
		a.Elems[ln+i] = v
	}
	// cells beyond the length hold zero values of the element type
	if ln+len(add) < ncap {
		var z Value
		if len(add) > 0 {
			z = e.zeroLike(add[0])
		}
		for i := ln + len(add); i < ncap; i++ {
			a.Elems[i] = e.copyVal(z)
		}
	}
	return SliceV{Base: a, Off: e.mkInt(0), Len: e.mkInt(int64(ln + len(add))), Cap: e.mkInt(int64(ncap))}
}

// zeroLike produces a zero value shaped like v (used for spare capacity).
func (e *Exec) zeroLike(v Value) Value {
	switch x := v.(type) {
	case *smt.Term:
		return e.ctx.Const(x.Sort, 0)
	case string, *SymStr:
		return ""
	case *Pointer:
		return (*Pointer)(nil)
	case StructV:
		r := make(StructV, len(x))
		for i := range x {
			r[i] = e.zeroLike(x[i])
		}
		return r
	case *ArrObj:
		r := &ArrObj{Elems: make([]Value, len(x.Elems))}
		for i := range x.Elems {
			r.Elems[i] = e.zeroLike(x.Elems[i])
		}
		return r
	case SliceV:
		return SliceV{}
	case IfaceV:
		return IfaceV{}
	case *MapV:
		return (*MapV)(nil)
	case *ChanV:
		return (*ChanV)(nil)
	case *Closure, *ssa.Function, *Bound:
		return (*Closure)(nil)
	}
	return v
}
