package exec

import (
	"os"
	"fmt"
	"go/types"
	"math"
	"math/big"
	"math/bits"
	"strings"

	"golang.org/x/tools/go/ssa"

	"verif/gosmt/smt"
)

type intrinsic func(e *Exec, th *Thread, caller *Frame, site ssa.Instruction, args []Value) Value

// opaque packages: nothing inside them is interpreted; calls return zero values.
var opaquePkgs = []string{
	"github.com/lindb/common/pkg/logger",
	"github.com/lindb/lindb/internal/linmetric",
	"go.uber.org/zap",
	"github.com/prometheus/",
	"runtime/debug",
	"runtime/pprof",
	"log",
	"os/signal",
}

func (e *Exec) isOpaquePkgPath(p string) bool {
	for _, o := range opaquePkgs {
		if p == o || strings.HasPrefix(p, o+"/") || (strings.HasSuffix(o, "/") && strings.HasPrefix(p, o)) {
			return true
		}
	}
	for _, o := range e.cfg.Opaque {
		if p == o || strings.HasPrefix(p, o+"/") {
			return true
		}
	}
	return false
}

func (e *Exec) isOpaqueType(t types.Type) bool {
	if n, ok := t.(*types.Named); ok && n.Obj().Pkg() != nil {
		return e.isOpaquePkgPath(n.Obj().Pkg().Path())
	}
	return false
}

func (e *Exec) lookupIntrinsic(fn *ssa.Function, name string) (intrinsic, bool) {
	if fn.Pkg != nil && fn.Pkg == e.harnessPkg && fn.Signature.Recv() == nil && strings.HasPrefix(fn.Name(), "verif") {
		if h, ok := harnessAPI[fn.Name()]; ok {
			return h, true
		}
	}
	if len(e.cfg.Stubs) > 0 {
		if target, ok := e.cfg.Stubs[name]; ok {
			tf := e.harnessPkg.Func(target)
			if i := strings.LastIndex(target, "."); i > 0 {
				// a stand-in overlaid into another package: "import/path.func"
				if p := e.prog.ImportedPackage(target[:i]); p != nil {
					tf = p.Func(target[i+1:])
				}
			}
			if tf == nil {
				panic(unsupported("stub target not found: " + target))
			}
			return func(e *Exec, th *Thread, caller *Frame, site ssa.Instruction, args []Value) Value {
				return e.callFn(th, caller, site, tf, args, nil)
			}, true
		}
	}
	if h, ok := intrinsics[name]; ok {
		return h, true
	}
	pkg := fn.Pkg
	if pkg == nil && fn.Origin() != nil {
		pkg = fn.Origin().Pkg
	}
	if pkg == nil {
		if o := fn.Object(); o != nil && o.Pkg() != nil {
			if e.isOpaquePkgPath(o.Pkg().Path()) {
				return nopIntrinsic(fn), true
			}
		}
	}
	if pkg != nil && e.isOpaquePkgPath(pkg.Pkg.Path()) {
		return nopIntrinsic(fn), true
	}
	return nil, false
}

func nopIntrinsic(fn *ssa.Function) intrinsic {
	return func(e *Exec, th *Thread, caller *Frame, site ssa.Instruction, args []Value) Value {
		return e.zeroOfResultsNop(fn.Signature)
	}
}

// zeroOfResultsNop: like zero results, but interface results of opaque packages become no-op objects.
func (e *Exec) zeroOfResultsNop(sig *types.Signature) Value {
	res := sig.Results()
	mk := func(t types.Type) Value {
		if _, ok := t.Underlying().(*types.Interface); ok && e.isOpaqueType(t) {
			return IfaceV{T: t, V: &NopObj{}}
		}
		return e.zero(t)
	}
	switch res.Len() {
	case 0:
		return nil
	case 1:
		return mk(res.At(0).Type())
	}
	tv := make(TupleV, res.Len())
	for i := range tv {
		tv[i] = mk(res.At(i).Type())
	}
	return tv
}

func argStr(e *Exec, v Value) string {
	switch s := v.(type) {
	case string:
		return s
	case *SymStr:
		if c, ok := e.normStr(s.B).(string); ok {
			return c
		}
	}
	return "?"
}

func bigI(i int64) *big.Int { return big.NewInt(i) }

func nondetOf(s smt.Sort, kind string) intrinsic {
	return func(e *Exec, th *Thread, caller *Frame, site ssa.Instruction, args []Value) Value {
		return e.nondet(argStr(e, args[0]), s, nil, nil, kind)
	}
}

var harnessAPI map[string]intrinsic

func init() {
	harnessAPI = map[string]intrinsic{
		"verifNondetInt64":  nondetOf(smt.I64, "i64"),
		"verifNondetInt":    nondetOf(smt.I64, "i64"),
		"verifNondetInt32":  nondetOf(smt.I32, "i32"),
		"verifNondetInt16":  nondetOf(smt.I16, "i16"),
		"verifNondetUint64": nondetOf(smt.U64, "u64"),
		"verifNondetUint32": nondetOf(smt.U32, "u32"),
		"verifNondetUint16": nondetOf(smt.U16, "u16"),
		"verifNondetUint8":  nondetOf(smt.U8, "u8"),
		"verifNondetByte":   nondetOf(smt.U8, "u8"),
		"verifNondetBool":   nondetOf(smt.Bool, "bool"),
		"verifNondetFloat64": func(e *Exec, th *Thread, caller *Frame, site ssa.Instruction, args []Value) Value {
			// a float is introduced through its bit pattern so that NaN payloads are part of the space
			bitsV := e.nondet(argStr(e, args[0]), smt.U64, nil, nil, "f64bits")
			return e.ctx.FFromBits(bitsV)
		},
		"verifRange": func(e *Exec, th *Thread, caller *Frame, site ssa.Instruction, args []Value) Value {
			lo, ok1 := e.constInt(args[1])
			hi, ok2 := e.constInt(args[2])
			if !ok1 || !ok2 {
				panic(unsupported("verifRange with symbolic bounds"))
			}
			if lo > hi {
				panic(&pathEnd{"assume-false"})
			}
			if lo == hi {
				// still record a nondet so that replays line up
				v := e.nondet(argStr(e, args[0]), smt.I64, bigI(lo), bigI(hi), "i64")
				_ = v
				return e.mkInt(lo)
			}
			return e.nondet(argStr(e, args[0]), smt.I64, bigI(lo), bigI(hi), "i64")
		},
		"verifChoose": func(e *Exec, th *Thread, caller *Frame, site ssa.Instruction, args []Value) Value {
			n, ok := e.constInt(args[1])
			if !ok || n <= 0 {
				panic(unsupported("verifChoose with symbolic n"))
			}
			v := e.nondet(argStr(e, args[0]), smt.I64, bigI(0), bigI(n-1), "i64")
			if n == 1 {
				return e.mkInt(0)
			}
			conds := make([]*smt.Term, n)
			for i := range conds {
				conds[i] = e.ctx.Cmp(smt.OEq, v, e.mkInt(int64(i)))
			}
			k := e.decideNX("choose "+e.pos(site), conds, true)
			return e.mkInt(int64(k))
		},
		"verifAssume": func(e *Exec, th *Thread, caller *Frame, site ssa.Instruction, args []Value) Value {
			e.assume(e.term(args[0]))
			return nil
		},
		"verifAssert": func(e *Exec, th *Thread, caller *Frame, site ssa.Instruction, args []Value) Value {
			e.assert(caller, site, e.term(args[0]), argStr(e, args[1]))
			return nil
		},
		"verifReach": func(e *Exec, th *Thread, caller *Frame, site ssa.Instruction, args []Value) Value {
			e.res.Reached = true
			return nil
		},
		"verifObserve": func(e *Exec, th *Thread, caller *Frame, site ssa.Instruction, args []Value) Value {
			rec := observeRec{label: argStr(e, args[0])}
			if sv, ok := args[1].(SliceV); ok && sv.Base != nil {
				n := int(sv.Len.Int64())
				for i := 0; i < n; i++ {
					v := e.sliceGet(caller, site, sv, i)
					if iv, ok := v.(IfaceV); ok {
						v = iv.V
					}
					rec.vals = append(rec.vals, v)
				}
			}
			e.observes = append(e.observes, rec)
			if os.Getenv("GOSMT_OBSDEBUG") != "" {
				for _, v := range rec.vals {
					fmt.Println("OBS", rec.label, describe(v))
				}
			}
			return nil
		},
		"verifSymBytes": func(e *Exec, th *Thread, caller *Frame, site ssa.Instruction, args []Value) Value {
			n, ok := e.constInt(args[1])
			if !ok {
				panic(unsupported("verifSymBytes with symbolic n"))
			}
			sv := e.newSlice(types.Typ[types.Uint8], int(n), int(n))
			for i := range sv.Base.Elems {
				sv.Base.Elems[i] = e.nondet(argStr(e, args[0]), smt.U8, nil, nil, "u8")
			}
			return sv
		},
		"verifSymArray": func(e *Exec, th *Thread, caller *Frame, site ssa.Instruction, args []Value) Value {
			// []byte of length n backed by one SMT array with arbitrary initial content
			n, ok := e.constInt(args[1])
			if !ok {
				panic(unsupported("verifSymArray with symbolic n"))
			}
			tag := argStr(e, args[0])
			occ := e.nondetOcc["arr_"+tag]
			e.nondetOcc["arr_"+tag] = occ + 1
			a := &ArrObj{Sym: e.ctx.ArrVar(fmt.Sprintf("a_%s_%d", sanitize(tag), occ), 64, 8), N: int(n), ElemS: smt.U8}
			if e.cfg.Enc == "int" {
				panic(unsupported("symbolic arrays in int encoding"))
			}
			e.nobj++
			a.id = e.nobj
			return SliceV{Base: a, Off: e.mkInt(0), Len: e.mkInt(n), Cap: e.mkInt(n)}
		},
		"verifSpawn": func(e *Exec, th *Thread, caller *Frame, site ssa.Instruction, args []Value) Value {
			e.spawn(th, caller, site, args[0], nil)
			return nil
		},
		"verifYield": func(e *Exec, th *Thread, caller *Frame, site ssa.Instruction, args []Value) Value {
			e.yield(th, "verifYield")
			return nil
		},
		"verifJoinAll": func(e *Exec, th *Thread, caller *Frame, site ssa.Instruction, args []Value) Value {
			e.block(th, "verifJoinAll", func() bool {
				for _, t := range e.threads {
					if t != th && !t.done {
						return false
					}
				}
				return true
			})
			if e.abortWith != nil && th.id == 0 {
				panic(e.abortWith)
			}
			return nil
		},
		"verifWatch": func(e *Exec, th *Thread, caller *Frame, site ssa.Instruction, args []Value) Value {
			iv, _ := args[0].(IfaceV)
			if p, ok := iv.V.(*Pointer); ok && p != nil && p.Slot != nil {
				if e.watched == nil {
					e.watched = map[*Value]bool{}
				}
				e.watched[p.Slot] = true
			}
			return nil
		},
		"verifThorough": func(e *Exec, th *Thread, caller *Frame, site ssa.Instruction, args []Value) Value {
			return e.ctx.BoolC(e.cfg.Thorough)
		},
		"verifIsSymbolic": func(e *Exec, th *Thread, caller *Frame, site ssa.Instruction, args []Value) Value {
			return e.ctx.BoolC(true)
		},
	}
}

// ---------------------------------------------------------------- sync state

type syncSt struct {
	locked  bool
	owner   int
	readers int
	count   int // waitgroup
	done    bool
	gen     int
	pool    []Value
	m       *MapV
}

func (e *Exec) syncOf(p Value) *syncSt {
	ptr, ok := p.(*Pointer)
	if !ok || ptr == nil || ptr.Slot == nil {
		panic(&GoPanic{Msg: "sync primitive through nil pointer", Where: ""})
	}
	if e.syncs == nil {
		e.syncs = map[*Value]*syncSt{}
	}
	s := e.syncs[ptr.Slot]
	if s == nil {
		s = &syncSt{}
		e.syncs[ptr.Slot] = s
	}
	return s
}

func (e *Exec) effect() {
	// synchronisation effects cannot be merged
	e.noteUndo(func() { panic("undo of sync effect") })
	if e.sideDepth > 0 {
		panic(&mergeAbort{"synchronisation inside merge side"})
	}
}

func mutexLock(e *Exec, th *Thread, caller *Frame, site ssa.Instruction, args []Value) Value {
	s := e.syncOf(args[0])
	e.effect()
	e.yield(th, "lock")
	e.block(th, "mutex lock", func() bool { return !s.locked && s.readers == 0 })
	s.locked = true
	return nil
}
func mutexUnlock(e *Exec, th *Thread, caller *Frame, site ssa.Instruction, args []Value) Value {
	s := e.syncOf(args[0])
	e.effect()
	if !s.locked {
		e.goPanic(th, caller, site, "sync: unlock of unlocked mutex")
	}
	s.locked = false
	e.yield(th, "unlock")
	return nil
}
func mutexTryLock(e *Exec, th *Thread, caller *Frame, site ssa.Instruction, args []Value) Value {
	s := e.syncOf(args[0])
	e.effect()
	e.yield(th, "trylock")
	if s.locked || s.readers > 0 {
		return e.ctx.BoolC(false)
	}
	s.locked = true
	return e.ctx.BoolC(true)
}
func rwRLock(e *Exec, th *Thread, caller *Frame, site ssa.Instruction, args []Value) Value {
	s := e.syncOf(args[0])
	e.effect()
	e.yield(th, "rlock")
	e.block(th, "rwmutex rlock", func() bool { return !s.locked })
	s.readers++
	return nil
}
func rwRUnlock(e *Exec, th *Thread, caller *Frame, site ssa.Instruction, args []Value) Value {
	s := e.syncOf(args[0])
	e.effect()
	if s.readers <= 0 {
		e.goPanic(th, caller, site, "sync: RUnlock of unlocked RWMutex")
	}
	s.readers--
	e.yield(th, "runlock")
	return nil
}

func atomicField(e *Exec, recv Value) *Pointer {
	p := recv.(*Pointer)
	if p == nil {
		panic(&GoPanic{Msg: "atomic operation on nil pointer"})
	}
	if sv, ok := (*p.Slot).(StructV); ok {
		// the value field is the last one (sync/atomic.Int32{_ noCopy; v int32}, go.uber.org/atomic alike)
		return &Pointer{Slot: &sv[len(sv)-1]}
	}
	return p
}

func atomicLoad(e *Exec, th *Thread, caller *Frame, site ssa.Instruction, args []Value) Value {
	e.yield(th, "atomic load")
	return e.load(th, caller, site, args[0])
}
func atomicStore(e *Exec, th *Thread, caller *Frame, site ssa.Instruction, args []Value) Value {
	e.yield(th, "atomic store")
	e.store(th, caller, site, args[0], args[1])
	return nil
}
func atomicAdd(e *Exec, th *Thread, caller *Frame, site ssa.Instruction, args []Value) Value {
	e.yield(th, "atomic add")
	old := e.term(e.load(th, caller, site, args[0]))
	d := e.term(args[1])
	if d.Sort != old.Sort {
		d = e.ctx.Conv(d, old.Sort)
	}
	n := e.ctx.Bin(smt.OAdd, old, d)
	e.store(th, caller, site, args[0], n)
	return n
}
func atomicSwap(e *Exec, th *Thread, caller *Frame, site ssa.Instruction, args []Value) Value {
	e.yield(th, "atomic swap")
	old := e.load(th, caller, site, args[0])
	e.store(th, caller, site, args[0], args[1])
	return old
}
func atomicCAS(e *Exec, th *Thread, caller *Frame, site ssa.Instruction, args []Value) Value {
	e.yield(th, "atomic cas")
	old := e.load(th, caller, site, args[0])
	eq := e.equal(old, args[1])
	if eq.IsConst() {
		if eq.K == 1 {
			e.store(th, caller, site, args[0], args[2])
		}
		return eq
	}
	m, ok := e.iteVal(eq, args[2], old)
	if !ok {
		if e.decideBool(caller, site, eq, "cas "+e.pos(site)) {
			e.store(th, caller, site, args[0], args[2])
			return e.ctx.BoolC(true)
		}
		return e.ctx.BoolC(false)
	}
	e.store(th, caller, site, args[0], m)
	return eq
}

// method forms: receiver is a pointer to the wrapper struct
func onField(f intrinsic) intrinsic {
	return func(e *Exec, th *Thread, caller *Frame, site ssa.Instruction, args []Value) Value {
		a2 := append([]Value{atomicField(e, args[0])}, args[1:]...)
		return f(e, th, caller, site, a2)
	}
}

func constOrPanic(e *Exec, v Value, what string) uint64 {
	t := e.term(v)
	if !t.IsConst() {
		panic(unsupported(what + " of symbolic value"))
	}
	return t.K
}

// clz builds the leading-zero count of a w-bit term as an ite chain.
func (e *Exec) clz(x *smt.Term, w int) *smt.Term {
	c := e.ctx
	res := c.Int(smt.I64, int64(w))
	for i := 0; i < w; i++ {
		// bit i set (from the least significant): candidate value w-1-i, later bits override
		bit := c.Not(c.Cmp(smt.OEq, c.Bin(smt.OAnd, x, c.Const(x.Sort, uint64(1)<<uint(i))), c.Const(x.Sort, 0)))
		res = c.Ite(bit, c.Int(smt.I64, int64(w-1-i)), res)
	}
	return res
}
func (e *Exec) ctz(x *smt.Term, w int) *smt.Term {
	c := e.ctx
	res := c.Int(smt.I64, int64(w))
	for i := w - 1; i >= 0; i-- {
		bit := c.Not(c.Cmp(smt.OEq, c.Bin(smt.OAnd, x, c.Const(x.Sort, uint64(1)<<uint(i))), c.Const(x.Sort, 0)))
		res = c.Ite(bit, c.Int(smt.I64, int64(i)), res)
	}
	return res
}

var intrinsics map[string]intrinsic

var errorIface = types.Universe.Lookup("error").Type().Underlying().(*types.Interface)

func (e *Exec) makeError(th *Thread, caller *Frame, site ssa.Instruction, msg Value) Value {
	pkg := e.prog.ImportedPackage("errors")
	if pkg == nil {
		panic(unsupported("errors package not loaded"))
	}
	return e.callFn(th, caller, site, pkg.Func("New"), []Value{msg}, nil)
}

// fmtArgs renders a format call approximately (formatting is never the subject of a check).
func (e *Exec) fmtApprox(format string, args []Value) string {
	// concrete arguments are formatted by the real fmt package; anything else is opaque
	gargs := make([]interface{}, len(args))
	for i, a := range args {
		if iv, ok := a.(IfaceV); ok {
			a = iv.V
		}
		switch x := a.(type) {
		case string:
			gargs[i] = x
		case *SymStr:
			gargs[i] = "<sym>"
		case *smt.Term:
			switch {
			case !x.IsConst():
				gargs[i] = "<sym>"
			case x.Sort.K == smt.KBool:
				gargs[i] = x.K == 1
			case x.Sort.K == smt.KInt && x.Sort.Signed:
				gargs[i] = x.Int64()
			case x.Sort.K == smt.KInt:
				gargs[i] = x.K
			default:
				gargs[i] = x.Float()
			}
		case nil:
			gargs[i] = nil
		default:
			gargs[i] = fmt.Sprintf("<%T>", a)
		}
	}
	if format == "" {
		return fmt.Sprint(gargs...)
	}
	return fmt.Sprintf(format, gargs...)
}

func (e *Exec) variadic(fr *Frame, site ssa.Instruction, v Value) []Value {
	sv, ok := v.(SliceV)
	if !ok || sv.Base == nil {
		return nil
	}
	n := int(sv.Len.Int64())
	out := make([]Value, n)
	for i := 0; i < n; i++ {
		out[i] = e.sliceGet(fr, site, sv, i)
	}
	return out
}

func init() {
	intrinsics = map[string]intrinsic{
		// ---- sync
		"(*sync.Mutex).Lock":      mutexLock,
		"(*sync.Mutex).Unlock":    mutexUnlock,
		"(*sync.Mutex).TryLock":   mutexTryLock,
		"(*sync.RWMutex).Lock":    mutexLock,
		"(*sync.RWMutex).Unlock":  mutexUnlock,
		"(*sync.RWMutex).RLock":   rwRLock,
		"(*sync.RWMutex).RUnlock": rwRUnlock,
		"(*sync.RWMutex).TryLock": mutexTryLock,
		"(*sync.WaitGroup).Add": func(e *Exec, th *Thread, caller *Frame, site ssa.Instruction, args []Value) Value {
			s := e.syncOf(args[0])
			e.effect()
			d, ok := e.constInt(args[1])
			if !ok {
				panic(unsupported("WaitGroup.Add with symbolic delta"))
			}
			s.count += int(d)
			if s.count < 0 {
				e.goPanic(th, caller, site, "sync: negative WaitGroup counter")
			}
			e.yield(th, "wg add")
			return nil
		},
		"(*sync.WaitGroup).Done": func(e *Exec, th *Thread, caller *Frame, site ssa.Instruction, args []Value) Value {
			s := e.syncOf(args[0])
			e.effect()
			s.count--
			if s.count < 0 {
				e.goPanic(th, caller, site, "sync: negative WaitGroup counter")
			}
			e.yield(th, "wg done")
			return nil
		},
		"(*sync.WaitGroup).Wait": func(e *Exec, th *Thread, caller *Frame, site ssa.Instruction, args []Value) Value {
			s := e.syncOf(args[0])
			e.effect()
			e.yield(th, "wg wait")
			e.block(th, "waitgroup wait", func() bool { return s.count == 0 })
			return nil
		},
		"(*sync.Once).Do": func(e *Exec, th *Thread, caller *Frame, site ssa.Instruction, args []Value) Value {
			s := e.syncOf(args[0])
			e.yield(th, "once")
			if s.done {
				return nil
			}
			e.effect()
			s.done = true
			e.callValue(th, caller, site, args[1], nil)
			return nil
		},
		"(*sync.Pool).Get": func(e *Exec, th *Thread, caller *Frame, site ssa.Instruction, args []Value) Value {
			s := e.syncOf(args[0])
			if n := len(s.pool); n > 0 {
				e.effect()
				v := s.pool[n-1]
				s.pool = s.pool[:n-1]
				return v
			}
			p := args[0].(*Pointer)
			sv := (*p.Slot).(StructV)
			newf := sv[len(sv)-1]
			if c, ok := newf.(*Closure); ok && c == nil {
				return IfaceV{}
			}
			return e.callValue(th, caller, site, newf, nil)
		},
		"(*sync.Pool).Put": func(e *Exec, th *Thread, caller *Frame, site ssa.Instruction, args []Value) Value {
			s := e.syncOf(args[0])
			e.effect()
			s.pool = append(s.pool, args[1])
			return nil
		},
		"(*sync.Cond).Wait": func(e *Exec, th *Thread, caller *Frame, site ssa.Instruction, args []Value) Value {
			s := e.syncOf(args[0])
			e.effect()
			p := args[0].(*Pointer)
			sv := (*p.Slot).(StructV)
			// field L (sync.Locker) is at index 1: struct{noCopy; L Locker; notify; checker}
			var L IfaceV
			for _, f := range sv {
				if iv, ok := f.(IfaceV); ok && iv.T != nil {
					L = iv
				}
			}
			unlock := e.prog.LookupMethod(L.T, nil, "Unlock")
			lock := e.prog.LookupMethod(L.T, nil, "Lock")
			gen := s.gen
			e.callFn(th, caller, site, unlock, []Value{L.V}, nil)
			e.block(th, "cond wait", func() bool { return s.gen != gen })
			e.callFn(th, caller, site, lock, []Value{L.V}, nil)
			return nil
		},
		"(*sync.Cond).Signal": func(e *Exec, th *Thread, caller *Frame, site ssa.Instruction, args []Value) Value {
			s := e.syncOf(args[0])
			e.effect()
			s.gen++
			e.yield(th, "cond signal")
			return nil
		},
		"(*sync.Cond).Broadcast": func(e *Exec, th *Thread, caller *Frame, site ssa.Instruction, args []Value) Value {
			s := e.syncOf(args[0])
			e.effect()
			s.gen++
			e.yield(th, "cond broadcast")
			return nil
		},
		// ---- sync/atomic functions
		"sync/atomic.LoadInt32": atomicLoad, "sync/atomic.LoadInt64": atomicLoad, "sync/atomic.LoadUint32": atomicLoad, "sync/atomic.LoadUint64": atomicLoad, "sync/atomic.LoadPointer": atomicLoad, "sync/atomic.LoadUintptr": atomicLoad,
		"sync/atomic.StoreInt32": atomicStore, "sync/atomic.StoreInt64": atomicStore, "sync/atomic.StoreUint32": atomicStore, "sync/atomic.StoreUint64": atomicStore, "sync/atomic.StorePointer": atomicStore, "sync/atomic.StoreUintptr": atomicStore,
		"sync/atomic.AddInt32": atomicAdd, "sync/atomic.AddInt64": atomicAdd, "sync/atomic.AddUint32": atomicAdd, "sync/atomic.AddUint64": atomicAdd, "sync/atomic.AddUintptr": atomicAdd,
		"sync/atomic.SwapInt32": atomicSwap, "sync/atomic.SwapInt64": atomicSwap, "sync/atomic.SwapUint32": atomicSwap, "sync/atomic.SwapUint64": atomicSwap, "sync/atomic.SwapPointer": atomicSwap,
		"sync/atomic.CompareAndSwapInt32": atomicCAS, "sync/atomic.CompareAndSwapInt64": atomicCAS, "sync/atomic.CompareAndSwapUint32": atomicCAS, "sync/atomic.CompareAndSwapUint64": atomicCAS, "sync/atomic.CompareAndSwapPointer": atomicCAS,
		"(*sync/atomic.Value).Load": func(e *Exec, th *Thread, caller *Frame, site ssa.Instruction, args []Value) Value {
			return atomicLoad(e, th, caller, site, []Value{atomicField(e, args[0])})
		},
		"(*sync/atomic.Value).Store": func(e *Exec, th *Thread, caller *Frame, site ssa.Instruction, args []Value) Value {
			return atomicStore(e, th, caller, site, []Value{atomicField(e, args[0]), args[1]})
		},
		// ---- math
		"math.Float64bits": func(e *Exec, th *Thread, caller *Frame, site ssa.Instruction, args []Value) Value {
			return e.ctx.FBits(e.term(args[0]))
		},
		"math.Float64frombits": func(e *Exec, th *Thread, caller *Frame, site ssa.Instruction, args []Value) Value {
			return e.ctx.FFromBits(e.term(args[0]))
		},
		"math.Float32bits": func(e *Exec, th *Thread, caller *Frame, site ssa.Instruction, args []Value) Value {
			t := e.term(args[0])
			if !t.IsConst() {
				panic(unsupported("Float32bits of symbolic value"))
			}
			return e.ctx.Const(smt.U32, t.K)
		},
		"math.Float32frombits": func(e *Exec, th *Thread, caller *Frame, site ssa.Instruction, args []Value) Value {
			t := e.term(args[0])
			if !t.IsConst() {
				panic(unsupported("Float32frombits of symbolic value"))
			}
			return e.ctx.Const(smt.F32, t.K)
		},
		"math.archFloor": func(e *Exec, th *Thread, caller *Frame, site ssa.Instruction, args []Value) Value {
			return e.ctx.FloatC(math.Floor(math.Float64frombits(constOrPanic(e, args[0], "Floor"))))
		},
		"math.archCeil": func(e *Exec, th *Thread, caller *Frame, site ssa.Instruction, args []Value) Value {
			return e.ctx.FloatC(math.Ceil(math.Float64frombits(constOrPanic(e, args[0], "Ceil"))))
		},
		"math.archTrunc": func(e *Exec, th *Thread, caller *Frame, site ssa.Instruction, args []Value) Value {
			return e.ctx.FloatC(math.Trunc(math.Float64frombits(constOrPanic(e, args[0], "Trunc"))))
		},
		"math.archSqrt": func(e *Exec, th *Thread, caller *Frame, site ssa.Instruction, args []Value) Value {
			return e.ctx.FloatC(math.Sqrt(math.Float64frombits(constOrPanic(e, args[0], "Sqrt"))))
		},
		// ---- math/bits
		"math/bits.LeadingZeros64": func(e *Exec, th *Thread, caller *Frame, site ssa.Instruction, args []Value) Value {
			t := e.term(args[0])
			if t.IsConst() {
				return e.mkInt(int64(bits.LeadingZeros64(t.K)))
			}
			return e.clz(t, 64)
		},
		"math/bits.LeadingZeros32": func(e *Exec, th *Thread, caller *Frame, site ssa.Instruction, args []Value) Value {
			t := e.term(args[0])
			if t.IsConst() {
				return e.mkInt(int64(bits.LeadingZeros32(uint32(t.K))))
			}
			return e.clz(t, 32)
		},
		"math/bits.TrailingZeros64": func(e *Exec, th *Thread, caller *Frame, site ssa.Instruction, args []Value) Value {
			t := e.term(args[0])
			if t.IsConst() {
				return e.mkInt(int64(bits.TrailingZeros64(t.K)))
			}
			return e.ctz(t, 64)
		},
		"math/bits.TrailingZeros32": func(e *Exec, th *Thread, caller *Frame, site ssa.Instruction, args []Value) Value {
			t := e.term(args[0])
			if t.IsConst() {
				return e.mkInt(int64(bits.TrailingZeros32(uint32(t.K))))
			}
			return e.ctz(t, 32)
		},
		"math/bits.Len64": func(e *Exec, th *Thread, caller *Frame, site ssa.Instruction, args []Value) Value {
			t := e.term(args[0])
			if t.IsConst() {
				return e.mkInt(int64(bits.Len64(t.K)))
			}
			return e.ctx.Bin(smt.OSub, e.mkInt(64), e.clz(t, 64))
		},
		"math/bits.Len32": func(e *Exec, th *Thread, caller *Frame, site ssa.Instruction, args []Value) Value {
			t := e.term(args[0])
			if t.IsConst() {
				return e.mkInt(int64(bits.Len32(uint32(t.K))))
			}
			return e.ctx.Bin(smt.OSub, e.mkInt(32), e.clz(t, 32))
		},
		"math/bits.Len": func(e *Exec, th *Thread, caller *Frame, site ssa.Instruction, args []Value) Value {
			t := e.term(args[0])
			if t.IsConst() {
				return e.mkInt(int64(bits.Len64(t.K)))
			}
			return e.ctx.Bin(smt.OSub, e.mkInt(64), e.clz(t, 64))
		},
		"math/bits.OnesCount64": func(e *Exec, th *Thread, caller *Frame, site ssa.Instruction, args []Value) Value {
			return e.mkInt(int64(bits.OnesCount64(constOrPanic(e, args[0], "OnesCount64"))))
		},
		// ---- fmt / errors (formatting is not the subject)
		"fmt.Errorf": func(e *Exec, th *Thread, caller *Frame, site ssa.Instruction, args []Value) Value {
			format := argStr(e, args[0])
			vargs := e.variadic(caller, site, args[1])
			res := e.makeError(th, caller, site, e.fmtApprox(format, vargs))
			// %w: remember what the new error wraps (errors.Is / errors.Unwrap follow it)
			if strings.Contains(format, "%w") {
				for _, a := range vargs {
					if iv, ok := a.(IfaceV); ok && iv.T != nil && types.Implements(iv.T, errorIface) {
						if riv, ok := res.(IfaceV); ok {
							if p, ok := riv.V.(*Pointer); ok && p.Slot != nil {
								if e.wrapped == nil {
									e.wrapped = map[*Value]IfaceV{}
								}
								e.wrapped[p.Slot] = iv
							}
						}
						break
					}
				}
			}
			return res
		},
		"fmt.Sprintf": func(e *Exec, th *Thread, caller *Frame, site ssa.Instruction, args []Value) Value {
			return e.fmtApprox(argStr(e, args[0]), e.variadic(caller, site, args[1]))
		},
		"fmt.Sprint": func(e *Exec, th *Thread, caller *Frame, site ssa.Instruction, args []Value) Value {
			return e.fmtApprox("", e.variadic(caller, site, args[0]))
		},
		"fmt.Sprintln": func(e *Exec, th *Thread, caller *Frame, site ssa.Instruction, args []Value) Value {
			return e.fmtApprox("", e.variadic(caller, site, args[0]))
		},
		"fmt.Println": func(e *Exec, th *Thread, caller *Frame, site ssa.Instruction, args []Value) Value {
			return TupleV{e.mkInt(0), IfaceV{}}
		},
		"fmt.Printf": func(e *Exec, th *Thread, caller *Frame, site ssa.Instruction, args []Value) Value {
			return TupleV{e.mkInt(0), IfaceV{}}
		},
		"runtime.Gosched": func(e *Exec, th *Thread, caller *Frame, site ssa.Instruction, args []Value) Value {
			e.yield(th, "gosched")
			return nil
		},
		// one processor: libraries that size their worker sets by it run their sequential variant
		"runtime.GOMAXPROCS": func(e *Exec, th *Thread, caller *Frame, site ssa.Instruction, args []Value) Value { return e.mkInt(1) },
		"runtime.NumCPU":     func(e *Exec, th *Thread, caller *Frame, site ssa.Instruction, args []Value) Value { return e.mkInt(1) },
		"runtime.KeepAlive": func(e *Exec, th *Thread, caller *Frame, site ssa.Instruction, args []Value) Value { return nil },
		"runtime.SetFinalizer": func(e *Exec, th *Thread, caller *Frame, site ssa.Instruction, args []Value) Value { return nil },
		"internal/bytealg.IndexByteString": func(e *Exec, th *Thread, caller *Frame, site ssa.Instruction, args []Value) Value {
			bs, _ := e.strBytes(args[0])
			return e.indexByteFork(caller, site, bs, e.term(args[1]))
		},
		"internal/bytealg.IndexByte": func(e *Exec, th *Thread, caller *Frame, site ssa.Instruction, args []Value) Value {
			sv := args[0].(SliceV)
			n := e.sliceLenConst(caller, site, sv)
			bs := make([]*smt.Term, n)
			for i := range bs {
				bs[i] = e.term(e.sliceGet(caller, site, sv, i))
			}
			return e.indexByteFork(caller, site, bs, e.term(args[1]))
		},
		"internal/bytealg.Compare": func(e *Exec, th *Thread, caller *Frame, site ssa.Instruction, args []Value) Value {
			a := e.bytesOf(caller, site, args[0])
			b := e.bytesOf(caller, site, args[1])
			eq, lt := e.strCmp(&SymStr{B: a}, &SymStr{B: b})
			return e.ctx.Ite(eq, e.mkInt(0), e.ctx.Ite(lt, e.mkInt(-1), e.mkInt(1)))
		},
		"internal/bytealg.Equal": func(e *Exec, th *Thread, caller *Frame, site ssa.Instruction, args []Value) Value {
			a := e.bytesOf(caller, site, args[0])
			b := e.bytesOf(caller, site, args[1])
			eq, _ := e.strCmp(&SymStr{B: a}, &SymStr{B: b})
			return eq
		},
		"bytes.Equal": func(e *Exec, th *Thread, caller *Frame, site ssa.Instruction, args []Value) Value {
			a := e.bytesOf(caller, site, args[0])
			b := e.bytesOf(caller, site, args[1])
			eq, _ := e.strCmp(&SymStr{B: a}, &SymStr{B: b})
			return eq
		},
		"internal/bytealg.CountString": func(e *Exec, th *Thread, caller *Frame, site ssa.Instruction, args []Value) Value {
			s, ok := args[0].(string)
			c := e.term(args[1])
			if !ok || !c.IsConst() {
				panic(unsupported("CountString symbolic"))
			}
			return e.mkInt(int64(strings.Count(s, string([]byte{byte(c.K)}))))
		},
		"internal/bytealg.IndexString": func(e *Exec, th *Thread, caller *Frame, site ssa.Instruction, args []Value) Value {
			a, ok1 := args[0].(string)
			b, ok2 := args[1].(string)
			if !ok1 || !ok2 {
				return e.indexTerm(e.bytesOf(caller, site, args[0]), e.bytesOf(caller, site, args[1]))
			}
			return e.mkInt(int64(strings.Index(a, b)))
		},
		"internal/bytealg.Index": func(e *Exec, th *Thread, caller *Frame, site ssa.Instruction, args []Value) Value {
			return e.indexTerm(e.bytesOf(caller, site, args[0]), e.bytesOf(caller, site, args[1]))
		},
		"strings.Index": func(e *Exec, th *Thread, caller *Frame, site ssa.Instruction, args []Value) Value {
			a, ok1 := args[0].(string)
			b, ok2 := args[1].(string)
			if !ok1 || !ok2 {
				return e.indexTerm(e.bytesOf(caller, site, args[0]), e.bytesOf(caller, site, args[1]))
			}
			return e.mkInt(int64(strings.Index(a, b)))
		},
		"(*sync.Map).Load": nil, "(*sync.Map).Store": nil,
	}
	delete(intrinsics, "(*sync.Map).Load")
	delete(intrinsics, "(*sync.Map).Store")
	// typed atomics of sync/atomic
	for _, t := range []string{"Int32", "Int64", "Uint32", "Uint64", "Uintptr"} {
		intrinsics["(*sync/atomic."+t+").Load"] = onField(atomicLoad)
		intrinsics["(*sync/atomic."+t+").Store"] = onField(atomicStore)
		intrinsics["(*sync/atomic."+t+").Add"] = onField(atomicAdd)
		intrinsics["(*sync/atomic."+t+").Swap"] = onField(atomicSwap)
		intrinsics["(*sync/atomic."+t+").CompareAndSwap"] = onField(atomicCAS)
	}
	intrinsics["(*sync/atomic.Bool).Load"] = func(e *Exec, th *Thread, caller *Frame, site ssa.Instruction, args []Value) Value {
		v := e.term(atomicLoad(e, th, caller, site, []Value{atomicField(e, args[0])}))
		return e.ctx.Not(e.ctx.Cmp(smt.OEq, v, e.ctx.Const(v.Sort, 0)))
	}
	b2u := func(e *Exec, v Value) Value {
		return e.ctx.Ite(e.term(v), e.ctx.Const(smt.U32, 1), e.ctx.Const(smt.U32, 0))
	}
	intrinsics["(*sync/atomic.Bool).Store"] = func(e *Exec, th *Thread, caller *Frame, site ssa.Instruction, args []Value) Value {
		return atomicStore(e, th, caller, site, []Value{atomicField(e, args[0]), b2u(e, args[1])})
	}
	intrinsics["(*sync/atomic.Bool).CompareAndSwap"] = func(e *Exec, th *Thread, caller *Frame, site ssa.Instruction, args []Value) Value {
		return atomicCAS(e, th, caller, site, []Value{atomicField(e, args[0]), b2u(e, args[1]), b2u(e, args[2])})
	}
	intrinsics["(*sync/atomic.Bool).Swap"] = func(e *Exec, th *Thread, caller *Frame, site ssa.Instruction, args []Value) Value {
		v := e.term(atomicSwap(e, th, caller, site, []Value{atomicField(e, args[0]), b2u(e, args[1])}))
		return e.ctx.Not(e.ctx.Cmp(smt.OEq, v, e.ctx.Const(v.Sort, 0)))
	}
	// generic atomic.Pointer[T]
	intrinsics["(*sync/atomic.Pointer[T]).Load"] = onField(atomicLoad)
	intrinsics["(*sync/atomic.Pointer[T]).Store"] = onField(atomicStore)
	intrinsics["(*sync/atomic.Pointer[T]).Swap"] = onField(atomicSwap)
	intrinsics["(*sync/atomic.Pointer[T]).CompareAndSwap"] = onField(atomicCAS)
}

// indexTerm is the index of the first occurrence of b in a (lengths concrete, bytes symbolic) as one
// branch-free term, -1 if there is none.
func (e *Exec) indexTerm(a, b []*smt.Term) Value {
	res := e.term(e.mkInt(-1))
	for i := len(a) - len(b); i >= 0; i-- {
		eq, _ := e.strCmp(&SymStr{B: a[i : i+len(b)]}, &SymStr{B: b})
		res = e.ctx.Ite(eq, e.term(e.mkInt(int64(i))), res)
	}
	return res
}

func (e *Exec) bytesOf(fr *Frame, site ssa.Instruction, v Value) []*smt.Term {
	switch x := v.(type) {
	case string, *SymStr:
		b, _ := e.strBytes(x)
		return b
	case SliceV:
		n := e.sliceLenConst(fr, site, x)
		bs := make([]*smt.Term, n)
		for i := range bs {
			bs[i] = e.term(e.sliceGet(fr, site, x, i))
		}
		return bs
	}
	panic(unsupported(fmt.Sprintf("bytes of %T", v)))
}

func (e *Exec) indexByte(bs []*smt.Term, c *smt.Term) Value {
	res := e.mkInt(-1)
	for i := len(bs) - 1; i >= 0; i-- {
		res = e.ctx.Ite(e.ctx.Cmp(smt.OEq, bs[i], c), e.mkInt(int64(i)), res)
	}
	return res
}

// indexByteFork: the position is used to navigate data structures, so it is made concrete by a case split.
func (e *Exec) indexByteFork(fr *Frame, site ssa.Instruction, bs []*smt.Term, c *smt.Term) Value {
	r := e.indexByte(bs, c).(*smt.Term)
	if r.IsConst() || len(bs) > 64 {
		return r
	}
	k := e.concretize(fr, site, r, -1, len(bs)-1)
	return e.mkInt(int64(k))
}
