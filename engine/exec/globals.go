package exec

import (
	"fmt"
	"go/types"

	"golang.org/x/tools/go/ssa"

	"verif/gosmt/smt"
)

// globalSlot returns the cell of a package-level variable, initialising its package lazily.
func (e *Exec) globalSlot(th *Thread, g *ssa.Global) *Value {
	if s, ok := e.globals[g]; ok {
		return s
	}
	pkg := g.Pkg
	if pkg != nil && e.pkgInit[pkg] == 0 {
		e.initPackage(th, pkg)
		if s, ok := e.globals[g]; ok {
			return s
		}
	}
	s := new(Value)
	*s = e.zeroTolerant(g.Type().Underlying().(*types.Pointer).Elem())
	e.globals[g] = s
	return s
}

func (e *Exec) zeroTolerant(t types.Type) (v Value) {
	defer func() {
		if r := recover(); r != nil {
			if u, ok := r.(*Unsupported); ok {
				v = &Poison{Why: u.Why}
				return
			}
			panic(r)
		}
	}()
	return e.zero(t)
}

// initPackage runs the package initialiser of pkg in tolerant mode: whatever the executor cannot
// do there poisons the affected variables instead of failing the run.
func (e *Exec) initPackage(th *Thread, pkg *ssa.Package) {
	e.pkgInit[pkg] = 1
	for _, m := range pkg.Members {
		if g, ok := m.(*ssa.Global); ok {
			if _, ok := e.globals[g]; !ok {
				s := new(Value)
				*s = e.zeroTolerant(g.Type().Underlying().(*types.Pointer).Elem())
				e.globals[g] = s
			}
		}
	}
	initFn := pkg.Func("init")
	if initFn == nil || initFn.Blocks == nil {
		e.pkgInit[pkg] = 2
		return
	}
	if e.isOpaquePkgPath(pkg.Pkg.Path()) {
		e.pkgInit[pkg] = 2
		return
	}
	// package initialisation is not part of any merge side or decision
	savedLog, savedGuards, savedSide := e.log, e.guards, e.sideDepth
	e.log, e.guards, e.sideDepth, e.gconj = nil, nil, 0, nil
	e.tolerant++
	func() {
		defer func() {
			e.tolerant--
			e.log, e.guards, e.sideDepth, e.gconj = savedLog, savedGuards, savedSide, nil
			if r := recover(); r != nil {
				switch r.(type) {
				case *Unsupported, *GoPanic, *initAbort:
					// rest of the package stays at zero values / poisoned
				default:
					panic(r)
				}
			}
		}()
		fr := e.newFrame(th, initFn, nil, nil, nil)
		fr.tolerantInit = true
		e.depth++
		defer func() { e.depth-- }()
		e.runFunction(fr)
	}()
	e.pkgInit[pkg] = 2
}

type initAbort struct{}

// visitTolerant executes one instruction of a package initialiser; failures poison the result.
func (e *Exec) visitTolerant(fr *Frame, in ssa.Instruction) (k cont) {
	// calls to other packages' initialisers are skipped: those packages are initialised on demand
	if c, ok := in.(*ssa.Call); ok {
		if f, ok := c.Call.Value.(*ssa.Function); ok && f.Name() == "init" && f.Synthetic != "" && f.Signature.Recv() == nil && f.Pkg != fr.fn.Pkg {
			return kNext
		}
	}
	defer func() {
		if r := recover(); r != nil {
			var why string
			switch x := r.(type) {
			case *Unsupported:
				why = x.Why
			case *GoPanic:
				why = "panic during init: " + x.Msg
			default:
				panic(r)
			}
			switch in.(type) {
			case *ssa.If, *ssa.Jump, *ssa.Return, *ssa.Panic:
				panic(&initAbort{})
			}
			if v, ok := in.(ssa.Value); ok {
				fr.regs[v] = &Poison{Why: why}
			}
			k = kNext
		}
	}()
	return e.visit(fr, in)
}

// ---------------------------------------------------------------- CFG analysis (shared, cached)

func (s *Shared) isLoopHeader(b *ssa.BasicBlock) bool {
	s.mu.Lock()
	defer s.mu.Unlock()
	if v, ok := s.loopHdr[b]; ok {
		return v
	}
	r := false
	for _, p := range b.Preds {
		if b.Dominates(p) {
			r = true
		}
	}
	s.loopHdr[b] = r
	return r
}

func (e *Exec) isLoopHeader(b *ssa.BasicBlock) bool { return e.shared.isLoopHeader(b) }

// postDominators computes immediate post-dominators of fn's blocks; nil = virtual exit.
func postDominators(fn *ssa.Function) map[*ssa.BasicBlock]*ssa.BasicBlock {
	n := len(fn.Blocks)
	exit := n // virtual
	// successors in the reversed graph = predecessors; we need post-order on reversed graph
	succs := func(i int) []int {
		if i == exit {
			return nil
		}
		b := fn.Blocks[i]
		if len(b.Succs) == 0 {
			return []int{exit}
		}
		r := make([]int, len(b.Succs))
		for j, s := range b.Succs {
			r[j] = s.Index
		}
		return r
	}
	preds := make([][]int, n+1)
	for i := 0; i < n; i++ {
		for _, s := range succs(i) {
			preds[s] = append(preds[s], i)
		}
	}
	// reverse post-order of the reversed CFG from exit
	order := []int{}
	seen := make([]bool, n+1)
	var dfs func(int)
	dfs = func(u int) {
		seen[u] = true
		for _, v := range preds[u] {
			if !seen[v] {
				dfs(v)
			}
		}
		order = append(order, u)
	}
	dfs(exit)
	rpoNum := make([]int, n+1)
	for i := range rpoNum {
		rpoNum[i] = -1
	}
	for i, u := range order {
		rpoNum[u] = len(order) - 1 - i
	}
	idom := make([]int, n+1)
	for i := range idom {
		idom[i] = -1
	}
	idom[exit] = exit
	intersect := func(a, b int) int {
		for a != b {
			for rpoNum[a] > rpoNum[b] {
				a = idom[a]
			}
			for rpoNum[b] > rpoNum[a] {
				b = idom[b]
			}
		}
		return a
	}
	changed := true
	for changed {
		changed = false
		for i := len(order) - 1; i >= 0; i-- {
			u := order[i]
			if u == exit {
				continue
			}
			nw := -1
			for _, s := range succs(u) {
				if idom[s] == -1 {
					continue
				}
				if nw == -1 {
					nw = s
				} else {
					nw = intersect(s, nw)
				}
			}
			if nw != -1 && idom[u] != nw {
				idom[u] = nw
				changed = true
			}
		}
	}
	res := map[*ssa.BasicBlock]*ssa.BasicBlock{}
	for i := 0; i < n; i++ {
		if idom[i] >= 0 && idom[i] != exit {
			res[fn.Blocks[i]] = fn.Blocks[idom[i]]
		} else {
			res[fn.Blocks[i]] = nil
		}
	}
	// blocks that cannot reach the exit (infinite loops) have idom -1: mark by self
	for i := 0; i < n; i++ {
		if idom[i] == -1 {
			res[fn.Blocks[i]] = fn.Blocks[i]
		}
	}
	return res
}

func (s *Shared) mergeInfoOf(b *ssa.BasicBlock) *mergeInfo {
	s.mu.Lock()
	defer s.mu.Unlock()
	if mi, ok := s.minfo[b]; ok {
		return mi
	}
	fn := b.Parent()
	pd := postDominators(fn)
	for _, blk := range fn.Blocks {
		j := pd[blk]
		mi := &mergeInfo{join: j, ok: true}
		if j == blk {
			mi.ok = false
			s.minfo[blk] = mi
			continue
		}
		// region = blocks reachable from blk's successors without passing j; loop = cycle within region ∪ {blk}
		region := map[*ssa.BasicBlock]bool{}
		var stack []*ssa.BasicBlock
		for _, sc := range blk.Succs {
			if sc != j && !region[sc] {
				region[sc] = true
				stack = append(stack, sc)
			}
		}
		for len(stack) > 0 {
			u := stack[len(stack)-1]
			stack = stack[:len(stack)-1]
			for _, v := range u.Succs {
				if v != j && !region[v] {
					region[v] = true
					stack = append(stack, v)
				}
			}
		}
		mi.size = len(region)
		if region[blk] {
			mi.hasLoop = true
		} else {
			// cycle detection inside region
			color := map[*ssa.BasicBlock]int{}
			var visit func(u *ssa.BasicBlock) bool
			visit = func(u *ssa.BasicBlock) bool {
				color[u] = 1
				for _, v := range u.Succs {
					if !region[v] {
						continue
					}
					if color[v] == 1 {
						return true
					}
					if color[v] == 0 && visit(v) {
						return true
					}
				}
				color[u] = 2
				return false
			}
			for u := range region {
				if color[u] == 0 && visit(u) {
					mi.hasLoop = true
					break
				}
			}
		}
		s.minfo[blk] = mi
	}
	return s.minfo[b]
}

// unwindHit is called when a loop header is entered more often than the unwinding bound allows.
func (e *Exec) unwindHit(fr *Frame, blk *ssa.BasicBlock) {
	where := fr.fn.String()
	if len(blk.Instrs) > 0 {
		where = e.pos(blk.Instrs[len(blk.Instrs)-1])
	}
	if e.tolerant > 0 {
		panic(unsupported("loop bound in package initialiser at " + where))
	}
	// is this point reachable at all?
	r := e.query(e.cfg.FeasTimeoutS)
	if r == smt.Sat {
		e.sol.EndModel()
	}
	if r == smt.Unsat {
		if e.sideDepth > 0 {
			panic(&pathEnd{"infeasible-side"})
		}
		panic(&pathEnd{"infeasible"})
	}
	e.stats.Unwinds++
	e.res.Inconclusive = append(e.res.Inconclusive, fmt.Sprintf("unwinding bound %d hit at %s", e.cfg.Unwind, where))
	if e.sideDepth > 0 {
		panic(&mergeAbort{"unwinding bound hit in side"})
	}
	panic(&pathEnd{"unwind"})
}

func chanElem(t types.Type) types.Type { return t.Underlying().(*types.Chan).Elem() }
