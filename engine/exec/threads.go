package exec

import (
	"fmt"

	"golang.org/x/tools/go/ssa"

	"verif/gosmt/smt"
)

// Thread is one simulated goroutine. Each runs in its own Go goroutine, but only the
// holder of the baton executes; hand-over happens at scheduling points only.
type Thread struct {
	id       int
	wake     chan struct{}
	done     bool
	started  bool
	blocked  func() bool // non-nil while waiting; returns true when the thread may continue
	why      string
	panicked interface{}
	exited   chan struct{}
}

func (e *Exec) newThread(parent *Thread) *Thread {
	th := &Thread{id: len(e.threads), wake: make(chan struct{}, 1)}
	e.threads = append(e.threads, th)
	return th
}

func (e *Exec) nthreads() int {
	n := 0
	for _, t := range e.threads {
		if !t.done {
			n++
		}
	}
	return n
}

type threadKill struct{}

// spawn starts a new simulated goroutine running fv(args...).
func (e *Exec) spawn(th *Thread, fr *Frame, in ssa.Instruction, fv Value, args []Value) {
	if e.sideDepth > 0 {
		panic(&mergeAbort{"go statement inside merge side"})
	}
	nt := e.newThread(th)
	nt.exited = make(chan struct{})
	go func() {
		<-nt.wake
		defer func() {
			r := recover()
			nt.done = true
			if r != nil {
				if _, ok := r.(threadKill); !ok && e.abortWith == nil {
					e.abortWith = r
				}
			}
			e.threadExit(nt)
			close(nt.exited)
		}()
		if e.aborted {
			panic(threadKill{})
		}
		if e.resched {
			e.resched = false
			e.yieldFree(nt)
		}
		e.callValue(nt, nil, in, fv, args)
	}()
	// a spawn is a scheduling point
	e.yield(th, "go")
}

// threadExit runs on the exiting thread's goroutine: hand the baton to some thread; that thread
// takes the real scheduling decision on its own goroutine (resched).
func (e *Exec) threadExit(th *Thread) {
	if e.aborted {
		return
	}
	main := e.threads[0]
	if e.abortWith != nil {
		e.cur = main
		main.wake <- struct{}{}
		return
	}
	for _, t := range e.threads {
		if t != th && e.enabled(t) {
			e.resched = true
			e.cur = t
			t.wake <- struct{}{}
			return
		}
	}
	// nobody can run
	e.deadlocked = true
	e.cur = main
	main.wake <- struct{}{}
}

func (e *Exec) enabled(t *Thread) bool {
	if t.done {
		return false
	}
	if t.blocked != nil {
		return t.blocked()
	}
	return true
}

// pickNext chooses the thread to run at a scheduling point of th. free: the choice does not
// count as a pre-emption (th just got the baton from an exiting thread).
func (e *Exec) pickNext(th *Thread, free bool) *Thread {
	var cands []*Thread
	selfEnabled := e.enabled(th)
	if selfEnabled {
		cands = append(cands, th)
	}
	for _, t := range e.threads {
		if t != th && e.enabled(t) {
			cands = append(cands, t)
		}
	}
	if len(cands) == 0 {
		return nil
	}
	if len(cands) == 1 {
		return cands[0]
	}
	if selfEnabled && !free && e.preempts >= e.cfg.Preempt {
		return th
	}
	if e.cfg.Replaying {
		if e.schedPos >= len(e.cfg.FixedSched) {
			panic(&Desync{"schedule exhausted during replay"})
		}
		want := e.cfg.FixedSched[e.schedPos]
		e.schedPos++
		for _, c := range cands {
			if c.id == want {
				e.sched = append(e.sched, c.id)
				if selfEnabled && !free && c != th {
					e.preempts++
				}
				return c
			}
		}
		panic(&Desync{fmt.Sprintf("replayed schedule picks thread %d which is not enabled", want)})
	}
	conds := make([]*smt.Term, len(cands))
	for i := range conds {
		conds[i] = e.ctx.BoolC(true)
	}
	k := e.decideN(fmt.Sprintf("sched t%d", th.id), conds)
	e.sched = append(e.sched, cands[k].id)
	if selfEnabled && !free && cands[k] != th {
		e.preempts++
	}
	return cands[k]
}

// yield is a scheduling point of the running thread.
func (e *Exec) yield(th *Thread, why string) {
	if len(e.threads) <= 1 || th == nil {
		return
	}
	if e.sideDepth > 0 {
		panic(&mergeAbort{"scheduling point inside merge side"})
	}
	e.stats.SchedPoints++
	next := e.pickNext(th, false)
	if next == nil {
		e.deadlock(th)
	}
	if next == th {
		return
	}
	e.switchTo(th, next)
}

func (e *Exec) yieldFree(th *Thread) {
	next := e.pickNext(th, true)
	if next == nil || next == th {
		return
	}
	e.switchTo(th, next)
}

func (e *Exec) switchTo(th, next *Thread) {
	e.cur = next
	next.wake <- struct{}{}
	e.park(th)
}

// park waits for the baton.
func (e *Exec) park(th *Thread) {
	<-th.wake
	if e.aborted {
		panic(threadKill{})
	}
	if th.id == 0 && e.abortWith != nil {
		r := e.abortWith
		panic(r)
	}
	if e.deadlocked {
		e.deadlocked = false
		e.deadlock(th)
	}
	if e.resched {
		e.resched = false
		if th.blocked == nil || th.blocked() {
			e.yieldFree(th)
		}
	}
}

// block suspends th until ready() holds.
func (e *Exec) block(th *Thread, why string, ready func() bool) {
	if ready() {
		return
	}
	if e.sideDepth > 0 {
		panic(&mergeAbort{"blocking operation inside merge side"})
	}
	for !ready() {
		th.blocked = ready
		th.why = why
		next := e.pickNext(th, false)
		if next == nil {
			th.blocked = nil
			e.deadlock(th)
		}
		if next == th {
			break
		}
		e.switchTo(th, next)
	}
	th.blocked = nil
}

func (e *Exec) deadlock(th *Thread) {
	msg := "all goroutines are asleep - deadlock"
	for _, t := range e.threads {
		if !t.done && t.blocked != nil {
			msg += fmt.Sprintf(" [t%d: %s]", t.id, t.why)
		}
	}
	panic(&GoPanic{Msg: msg, Where: "scheduler"})
}

// finishThreads is the implicit join at the end of the harness function.
func (e *Exec) finishThreads(main *Thread) {
	e.block(main, "join-all", func() bool {
		for _, t := range e.threads {
			if t != main && !t.done {
				return false
			}
		}
		return true
	})
	if e.abortWith != nil {
		panic(e.abortWith)
	}
}

// killThreads unwinds all goroutines of simulated threads that are still parked.
func (e *Exec) killThreads() {
	e.aborted = true
	for _, t := range e.threads[1:] {
		select {
		case <-t.exited:
			continue
		default:
		}
		if !t.done {
			t.wake <- struct{}{}
		}
		<-t.exited
	}
}

// ---------------------------------------------------------------- channels

func (e *Exec) chanSend(th *Thread, fr *Frame, in ssa.Instruction, cv Value, v Value) {
	ch := cv.(*ChanV)
	if ch == nil {
		e.block(th, "send on nil channel", func() bool { return false })
	}
	e.yield(th, "chan send")
	if ch.Closed {
		e.goPanic(th, fr, in, "send on closed channel")
	}
	if ch.Cap > 0 {
		e.block(th, "chan send (full)", func() bool { return len(ch.Buf) < ch.Cap || ch.Closed })
		if ch.Closed {
			e.goPanic(th, fr, in, "send on closed channel")
		}
		ch.Buf = append(ch.Buf, v)
		e.noteUndo(func() { ch.Buf = ch.Buf[:len(ch.Buf)-1] })
		return
	}
	// unbuffered: deposit, then wait until taken
	ch.Buf = append(ch.Buf, v)
	e.noteUndo(func() { ch.Buf = ch.Buf[:len(ch.Buf)-1] })
	ch.sent++
	my := ch.sent
	e.block(th, "chan send (rendezvous)", func() bool { return ch.recvd >= my })
}

func (e *Exec) chanRecv(th *Thread, fr *Frame, in ssa.Instruction, cv Value) (Value, bool) {
	ch := cv.(*ChanV)
	if ch == nil {
		e.block(th, "receive on nil channel", func() bool { return false })
	}
	e.yield(th, "chan recv")
	e.block(th, "chan recv", func() bool { return len(ch.Buf) > 0 || ch.Closed })
	if len(ch.Buf) > 0 {
		v := ch.Buf[0]
		ch.Buf = ch.Buf[1:]
		ch.recvd++
		e.noteUndo(func() { panic("undo of channel receive") })
		return v, true
	}
	// closed and empty
	var et Value
	if u, ok := in.(*ssa.UnOp); ok {
		et = e.zero(chanElem(u.X.Type()))
	}
	return et, false
}

func (e *Exec) chanClose(th *Thread, fr *Frame, in ssa.Instruction, ch *ChanV) {
	if ch == nil {
		e.goPanic(th, fr, in, "close of nil channel")
	}
	if ch.Closed {
		e.goPanic(th, fr, in, "close of closed channel")
	}
	ch.Closed = true
	e.noteUndo(func() { ch.Closed = false })
	e.yield(th, "chan close")
}

func (e *Exec) selectOp(th *Thread, fr *Frame, in *ssa.Select) Value {
	type st struct {
		ch  *ChanV
		dir bool // send
		v   Value
	}
	var states []st
	for _, s := range in.States {
		ch, _ := e.get(fr, s.Chan).(*ChanV)
		x := st{ch: ch, dir: s.Dir == 1}
		if s.Send != nil {
			x.v = e.get(fr, s.Send)
		}
		states = append(states, x)
	}
	e.yield(th, "select")
	ready := func() []int {
		var r []int
		for i, s := range states {
			if s.ch == nil {
				continue
			}
			if s.dir {
				if s.ch.Closed || (s.ch.Cap > 0 && len(s.ch.Buf) < s.ch.Cap) || (s.ch.Cap == 0 && s.ch.recvWaiting > 0) {
					r = append(r, i)
				}
			} else if len(s.ch.Buf) > 0 || s.ch.Closed {
				r = append(r, i)
			}
		}
		return r
	}
	rs := ready()
	if len(rs) == 0 {
		if !in.Blocking {
			return e.selectResult(in, -1, nil, false)
		}
		e.block(th, "select", func() bool { return len(ready()) > 0 })
		rs = ready()
	}
	k := rs[0]
	if len(rs) > 1 {
		conds := make([]*smt.Term, len(rs))
		for i := range conds {
			conds[i] = e.ctx.BoolC(true)
		}
		k = rs[e.decideN("select "+e.pos(in), conds)]
	}
	s := states[k]
	if s.dir {
		if s.ch.Closed {
			e.goPanic(th, fr, in, "send on closed channel")
		}
		s.ch.Buf = append(s.ch.Buf, s.v)
		return e.selectResult(in, k, nil, false)
	}
	if len(s.ch.Buf) > 0 {
		v := s.ch.Buf[0]
		s.ch.Buf = s.ch.Buf[1:]
		s.ch.recvd++
		return e.selectResult(in, k, v, true)
	}
	return e.selectResult(in, k, nil, false)
}

func (e *Exec) selectResult(in *ssa.Select, idx int, v Value, ok bool) Value {
	res := TupleV{e.mkInt(int64(idx)), e.ctx.BoolC(ok)}
	for i, s := range in.States {
		if s.Dir == 2 { // RecvOnly
			et := chanElem(s.Chan.Type())
			if i == idx && v != nil {
				res = append(res, v)
			} else {
				res = append(res, e.zero(et))
			}
		}
	}
	return res
}

// ---------------------------------------------------------------- watched (unsynchronised) accesses

func (e *Exec) watchAccess(th *Thread, p *Pointer, write bool) {
	if len(e.watched) == 0 || len(e.threads) <= 1 || th == nil {
		return
	}
	if p.Slot != nil && e.watched[p.Slot] {
		e.yield(th, "watched access")
	}
}
