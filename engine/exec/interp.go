package exec

import (
	"fmt"
	"go/constant"
	"go/token"
	"go/types"
	"strings"

	"golang.org/x/tools/go/ssa"

	"verif/gosmt/smt"
)

// GoPanic is a Go-level panic of the interpreted program.
type GoPanic struct {
	Val   Value
	Msg   string
	Where string
}

// pathEnd terminates the current path (infeasible, assumption false, explored elsewhere ...).
type pathEnd struct{ why string }

type deferred struct {
	fn    Value
	args  []Value
	instr *ssa.Defer
}

type Frame struct {
	fn        *ssa.Function
	regs      map[ssa.Value]Value
	env       []Value
	block     *ssa.BasicBlock
	prev      *ssa.BasicBlock
	pc        int
	defers    []*deferred
	result    Value
	caller    *Frame
	panicking bool
	panicVal  *GoPanic
	visits    map[*ssa.BasicBlock]int
	th        *Thread
	callInstr ssa.Instruction
	atStart   bool
	skipPhis  bool
	tolerantInit bool
}

type status int

const (
	stReturned status = iota
	stReachedStop
)

func (e *Exec) pos(instr ssa.Instruction) string {
	p := e.prog.Fset.Position(instr.Pos())
	if !p.IsValid() {
		if instr.Parent() != nil {
			return instr.Parent().String()
		}
		return "?"
	}
	f := p.Filename
	if i := strings.Index(f, "/repo/"); i >= 0 {
		f = f[i+6:]
	}
	return fmt.Sprintf("%s:%d", f, p.Line)
}

func (e *Exec) setReg(fr *Frame, r ssa.Value, v Value) {
	if e.log != nil {
		old, had := fr.regs[r]
		e.log.regs = append(e.log.regs, regWrite{fr, r, old, had})
	}
	fr.regs[r] = v
}

func (e *Exec) get(fr *Frame, v ssa.Value) Value {
	switch x := v.(type) {
	case nil:
		return nil
	case *ssa.Const:
		return e.constValue(x)
	case *ssa.Global:
		return &Pointer{Slot: e.globalSlot(fr.th, x)}
	case *ssa.Function:
		return x
	case *ssa.Builtin:
		return x
	case *ssa.FreeVar:
		for i, fv := range fr.fn.FreeVars {
			if fv == x {
				return fr.env[i]
			}
		}
		panic("free var not found")
	}
	r, ok := fr.regs[v]
	if !ok {
		panic(fmt.Sprintf("get: no value for %T %s in %s", v, v.Name(), fr.fn))
	}
	return r
}

func (e *Exec) constValue(c *ssa.Const) Value {
	t := c.Type()
	if c.Value == nil {
		return e.zero(t)
	}
	if b, ok := t.Underlying().(*types.Basic); ok {
		switch {
		case b.Info()&types.IsString != 0:
			return constant.StringVal(c.Value)
		case b.Info()&types.IsBoolean != 0:
			return e.ctx.BoolC(constant.BoolVal(c.Value))
		case b.Info()&types.IsInteger != 0:
			s, _ := sortOfBasic(b)
			if s.Signed {
				return e.ctx.Int(s, c.Int64())
			}
			return e.ctx.Const(s, c.Uint64())
		case b.Info()&types.IsFloat != 0:
			s, _ := sortOfBasic(b)
			if s.K == smt.KF32 {
				return e.ctx.Float32C(float32(c.Float64()))
			}
			return e.ctx.FloatC(c.Float64())
		}
	}
	if _, ok := t.Underlying().(*types.Interface); ok {
		// e.g. constant in interface position (generic code)
		return IfaceV{}
	}
	panic(unsupported("constant of type " + t.String()))
}

// ---------------------------------------------------------------- calls

func (e *Exec) newFrame(th *Thread, fn *ssa.Function, args []Value, env []Value, caller *Frame) *Frame {
	fr := &Frame{fn: fn, regs: make(map[ssa.Value]Value, len(fn.Params)+16), env: env, caller: caller, th: th}
	for i, p := range fn.Params {
		fr.regs[p] = args[i]
	}
	return fr
}

// callValue calls a function value with arguments.
func (e *Exec) callValue(th *Thread, caller *Frame, site ssa.Instruction, fv Value, args []Value) Value {
	switch f := fv.(type) {
	case *ssa.Function:
		return e.callFn(th, caller, site, f, args, nil)
	case *Closure:
		if f == nil {
			e.goPanic(th, caller, site, "call of nil function")
		}
		return e.callFn(th, caller, site, f.Fn, args, f.Env)
	case *Bound:
		return e.callFn(th, caller, site, f.Fn, append([]Value{f.Recv}, args...), nil)
	case *ssa.Builtin:
		return e.callBuiltin(th, caller, site, f, args)
	case *NativeFn:
		return f.F(e, th, args)
	}
	panic(unsupported(fmt.Sprintf("call of %T", fv)))
}

// NativeFn is an engine-provided function value.
type NativeFn struct {
	Name string
	F    func(e *Exec, th *Thread, args []Value) Value
}

func (e *Exec) callFn(th *Thread, caller *Frame, site ssa.Instruction, fn *ssa.Function, args []Value, env []Value) Value {
	e.steps++
	if e.depth > e.cfg.MaxDepth {
		panic(unsupported("call depth exceeded at " + fn.String()))
	}
	name := fn.String()
	if fn.Origin() != nil {
		name = fn.Origin().String()
	}
	// harness API and stubs
	if h, ok := e.lookupIntrinsic(fn, name); ok {
		return h(e, th, caller, site, args)
	}
	if fn.Blocks == nil {
		if fn.Pkg == nil && fn.Synthetic != "" {
			// wrapper not built?
		}
		panic(unsupported("external function without intrinsic: " + name + " stack=" + e.stack(caller)))
	}
	e.funcsSeen[fn]++
	fr := e.newFrame(th, fn, args, env, caller)
	fr.callInstr = site
	e.depth++
	defer func() { e.depth-- }()
	return e.runFunction(fr)
}

// runFunction runs a frame from its entry block to return, handling Go panics and defers.
func (e *Exec) runFunction(fr *Frame) (result Value) {
	fr.block = fr.fn.Blocks[0]
	fr.pc = 0
	fr.atStart = true
	// locals
	for _, l := range fr.fn.Locals {
		slot := new(Value)
		fr.regs[l] = &Pointer{Slot: slot}
	}
	if fr.fn.Recover == nil && !hasDefer(fr.fn) {
		st := e.runUntil(fr, nil)
		if st != stReturned {
			panic("runFunction: did not return")
		}
		return fr.result
	}
	// functions with defers: catch Go panics to run the defers
	func() {
		defer func() {
			if fr.block == nil {
				return // normal return
			}
			r := recover()
			if r == nil {
				return
			}
			gp, ok := r.(*GoPanic)
			if !ok {
				panic(r)
			}
			fr.panicking = true
			fr.panicVal = gp
			e.runDefers(fr)
			// recovered: continue at the Recover block
			if fr.fn.Recover != nil {
				fr.block = fr.fn.Recover
				fr.prev = nil
				fr.pc = 0
				fr.atStart = true
				st := e.runUntil(fr, nil)
				if st != stReturned {
					panic("recover block did not return")
				}
			} else {
				// named results: none; result is zero
				fr.result = e.zeroResults(fr.fn)
				fr.block = nil
			}
		}()
		st := e.runUntil(fr, nil)
		if st != stReturned {
			panic("runFunction: did not return")
		}
	}()
	return fr.result
}

func (e *Exec) zeroResults(fn *ssa.Function) Value {
	res := fn.Signature.Results()
	switch res.Len() {
	case 0:
		return nil
	case 1:
		return e.zero(res.At(0).Type())
	}
	return e.zero(res)
}

var hasDeferCache = map[*ssa.Function]bool{}

func hasDefer(fn *ssa.Function) bool {
	deferMu.Lock()
	defer deferMu.Unlock()
	if v, ok := hasDeferCache[fn]; ok {
		return v
	}
	r := false
	for _, b := range fn.Blocks {
		for _, in := range b.Instrs {
			if _, ok := in.(*ssa.Defer); ok {
				r = true
			}
		}
	}
	hasDeferCache[fn] = r
	return r
}

func (e *Exec) runDefers(fr *Frame) {
	for len(fr.defers) > 0 {
		d := fr.defers[len(fr.defers)-1]
		fr.defers = fr.defers[:len(fr.defers)-1]
		func() {
			defer func() {
				if r := recover(); r != nil {
					gp, ok := r.(*GoPanic)
					if !ok {
						panic(r)
					}
					fr.panicking = true
					fr.panicVal = gp
				}
			}()
			e.callValue(fr.th, fr, d.instr, d.fn, d.args)
		}()
	}
	if fr.panicking {
		panic(fr.panicVal)
	}
}

func (e *Exec) goPanic(th *Thread, fr *Frame, site ssa.Instruction, msg string) {
	where := ""
	if site != nil {
		where = e.pos(site)
	}
	panic(&GoPanic{Msg: msg, Where: where, Val: IfaceV{T: types.Typ[types.String], V: "runtime error: " + msg}})
}

func (e *Exec) prepareCall(fr *Frame, c *ssa.CallCommon) (Value, []Value) {
	var args []Value
	var fv Value
	if c.IsInvoke() {
		recv := e.get(fr, c.Value)
		iv, ok := recv.(IfaceV)
		if !ok {
			if po, isP := recv.(*Poison); isP {
				panic(unsupported("invoke " + c.Method.Name() + " on poisoned value: " + po.Why + " at " + e.stack(fr)))
			}
			panic(unsupported(fmt.Sprintf("invoke on %T", recv)))
		}
		if iv.T == nil {
			if e.isOpaqueType(c.Value.Type()) {
				return &NativeFn{Name: "nop", F: func(e *Exec, th *Thread, args []Value) Value { return e.zeroOfResults(c.Signature()) }}, nil
			}
			e.goPanic(fr.th, fr, nil, "invalid memory address or nil pointer dereference (invoke "+c.Method.Name()+" on nil interface)")
		}
		if _, isNop := iv.V.(*NopObj); isNop {
			return &NativeFn{Name: "nop", F: func(e *Exec, th *Thread, args []Value) Value { return e.zeroOfResults(c.Signature()) }}, nil
		}
		fn := e.prog.LookupMethod(iv.T, c.Method.Pkg(), c.Method.Name())
		if fn == nil {
			panic(unsupported("method not found: " + iv.T.String() + "." + c.Method.Name()))
		}
		fv = fn
		args = append(args, iv.V)
	} else {
		fv = e.get(fr, c.Value)
	}
	for _, a := range c.Args {
		args = append(args, e.copyVal(e.get(fr, a)))
	}
	return fv, args
}

// NopObj is the dynamic value of interfaces returned by opaque packages (loggers, metrics).
type NopObj struct{}

func (e *Exec) zeroOfResults(sig *types.Signature) Value {
	res := sig.Results()
	switch res.Len() {
	case 0:
		return nil
	case 1:
		return e.zero(res.At(0).Type())
	}
	return e.zero(res)
}

// ---------------------------------------------------------------- main loop

// runUntil executes fr until it returns or until control is about to execute the first
// non-phi instruction of stop.
func (e *Exec) runUntil(fr *Frame, stop *ssa.BasicBlock) status {
	for {
		blk := fr.block
		if fr.atStart {
			fr.atStart = false
			nphi := 0
			for _, in := range blk.Instrs {
				if _, ok := in.(*ssa.Phi); ok {
					nphi++
				} else {
					break
				}
			}
			if fr.skipPhis {
				fr.skipPhis = false
			} else if nphi > 0 {
				idx := -1
				for i, p := range blk.Preds {
					if p == fr.prev {
						idx = i
						break
					}
				}
				if idx < 0 {
					panic("phi: predecessor not found")
				}
				vals := make([]Value, nphi)
				for i := 0; i < nphi; i++ {
					vals[i] = e.get(fr, blk.Instrs[i].(*ssa.Phi).Edges[idx])
				}
				for i := 0; i < nphi; i++ {
					e.setReg(fr, blk.Instrs[i].(*ssa.Phi), vals[i])
				}
			}
			fr.pc = nphi
			if blk == stop {
				return stReachedStop
			}
		}
		jumped := false
		for fr.pc < len(blk.Instrs) {
			in := blk.Instrs[fr.pc]
			fr.pc++
			e.steps++
			if e.steps > e.cfg.MaxSteps {
				panic(unsupported(fmt.Sprintf("step budget exceeded (%d)", e.cfg.MaxSteps)))
			}
			var k cont
			if fr.tolerantInit {
				k = e.visitTolerant(fr, in)
			} else {
				k = e.visit(fr, in)
			}
			switch k {
			case kNext:
			case kJump:
				jumped = true
			case kReturn:
				return stReturned
			}
			if jumped {
				break
			}
		}
		if !jumped {
			panic("fell off block end in " + fr.fn.String())
		}
	}
}

type cont int

const (
	kNext cont = iota
	kJump
	kReturn
)

func (e *Exec) jump(fr *Frame, succ int) cont {
	fr.prev, fr.block = fr.block, fr.block.Succs[succ]
	fr.pc = 0
	fr.atStart = true
	return kJump
}

func (e *Exec) visit(fr *Frame, instr ssa.Instruction) cont {
	th := fr.th
	switch in := instr.(type) {
	case *ssa.DebugRef:
	case *ssa.UnOp:
		e.setReg(fr, in, e.unop(fr, in, e.get(fr, in.X)))
	case *ssa.BinOp:
		e.setReg(fr, in, e.binop(fr, in, in.Op, in.X.Type(), e.get(fr, in.X), e.get(fr, in.Y)))
	case *ssa.Call:
		fv, args := e.prepareCall(fr, &in.Call)
		r := e.callValue(th, fr, in, fv, args)
		e.setReg(fr, in, r)
	case *ssa.ChangeInterface:
		e.setReg(fr, in, e.get(fr, in.X))
	case *ssa.ChangeType:
		e.setReg(fr, in, e.get(fr, in.X))
	case *ssa.Convert:
		e.setReg(fr, in, e.conv(fr, in, in.Type(), in.X.Type(), e.get(fr, in.X)))
	case *ssa.MultiConvert:
		e.setReg(fr, in, e.conv(fr, in, in.Type(), in.X.Type(), e.get(fr, in.X)))
	case *ssa.SliceToArrayPointer:
		sv := e.get(fr, in.X).(SliceV)
		n := in.Type().Underlying().(*types.Pointer).Elem().Underlying().(*types.Array).Len()
		if sv.Base == nil {
			if n != 0 {
				e.goPanic(th, fr, in, "slice to array pointer of nil slice")
			}
			e.setReg(fr, in, (*Pointer)(nil))
			break
		}
		off, ok1 := e.constInt(sv.Off)
		ln, ok2 := e.constInt(sv.Len)
		if !ok1 || !ok2 {
			panic(unsupported("SliceToArrayPointer with symbolic bounds"))
		}
		if ln < n {
			e.goPanic(th, fr, in, "slice to array pointer: length too short")
		}
		if off == 0 && int64(len(sv.Base.Elems)) == n {
			var v Value = sv.Base
			e.setReg(fr, in, &Pointer{Slot: &v, Tag: sv.Base})
		} else {
			panic(unsupported("SliceToArrayPointer of sub-slice"))
		}
	case *ssa.MakeInterface:
		e.setReg(fr, in, IfaceV{T: in.X.Type(), V: e.copyVal(e.get(fr, in.X))})
	case *ssa.Extract:
		e.setReg(fr, in, e.get(fr, in.Tuple).(TupleV)[in.Index])
	case *ssa.Slice:
		e.setReg(fr, in, e.sliceOp(fr, in))
	case *ssa.Return:
		switch len(in.Results) {
		case 0:
			fr.result = nil
		case 1:
			fr.result = e.copyVal(e.get(fr, in.Results[0]))
		default:
			res := make(TupleV, len(in.Results))
			for i, r := range in.Results {
				res[i] = e.copyVal(e.get(fr, r))
			}
			fr.result = res
		}
		fr.block = nil
		return kReturn
	case *ssa.RunDefers:
		e.runDefers(fr)
	case *ssa.Panic:
		v := e.get(fr, in.X)
		panic(&GoPanic{Val: v, Msg: "panic: " + e.panicString(v), Where: e.pos(in)})
	case *ssa.Send:
		e.chanSend(th, fr, in, e.get(fr, in.Chan), e.get(fr, in.X))
	case *ssa.Store:
		p := e.get(fr, in.Addr)
		e.store(th, fr, in, p, e.get(fr, in.Val))
	case *ssa.If:
		return e.visitIf(fr, in)
	case *ssa.Jump:
		return e.jump(fr, 0)
	case *ssa.Defer:
		fv, args := e.prepareCall(fr, &in.Call)
		fr.defers = append(fr.defers, &deferred{fn: fv, args: args, instr: in})
	case *ssa.Go:
		fv, args := e.prepareCall(fr, &in.Call)
		e.spawn(th, fr, in, fv, args)
	case *ssa.MakeChan:
		n, ok := e.constInt(e.get(fr, in.Size))
		if !ok {
			panic(unsupported("symbolic channel size"))
		}
		e.nobj++
		e.setReg(fr, in, &ChanV{Cap: int(n), id: e.nobj})
	case *ssa.Alloc:
		var p *Pointer
		t := in.Type().Underlying().(*types.Pointer).Elem()
		if in.Heap {
			p = &Pointer{Slot: new(Value)}
			e.setReg(fr, in, p)
		} else {
			p = fr.regs[in].(*Pointer)
			if e.log != nil {
				// re-initialisation of a local inside a merge side: treat as a store
				e.writeSlot(p.Slot, e.zero(t))
				break
			}
		}
		*p.Slot = e.zero(t)
	case *ssa.MakeSlice:
		e.setReg(fr, in, e.makeSlice(fr, in))
	case *ssa.MakeMap:
		e.setReg(fr, in, e.newMap())
	case *ssa.Range:
		e.setReg(fr, in, e.rangeIter(fr, in, e.get(fr, in.X)))
	case *ssa.Next:
		e.setReg(fr, in, e.next(fr, in, e.get(fr, in.Iter).(*mapIter)))
	case *ssa.FieldAddr:
		p := e.get(fr, in.X).(*Pointer)
		e.setReg(fr, in, e.fieldAddr(th, fr, in, p, in.Field))
	case *ssa.Field:
		s := e.get(fr, in.X).(StructV)
		e.setReg(fr, in, e.copyVal(s[in.Field]))
	case *ssa.IndexAddr:
		e.setReg(fr, in, e.indexAddr(fr, in, e.get(fr, in.X), e.get(fr, in.Index)))
	case *ssa.Index:
		e.setReg(fr, in, e.index(fr, in, e.get(fr, in.X), e.get(fr, in.Index)))
	case *ssa.Lookup:
		e.setReg(fr, in, e.lookup(fr, in, e.get(fr, in.X), e.get(fr, in.Index)))
	case *ssa.MapUpdate:
		m := e.get(fr, in.Map).(*MapV)
		if m == nil {
			e.goPanic(th, fr, in, "assignment to entry in nil map")
		}
		e.mapUpdate(fr, m, e.copyVal(e.get(fr, in.Key)), e.copyVal(e.get(fr, in.Value)))
	case *ssa.TypeAssert:
		e.setReg(fr, in, e.typeAssert(fr, in, e.get(fr, in.X).(IfaceV)))
	case *ssa.MakeClosure:
		var env []Value
		for _, b := range in.Bindings {
			env = append(env, e.get(fr, b))
		}
		e.setReg(fr, in, &Closure{Fn: in.Fn.(*ssa.Function), Env: env})
	case *ssa.Phi:
		panic("unexpected phi")
	case *ssa.Select:
		e.setReg(fr, in, e.selectOp(th, fr, in))
	default:
		panic(unsupported(fmt.Sprintf("instruction %T", instr)))
	}
	return kNext
}

func (e *Exec) panicString(v Value) string {
	if iv, ok := v.(IfaceV); ok {
		if s, ok := iv.V.(string); ok {
			return s
		}
		if iv.T != nil {
			// error values built by errors.New / fmt.Errorf
			if p, ok := iv.V.(*Pointer); ok && p != nil && p.Slot != nil {
				if sv, ok := (*p.Slot).(StructV); ok && len(sv) > 0 {
					if s, ok := sv[0].(string); ok {
						return s
					}
				}
			}
			return iv.T.String()
		}
	}
	return describe(v)
}

// ---------------------------------------------------------------- aggregates

func (e *Exec) fieldAddr(th *Thread, fr *Frame, in ssa.Instruction, p *Pointer, field int) *Pointer {
	if p == nil {
		e.goPanic(th, fr, in, "invalid memory address or nil pointer dereference")
	}
	if p.Slot == nil {
		p = e.concretizePtr(fr, in, p)
	}
	s, ok := (*p.Slot).(StructV)
	if !ok {
		if po, isP := (*p.Slot).(*Poison); isP {
			panic(unsupported("field of poisoned value: " + po.Why))
		}
		panic(unsupported(fmt.Sprintf("FieldAddr on %T at %s stack=%s", *p.Slot, e.pos(in), e.stack(fr))))
	}
	return &Pointer{Slot: &s[field]}
}

func (e *Exec) makeSlice(fr *Frame, in *ssa.MakeSlice) Value {
	ln, ok1 := e.constInt(e.get(fr, in.Len))
	cp, ok2 := e.constInt(e.get(fr, in.Cap))
	if !ok1 || !ok2 {
		panic(unsupported("make slice with symbolic size at " + e.pos(in) + " len=" + describe(e.get(fr, in.Len)) + " stack=" + e.stack(fr)))
	}
	if ln < 0 || cp < ln {
		e.goPanic(fr.th, fr, in, "makeslice: len out of range")
	}
	if cp > 1<<24 {
		panic(unsupported(fmt.Sprintf("make slice of %d elements at %s", cp, e.pos(in))))
	}
	et := in.Type().Underlying().(*types.Slice).Elem()
	return e.newSlice(et, int(ln), int(cp))
}

func (e *Exec) newSlice(et types.Type, ln, cp int) SliceV {
	a := &ArrObj{Elems: make([]Value, cp)}
	e.nobj++
	a.id = e.nobj
	if _, ok := sortOf(et); ok && cp > 0 {
		z := e.zero(et)
		for i := range a.Elems {
			a.Elems[i] = z
		}
	} else {
		for i := range a.Elems {
			a.Elems[i] = e.zero(et)
		}
	}
	return SliceV{Base: a, Off: e.mkInt(0), Len: e.mkInt(int64(ln)), Cap: e.mkInt(int64(cp))}
}

var _ = token.NoPos

func (e *Exec) stack(fr *Frame) string {
	s := ""
	for f, i := fr, 0; f != nil && i < 8; f, i = f.caller, i+1 {
		s += f.fn.Name() + " < "
	}
	return s
}
