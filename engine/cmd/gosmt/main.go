// gosmt: bounded symbolic execution of Go SSA with an SMT back end.
//
//	gosmt run -manifest harness/Cxx/manifest.json [-only entry] [-tier quick|thorough] -out result.json
package main

import (
	"encoding/json"
	"flag"
	"fmt"
	"os"
	"path/filepath"
	"sort"
	"strings"
	"time"

	"golang.org/x/tools/go/packages"
	"golang.org/x/tools/go/ssa"
	"golang.org/x/tools/go/ssa/ssautil"

	"verif/gosmt/exec"
)

type HarnessCfg struct {
	exec.Config
	Tier     string          `json:"tier"`     // "" = both, "thorough" = thorough only
	Thorough json.RawMessage `json:"thorough"` // overrides applied in the thorough tier
	Note     string          `json:"note"`
}

type Manifest struct {
	Property  string       `json:"property"`
	Package   string       `json:"package"` // directory relative to /repo
	Files     []string     `json:"files"`   // harness sources relative to the manifest
	// Overlays adds further files to other packages of the repository (stand-ins that need access
	// to unexported state): repo-relative target path -> source relative to the manifest
	Overlays map[string]string `json:"overlays"`
	// Tags: build tags for loading the code (e.g. "noasm" selects the pure Go variants of third-party
	// kernels that otherwise come as assembly); native replays are run with the same tags
	Tags string `json:"tags"`
	Harnesses []HarnessCfg `json:"harnesses"`
}

type HarnessResult struct {
	Entry        string            `json:"entry"`
	Enc          string            `json:"enc"`
	Solver       string            `json:"solver"`
	Verdict      string            `json:"verdict"` // held | violated | inconclusive | reach-ok | reach-failed
	Violations   []exec.Violation  `json:"violations"`
	Inconclusive []string          `json:"inconclusive"`
	Paths        int               `json:"paths"`
	Ends         map[string]int    `json:"ends"`
	Stats        exec.Stats        `json:"stats"`
	SolverTimeS  float64           `json:"solver_time_s"`
	WallS        float64           `json:"wall_s"`
	Funcs        map[string]int    `json:"funcs"`
	Samples      []string          `json:"samples"`
	Exhausted    bool              `json:"exhausted"`
	Bounds       map[string]interface{} `json:"bounds"`
	AssertLabels map[string]int    `json:"assert_labels"`
	Reached      int               `json:"reached"`
	Note         string            `json:"note,omitempty"`
	ReachModel   *exec.Violation   `json:"reach_model,omitempty"`
}

type RunResult struct {
	Property  string          `json:"property"`
	Package   string          `json:"package"`
	LoadS     float64         `json:"load_s"`
	LoadError string          `json:"load_error,omitempty"`
	Harnesses []HarnessResult `json:"harnesses"`
}

func main() {
	if len(os.Args) < 2 {
		fmt.Fprintln(os.Stderr, "usage: gosmt run|rt ...")
		os.Exit(2)
	}
	switch os.Args[1] {
	case "run":
		cmdRun(os.Args[2:])
	case "rt":
		// print the native runtime shim for a package name
		fmt.Print(rtSource(os.Args[2]))
	default:
		fmt.Fprintln(os.Stderr, "unknown command")
		os.Exit(2)
	}
}

func cmdRun(args []string) {
	fs := flag.NewFlagSet("run", flag.ExitOnError)
	mf := fs.String("manifest", "", "harness manifest")
	only := fs.String("only", "", "run only this entry (comma separated)")
	tier := fs.String("tier", "quick", "quick|thorough")
	out := fs.String("out", "", "result json")
	repo := fs.String("repo", "/repo", "repository root")
	verbose := fs.Int("v", 0, "verbosity")
	workers := fs.Int("workers", 0, "override workers")
	replayFile := fs.String("replay", "", "concrete replay of a recorded counterexample (interpreted SSA, fixed values and schedule)")
	fs.Parse(args)
	data, err := os.ReadFile(*mf)
	if err != nil {
		fatal(err)
	}
	var m Manifest
	if err := json.Unmarshal(data, &m); err != nil {
		fatal(fmt.Errorf("manifest: %v", err))
	}
	res := &RunResult{Property: m.Property, Package: m.Package}
	t0 := time.Now()
	prog, pkg, err := load(*repo, &m, filepath.Dir(*mf))
	res.LoadS = time.Since(t0).Seconds()
	if err != nil {
		res.LoadError = err.Error()
		writeOut(*out, res)
		fmt.Fprintln(os.Stderr, "load error:", err)
		os.Exit(3)
	}
	sel := map[string]bool{}
	for _, s := range strings.Split(*only, ",") {
		if s != "" {
			sel[s] = true
		}
	}
	shared := exec.NewShared(prog, pkg)
	for _, h := range m.Harnesses {
		if len(sel) > 0 && !sel[h.Entry] {
			continue
		}
		if h.Tier == "thorough" && *tier != "thorough" {
			continue
		}
		cfg := h.Config
		if *tier == "thorough" && len(h.Thorough) > 0 {
			if err := json.Unmarshal(h.Thorough, &cfg); err != nil {
				fatal(err)
			}
		}
		cfg.Defaults()
		cfg.Thorough = *tier == "thorough"
		cfg.Verbose = *verbose
		if *workers > 0 {
			cfg.Workers = *workers
		}
		if *replayFile != "" {
			var rp struct {
				Values []exec.ReplayValue `json:"values"`
				Sched  []int              `json:"sched"`
			}
			b, err := os.ReadFile(*replayFile)
			if err != nil {
				fatal(err)
			}
			if err := json.Unmarshal(b, &rp); err != nil {
				fatal(err)
			}
			cfg.Replaying = true
			cfg.FixedValues = map[string][]string{}
			for _, v := range rp.Values {
				l := cfg.FixedValues[v.Tag]
				for len(l) <= v.Occ {
					l = append(l, "")
				}
				l[v.Occ] = v.V
				cfg.FixedValues[v.Tag] = l
			}
			cfg.FixedSched = rp.Sched
			cfg.Workers = 1
			cfg.MaxPaths = 1
			cfg.ExpectViolation = false
		}
		fn := pkg.Func(h.Entry)
		hr := HarnessResult{Entry: h.Entry, Enc: cfg.Enc, Solver: cfg.Solver, Note: h.Note}
		if fn == nil {
			hr.Verdict = "inconclusive"
			hr.Inconclusive = []string{"entry function not found: " + h.Entry}
			res.Harnesses = append(res.Harnesses, hr)
			continue
		}
		r := &exec.Runner{Shared: shared, Cfg: &cfg, Entry: fn}
		sum := r.Explore()
		hr.Violations = sum.Violations
		hr.Inconclusive = sum.Inconclusive
		hr.Paths = sum.Stats.Paths
		hr.Ends = sum.Ends
		hr.Stats = sum.Stats
		hr.SolverTimeS = sum.Stats.SolverTime.Seconds()
		hr.WallS = sum.Wall.Seconds()
		hr.Samples = sum.Samples
		hr.Exhausted = sum.Exhausted
		hr.AssertLabels = sum.AssertLabels
		hr.Reached = sum.Reached
		hr.Funcs = map[string]int{}
		for k, v := range sum.Funcs {
			hr.Funcs[k] = v
		}
		hr.Bounds = map[string]interface{}{"unwind": cfg.Unwind, "preempt": cfg.Preempt, "max_paths": cfg.MaxPaths, "query_timeout_s": cfg.QueryTimeoutS, "merge": cfg.Merge}
		switch {
		case cfg.ExpectViolation:
			// reachability twin: must produce a violation
			ri := -1
			for i, v := range sum.Violations {
				if v.Kind == "assert" && v.Label == "reach" {
					ri = i
					break
				}
			}
			if ri >= 0 {
				hr.Verdict = "reach-ok"
				v0 := sum.Violations[ri]
				hr.ReachModel = &v0
				hr.Violations = nil
			} else {
				hr.Verdict = "reach-failed"
			}
		case len(sum.Violations) > 0:
			hr.Verdict = "violated"
		case len(sum.Inconclusive) > 0 || !sum.Exhausted || sum.Stats.Errors > 0:
			hr.Verdict = "inconclusive"
			if len(sum.Inconclusive) == 0 {
				hr.Inconclusive = append(hr.Inconclusive, fmt.Sprintf("solver unknown=%d errors=%d", sum.Stats.Unknown, sum.Stats.Errors))
			}
		case sum.Reached == 0:
			hr.Verdict = "inconclusive"
			hr.Inconclusive = append(hr.Inconclusive, "no path reached the end of the harness (vacuous)")
		default:
			hr.Verdict = "held"
		}
		fmt.Fprintf(os.Stderr, "[%s] %s: %s paths=%d queries=%d (unsat %d sat %d unk %d) asserts=%d merges=%d solver=%.1fs wall=%.1fs\n",
			m.Property, h.Entry, hr.Verdict, hr.Paths, hr.Stats.Queries, hr.Stats.Unsat, hr.Stats.Sat, hr.Stats.Unknown, hr.Stats.Asserts, hr.Stats.Merges, hr.SolverTimeS, hr.WallS)
		for _, s := range hr.Inconclusive {
			fmt.Fprintln(os.Stderr, "    inconclusive:", s)
		}
		for _, v := range hr.Violations {
			fmt.Fprintf(os.Stderr, "    violation: %s %q at %s\n", v.Kind, v.Label, v.Where)
		}
		res.Harnesses = append(res.Harnesses, hr)
	}
	writeOut(*out, res)
}

func writeOut(path string, res *RunResult) {
	b, _ := json.MarshalIndent(res, "", " ")
	if path == "" {
		os.Stdout.Write(b)
		return
	}
	os.WriteFile(path, b, 0o644)
}

func fatal(err error) {
	fmt.Fprintln(os.Stderr, "gosmt:", err)
	os.Exit(2)
}

// load type-checks the target package with the harness files overlaid and builds SSA for the
// whole dependency closure.
func load(repo string, m *Manifest, mdir string) (*ssa.Program, *ssa.Package, error) {
	pkgDir := filepath.Join(repo, m.Package)
	overlay := map[string][]byte{}
	// package name from an existing file
	pkgName, err := packageName(pkgDir)
	if err != nil {
		return nil, nil, err
	}
	overlay[filepath.Join(pkgDir, "zz_verif_rt.go")] = []byte(rtSource(pkgName))
	for _, f := range m.Files {
		b, err := os.ReadFile(filepath.Join(mdir, f))
		if err != nil {
			return nil, nil, err
		}
		// shared harness sources carry the placeholder package clause "package VERIFPKG"
		b = []byte(strings.Replace(string(b), "package VERIFPKG", "package "+pkgName, 1))
		overlay[filepath.Join(pkgDir, "zz_verif_"+filepath.Base(f))] = b
	}
	for target, src := range m.Overlays {
		b, err := os.ReadFile(filepath.Join(mdir, src))
		if err != nil {
			return nil, nil, err
		}
		overlay[filepath.Join(repo, target)] = b
	}
	cfg := &packages.Config{
		Mode:    packages.LoadAllSyntax,
		Dir:     repo,
		Overlay: overlay,
		Env:     append(os.Environ(), "GOFLAGS=-mod=mod", "GOPROXY=off", "GOSUMDB=off", "GOTOOLCHAIN=local"),
	}
	if m.Tags != "" {
		cfg.BuildFlags = []string{"-tags=" + m.Tags}
	}
	pkgs, err := packages.Load(cfg, "./"+m.Package)
	if err != nil {
		return nil, nil, err
	}
	if len(pkgs) != 1 {
		return nil, nil, fmt.Errorf("expected one package, got %d", len(pkgs))
	}
	var errs []string
	packages.Visit(pkgs, nil, func(p *packages.Package) {
		for _, e := range p.Errors {
			if len(errs) < 10 {
				errs = append(errs, e.Error())
			}
		}
	})
	if len(errs) > 0 {
		sort.Strings(errs)
		return nil, nil, fmt.Errorf("type errors: %s", strings.Join(errs, "; "))
	}
	prog, spkgs := ssautil.AllPackages(pkgs, ssa.InstantiateGenerics)
	prog.Build()
	if spkgs[0] == nil {
		return nil, nil, fmt.Errorf("no SSA package")
	}
	return prog, spkgs[0], nil
}

func packageName(dir string) (string, error) {
	ents, err := os.ReadDir(dir)
	if err != nil {
		return "", err
	}
	for _, e := range ents {
		n := e.Name()
		if !strings.HasSuffix(n, ".go") || strings.HasSuffix(n, "_test.go") {
			continue
		}
		b, err := os.ReadFile(filepath.Join(dir, n))
		if err != nil {
			continue
		}
		for _, line := range strings.Split(string(b), "\n") {
			line = strings.TrimSpace(line)
			if strings.HasPrefix(line, "package ") {
				return strings.Fields(line)[1], nil
			}
		}
	}
	return "", fmt.Errorf("no go files in %s", dir)
}
