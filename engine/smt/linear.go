package smt

import (
	"math/big"
	"sort"
)

// Linear-form rewriting for division / remainder by constants.
//
// A term is "exact" when its mathematical value (under its sort's signedness) equals the value of
// the Go expression, i.e. when interval analysis shows that no wrap-around can happen. On exact
// terms  (Σ ci·xi + c0) / K  is split into the part whose coefficients are multiples of K and a
// small rest; with concrete partition data (year, zone) the calendar arithmetic of package time
// then folds almost completely.

type linForm struct {
	coef map[*Term]*big.Int
	k    *big.Int
}

func (c *Ctx) isExact(t *Term) bool {
	// mkI widens the interval to the type range when the result may wrap; an interval strictly
	// inside the type range, or one produced by a non-wrapping op, is exact. We recompute for arithmetic nodes.
	switch t.Op {
	case OAdd, OSub, OMul:
		lo, hi := binInterval(t.Op, t.Sort, t.Args[0], t.Args[1])
		return lo != nil && hi != nil
	}
	return true
}

func (c *Ctx) linear(t *Term, depth int) *linForm {
	lf := &linForm{coef: map[*Term]*big.Int{}, k: new(big.Int)}
	c.linAdd(lf, t, big.NewInt(1), depth)
	return lf
}

func (c *Ctx) linAdd(lf *linForm, t *Term, scale *big.Int, depth int) {
	if t.Op == OConst {
		lf.k.Add(lf.k, new(big.Int).Mul(scale, constBig(t.Sort, t.K)))
		return
	}
	if depth > 0 {
		switch t.Op {
		case OLin:
			for i, a := range t.Args {
				c.linAdd(lf, a, new(big.Int).Mul(scale, t.Coefs[i]), depth-1)
			}
			lf.k.Add(lf.k, new(big.Int).Mul(scale, t.K0))
			return
		case OAdd:
			if c.isExact(t) {
				c.linAdd(lf, t.Args[0], scale, depth-1)
				c.linAdd(lf, t.Args[1], scale, depth-1)
				return
			}
		case OSub:
			if c.isExact(t) {
				c.linAdd(lf, t.Args[0], scale, depth-1)
				c.linAdd(lf, t.Args[1], new(big.Int).Neg(scale), depth-1)
				return
			}
		case OMul:
			if c.isExact(t) {
				if t.Args[1].IsConst() {
					c.linAdd(lf, t.Args[0], new(big.Int).Mul(scale, constBig(t.Sort, t.Args[1].K)), depth-1)
					return
				}
				if t.Args[0].IsConst() {
					c.linAdd(lf, t.Args[1], new(big.Int).Mul(scale, constBig(t.Sort, t.Args[0].K)), depth-1)
					return
				}
			}
		case OConv:
			in := t.Args[0]
			if fits(t.Sort, in.Lo, in.Hi) {
				c.linAdd(lf, in, scale, depth-1)
				return
			}
		case OShl:
			if t.Args[1].IsConst() {
				lo := new(big.Int).Lsh(t.Args[0].Lo, uint(t.Args[1].K))
				hi := new(big.Int).Lsh(t.Args[0].Hi, uint(t.Args[1].K))
				if fits(t.Sort, lo, hi) {
					c.linAdd(lf, t.Args[0], new(big.Int).Mul(scale, pow2(uint(t.Args[1].K))), depth-1)
					return
				}
			}
		}
	}
	if old, ok := lf.coef[t]; ok {
		old.Add(old, scale)
		if old.Sign() == 0 {
			delete(lf.coef, t)
		}
	} else {
		lf.coef[t] = new(big.Int).Set(scale)
	}
}

func (lf *linForm) atoms() []*Term {
	as := make([]*Term, 0, len(lf.coef))
	for a := range lf.coef {
		as = append(as, a)
	}
	sort.Slice(as, func(i, j int) bool { return as[i].ID < as[j].ID })
	return as
}

// interval of Σ ci·xi + k
func (lf *linForm) interval() (*big.Int, *big.Int) {
	lo, hi := new(big.Int).Set(lf.k), new(big.Int).Set(lf.k)
	for a, co := range lf.coef {
		x, y := new(big.Int).Mul(co, a.Lo), new(big.Int).Mul(co, a.Hi)
		if x.Cmp(y) > 0 {
			x, y = y, x
		}
		lo.Add(lo, x)
		hi.Add(hi, y)
	}
	return lo, hi
}

// build turns a linear form into a term of sort s (modular arithmetic keeps it correct).
func (c *Ctx) buildLin(lf *linForm, s Sort) *Term {
	var pos, neg *Term
	addTo := func(acc **Term, t *Term) {
		if *acc == nil {
			*acc = t
		} else {
			*acc = c.Bin(OAdd, *acc, t)
		}
	}
	for _, a := range lf.atoms() {
		co := lf.coef[a]
		x := a
		if x.Sort != s {
			x = c.Conv(x, s)
		}
		abs := new(big.Int).Abs(co)
		if abs.Cmp(bigOne) != 0 {
			x = c.Bin(OMul, x, c.Const(s, abs.Uint64()))
		}
		if co.Sign() > 0 {
			addTo(&pos, x)
		} else {
			addTo(&neg, x)
		}
	}
	var r *Term
	if pos != nil {
		r = pos
	}
	if lf.k.Sign() > 0 || (r == nil && lf.k.Sign() == 0) {
		kc := c.Const(s, lf.k.Uint64())
		if r == nil {
			r = kc
		} else if lf.k.Sign() != 0 {
			r = c.Bin(OAdd, r, kc)
		}
	}
	if lf.k.Sign() < 0 {
		kc := c.Const(s, new(big.Int).Neg(lf.k).Uint64())
		if r == nil {
			r = c.Neg(kc)
		} else {
			r = c.Bin(OSub, r, kc)
		}
	}
	if neg != nil {
		if r == nil {
			r = c.Neg(neg)
		} else {
			r = c.Bin(OSub, r, neg)
		}
	}
	return r
}

// divRemConst simplifies a / K and a % K for exact, non-negative a and constant K > 0.
// Returns (quo, rem, ok).
func (c *Ctx) divRemConst(a *Term, K *big.Int) (*Term, *Term, bool) {
	if K.Sign() <= 0 {
		return nil, nil, false
	}
	if a.Lo.Sign() < 0 {
		// exact division (every coefficient and the constant are multiples of K) is sign-independent
		lf := c.linear(a, 12)
		if len(lf.coef) == 0 || len(lf.coef) > 24 {
			return nil, nil, false
		}
		P := &linForm{coef: map[*Term]*big.Int{}, k: new(big.Int)}
		for a2, co := range lf.coef {
			q, r := new(big.Int).QuoRem(co, K, new(big.Int))
			if r.Sign() != 0 {
				return c.smallRangeDiv(a, K)
			}
			P.coef[a2] = q
		}
		q, r := new(big.Int).QuoRem(lf.k, K, new(big.Int))
		if r.Sign() != 0 {
			return c.smallRangeDiv(a, K)
		}
		P.k = q
		sw := IntSort(int(a.Sort.W), true)
		return c.Conv(c.buildLin(P, sw), a.Sort), c.Const(a.Sort, 0), true
	}
	orig := a.Sort
	// work in a signed sort so that atoms with negative values do not wrap
	s := IntSort(int(orig.W), true)
	lf := c.linear(a, 12)
	{
		// every partial sum must fit the work sort
		tot := new(big.Int).Abs(lf.k)
		for at, co := range lf.coef {
			m := new(big.Int).Abs(at.Lo)
			if h := new(big.Int).Abs(at.Hi); h.Cmp(m) > 0 {
				m = h
			}
			tot.Add(tot, m.Mul(m, new(big.Int).Abs(co)))
		}
		_, th := typeRange(s)
		if tot.Cmp(th) > 0 {
			return nil, nil, false
		}
	}
	if len(lf.coef) > 24 {
		return nil, nil, false
	}
	P := &linForm{coef: map[*Term]*big.Int{}, k: new(big.Int)}
	R := &linForm{coef: map[*Term]*big.Int{}, k: new(big.Int)}
	changed := false
	for a2, co := range lf.coef {
		q, r := new(big.Int).DivMod(co, K, new(big.Int))
		if q.Sign() != 0 {
			P.coef[a2] = q
			changed = true
		}
		if r.Sign() != 0 {
			R.coef[a2] = r
		}
	}
	m, r0 := new(big.Int).DivMod(lf.k, K, new(big.Int))
	if m.Sign() != 0 {
		changed = true
	}
	P.k.Set(m)
	R.k.Set(r0)
	rlo, rhi := R.interval()
	if rlo.Sign() < 0 {
		// shift the rest into the non-negative range
		j := new(big.Int).Neg(rlo)
		j.Add(j, K).Sub(j, bigOne).Div(j, K)
		R.k.Add(R.k, new(big.Int).Mul(j, K))
		P.k.Sub(P.k, j)
		rlo, rhi = R.interval()
		changed = true
	}
	// the split forms are built as machine terms of the work sort: every partial sum of P and of R
	// must fit it as well (a negative coefficient c turns into the rest coefficient c mod K, which
	// can be far larger than |c|)
	{
		_, th := typeRange(s)
		for _, f := range []*linForm{P, R} {
			tot := new(big.Int).Abs(f.k)
			for at, co := range f.coef {
				m := new(big.Int).Abs(at.Lo)
				if h := new(big.Int).Abs(at.Hi); h.Cmp(m) > 0 {
					m = h
				}
				tot.Add(tot, m.Mul(m, new(big.Int).Abs(co)))
			}
			if tot.Cmp(th) > 0 {
				return nil, nil, false
			}
		}
	}
	qlo := new(big.Int).Div(rlo, K)
	qhi := new(big.Int).Div(rhi, K)
	if !changed && qlo.Cmp(qhi) != 0 {
		return c.smallRangeDiv(a, K)
	}
	rt := c.buildLin(R, s)
	var rq, rr *Term
	if qlo.Cmp(qhi) == 0 {
		// the rest's quotient is a constant
		P.k.Add(P.k, qlo)
		rq = c.buildLin(P, s)
		sub := &linForm{coef: R.coef, k: new(big.Int).Sub(R.k, new(big.Int).Mul(qlo, K))}
		rr = c.buildLin(sub, s)
	} else {
		kc := c.Const(s, K.Uint64())
		q2 := c.rawBin(OQuo, rt, kc)
		r2 := c.rawBin(ORem, rt, kc)
		if len(P.coef) == 0 && P.k.Sign() == 0 {
			rq = q2
		} else {
			rq = c.Bin(OAdd, c.buildLin(P, s), q2)
		}
		rr = r2
	}
	return c.Conv(rq, orig), c.Conv(rr, orig), true
}

// rawBin builds a Quo/Rem node without trying the linear rewrite again.
func (c *Ctx) rawBin(op Op, a, b *Term) *Term {
	if a.IsConst() && b.IsConst() {
		if v, ok := foldBin(op, a.Sort, a.K, b.K); ok {
			return c.Const(a.Sort, v)
		}
	}
	lo, hi := binInterval(op, a.Sort, a, b)
	return c.mkI(op, a.Sort, lo, hi, a, b)
}

// smallRangeDiv expands a / K and a % K into an ite chain when a takes only a few values.
func (c *Ctx) smallRangeDiv(a *Term, K *big.Int) (*Term, *Term, bool) {
	w := new(big.Int).Sub(a.Hi, a.Lo)
	if !w.IsInt64() || w.Int64() > 6 || w.Int64() <= 0 {
		return nil, nil, false
	}
	n := int(w.Int64())
	var q, r *Term
	for i := n; i >= 0; i-- {
		v := new(big.Int).Add(a.Lo, big.NewInt(int64(i)))
		qv, rv := new(big.Int).QuoRem(v, K, new(big.Int))
		var qb, rb uint64
		if qv.Sign() < 0 {
			qb = uint64(qv.Int64())
		} else {
			qb = qv.Uint64()
		}
		if rv.Sign() < 0 {
			rb = uint64(rv.Int64())
		} else {
			rb = rv.Uint64()
		}
		qc, rc := c.Const(a.Sort, qb), c.Const(a.Sort, rb)
		if q == nil {
			q, r = qc, rc
			continue
		}
		var vb uint64
		if v.Sign() < 0 {
			vb = uint64(v.Int64())
		} else {
			vb = v.Uint64()
		}
		eq := c.Cmp(OEq, a, c.Const(a.Sort, vb))
		q = c.Ite(eq, qc, q)
		r = c.Ite(eq, rc, r)
	}
	return q, r, true
}

// ---------------------------------------------------------------- modular linear forms

// linAddMod collects a linear form that is congruent (mod 2^64) to the Go value of t.
func (c *Ctx) linAddMod(lf *linForm, t *Term, scale *big.Int, depth int) {
	if t.Op == OConst {
		lf.k.Add(lf.k, new(big.Int).Mul(scale, constBig(t.Sort, t.K)))
		return
	}
	if depth > 0 && t.Sort.K == KInt {
		switch t.Op {
		case OLin:
			for i, a := range t.Args {
				c.linAddMod(lf, a, new(big.Int).Mul(scale, t.Coefs[i]), depth-1)
			}
			lf.k.Add(lf.k, new(big.Int).Mul(scale, t.K0))
			return
		case OAdd:
			if t.Sort.W == 64 {
				c.linAddMod(lf, t.Args[0], scale, depth-1)
				c.linAddMod(lf, t.Args[1], scale, depth-1)
				return
			}
		case OSub:
			if t.Sort.W == 64 {
				c.linAddMod(lf, t.Args[0], scale, depth-1)
				c.linAddMod(lf, t.Args[1], new(big.Int).Neg(scale), depth-1)
				return
			}
		case OMul:
			if t.Sort.W == 64 {
				if t.Args[1].IsConst() {
					c.linAddMod(lf, t.Args[0], new(big.Int).Mul(scale, constBig(t.Sort, t.Args[1].K)), depth-1)
					return
				}
				if t.Args[0].IsConst() {
					c.linAddMod(lf, t.Args[1], new(big.Int).Mul(scale, constBig(t.Sort, t.Args[0].K)), depth-1)
					return
				}
			}
		case OConv:
			in := t.Args[0]
			if t.Sort.W == 64 && in.Sort.K == KInt && in.Sort.W <= 64 {
				// widening or same-width reinterpretation is a congruence mod 2^64
				if in.Sort.W == 64 || fits(in.Sort, in.Lo, in.Hi) {
					c.linAddMod(lf, in, scale, depth-1)
					return
				}
			}
		}
	}
	if old, ok := lf.coef[t]; ok {
		old.Add(old, scale)
		if old.Sign() == 0 {
			delete(lf.coef, t)
		}
	} else {
		lf.coef[t] = new(big.Int).Set(scale)
	}
}

var two64 = new(big.Int).Lsh(bigOne, 64)
var two63 = new(big.Int).Lsh(bigOne, 63)

func signedRep(x *big.Int) *big.Int {
	r := new(big.Int).Mod(x, two64)
	if r.Cmp(two63) >= 0 {
		r.Sub(r, two64)
	}
	return r
}

// modLinear tries to express the 64-bit term (whose modular linear form is lf) as an exact OLin node of sort s.
func (c *Ctx) modLinear(lf *linForm, s Sort) *Term {
	if len(lf.coef) == 0 || len(lf.coef) > 16 {
		return nil
	}
	for a, co := range lf.coef {
		r := signedRep(co)
		if r.Sign() == 0 {
			delete(lf.coef, a)
		} else {
			lf.coef[a] = r
		}
	}
	// the constant may need a multiple of 2^64 added to land in the range: try the signed and the unsigned representative
	k0 := signedRep(lf.k)
	for _, k := range []*big.Int{k0, new(big.Int).Add(k0, two64), new(big.Int).Sub(k0, two64)} {
		lf.k = k
		lo, hi := lf.interval()
		if fits(s, lo, hi) {
			return c.mkLin(s, lf, lo, hi)
		}
	}
	return nil
}

func (c *Ctx) mkLin(s Sort, lf *linForm, lo, hi *big.Int) *Term {
	as := lf.atoms()
	if len(as) == 0 {
		return c.Const(s, signedRep(lf.k).Uint64()&mask(int(s.W)))
	}
	if len(as) == 1 && lf.k.Sign() == 0 && lf.coef[as[0]].Cmp(bigOne) == 0 && fits(s, as[0].Lo, as[0].Hi) {
		return c.Conv(as[0], s)
	}
	t := &Term{Op: OLin, Sort: s, Args: as, K0: new(big.Int).Set(lf.k)}
	for _, a := range as {
		t.Coefs = append(t.Coefs, lf.coef[a])
	}
	t.Lo, t.Hi = lo, hi
	return c.intern(t)
}

func (c *Ctx) tryModLinear(op Op, s Sort, a, b *Term) *Term {
	lf := &linForm{coef: map[*Term]*big.Int{}, k: new(big.Int)}
	c.linAddMod(lf, a, big.NewInt(1), 10)
	if op == OAdd {
		c.linAddMod(lf, b, big.NewInt(1), 10)
	} else {
		c.linAddMod(lf, b, big.NewInt(-1), 10)
	}
	return c.modLinear(lf, s)
}

func (c *Ctx) tryModLinearConv(a *Term, to Sort) *Term {
	if a.Op != OAdd && a.Op != OSub && a.Op != OLin && a.Op != OMul {
		return nil
	}
	lf := &linForm{coef: map[*Term]*big.Int{}, k: new(big.Int)}
	c.linAddMod(lf, a, big.NewInt(1), 10)
	return c.modLinear(lf, to)
}
