package smt

// Bit provenance: for terms built by masks, shifts by constants, ors, xors with constants and
// width conversions, every bit is either a constant or one bit of some other ("source") term,
// possibly inverted. A word that is reassembled from the bits of one source (a value written to a
// bit stream at an arbitrary bit offset and read back) is recognised as that source, whatever the
// byte and bit shuffling in between.

type bitD struct {
	src *Term // nil: constant bit (inv = its value)
	idx uint8
	inv bool
}

// bitsOf returns the provenance of every bit of an integer term (len = width).
func bitsOf(t *Term) []bitD {
	if t.bits != nil {
		return t.bits
	}
	w := int(t.Sort.W)
	d := make([]bitD, w)
	if t.Op == OConst {
		for j := 0; j < w; j++ {
			d[j] = bitD{inv: t.K>>uint(j)&1 == 1}
		}
		return d
	}
	kz, ko := t.knownBits()
	for j := 0; j < w; j++ {
		switch {
		case kz>>uint(j)&1 == 1:
			d[j] = bitD{}
		case ko>>uint(j)&1 == 1:
			d[j] = bitD{inv: true}
		default:
			d[j] = bitD{src: t, idx: uint8(j)}
		}
	}
	return d
}

// computeBits fills t.bits for the bitwise operators; other terms stay opaque (their bits are
// their own).
func (t *Term) computeBits() {
	if t.Sort.K != KInt || t.Sort.W > 64 {
		return
	}
	w := int(t.Sort.W)
	self := func(j int) bitD { return bitD{src: t, idx: uint8(j)} }
	var d []bitD
	switch t.Op {
	case OAnd, OOr, OXor:
		a, b := bitsOf(t.Args[0]), bitsOf(t.Args[1])
		d = make([]bitD, w)
		for j := 0; j < w; j++ {
			x, y := a[j], b[j]
			if x.src == nil {
				x, y = y, x
			}
			// now: y const if any is const
			switch t.Op {
			case OAnd:
				switch {
				case y.src == nil && !y.inv:
					d[j] = bitD{}
				case y.src == nil && y.inv:
					d[j] = x
				case x == y:
					d[j] = x
				case x.src == y.src && x.idx == y.idx:
					d[j] = bitD{} // b & ^b
				default:
					d[j] = self(j)
				}
			case OOr:
				switch {
				case y.src == nil && y.inv:
					d[j] = bitD{inv: true}
				case y.src == nil && !y.inv:
					d[j] = x
				case x == y:
					d[j] = x
				case x.src == y.src && x.idx == y.idx:
					d[j] = bitD{inv: true}
				default:
					d[j] = self(j)
				}
			case OXor:
				switch {
				case y.src == nil:
					d[j] = x
					if y.inv {
						d[j].inv = !x.inv
					}
				case x.src == y.src && x.idx == y.idx:
					d[j] = bitD{inv: x.inv != y.inv}
				default:
					d[j] = self(j)
				}
			}
		}
	case OShl, OShr:
		if !t.Args[1].IsConst() {
			return
		}
		k := int(t.Args[1].K)
		a := bitsOf(t.Args[0])
		d = make([]bitD, w)
		for j := 0; j < w; j++ {
			if t.Op == OShl {
				if j >= k {
					d[j] = a[j-k]
				}
			} else {
				switch {
				case j+k < w:
					d[j] = a[j+k]
				case t.Sort.Signed:
					d[j] = a[w-1]
				}
			}
		}
	case OConv:
		in := t.Args[0]
		if in.Sort.K != KInt || in.Sort.W > 64 {
			return
		}
		a := bitsOf(in)
		wa := int(in.Sort.W)
		d = make([]bitD, w)
		for j := 0; j < w; j++ {
			switch {
			case j < wa:
				d[j] = a[j]
			case in.Sort.Signed:
				d[j] = a[wa-1]
			}
		}
	case OIte:
		a, b := bitsOf(t.Args[1]), bitsOf(t.Args[2])
		d = make([]bitD, w)
		for j := 0; j < w; j++ {
			if a[j] == b[j] {
				d[j] = a[j]
			} else {
				d[j] = self(j)
			}
		}
	default:
		return
	}
	t.bits = d
	// constants found here sharpen the known bits
	var kz, ko uint64
	for j, x := range d {
		if x.src == nil {
			if x.inv {
				ko |= 1 << uint(j)
			} else {
				kz |= 1 << uint(j)
			}
		}
	}
	t.knownBits()
	t.kz |= kz &^ t.ko
	t.ko |= ko &^ t.kz
}

// canonBits returns a smaller term equal to t when all non-constant bits of t come from one source
// at one constant offset, or nil.
func (c *Ctx) canonBits(t *Term) *Term {
	d := t.bits
	if d == nil || c.inCanon > 0 {
		return nil
	}
	w := int(t.Sort.W)
	var src *Term
	off := 0
	var nmask, ones, inv uint64
	for j, x := range d {
		if x.src == nil {
			if x.inv {
				ones |= 1 << uint(j)
			}
			continue
		}
		if x.src == t {
			return nil
		}
		o := int(x.idx) - j
		if src == nil {
			src, off = x.src, o
		} else if src != x.src || off != o {
			return nil
		}
		nmask |= 1 << uint(j)
		if x.inv {
			inv |= 1 << uint(j)
		}
	}
	m := mask(w)
	if src == nil {
		return c.Const(t.Sort, ones)
	}
	ws := int(src.Sort.W)
	// which bits would the shifted/converted source have on its own
	var avail uint64
	for j := 0; j < w; j++ {
		if i := j + off; i >= 0 && i < ws {
			avail |= 1 << uint(j)
		}
	}
	cost := src.size
	if off != 0 {
		cost += 2
	}
	if ws != w || src.Sort.Signed != t.Sort.Signed {
		cost++
	}
	needMask := avail&^nmask != 0
	if needMask {
		// bits of the source known to be zero need no mask
		skz, _ := src.knownBits()
		var z uint64
		for j := 0; j < w; j++ {
			if i := j + off; i >= 0 && i < ws && skz>>uint(i)&1 == 1 {
				z |= 1 << uint(j)
			}
		}
		if avail&^nmask&^z == 0 {
			needMask = false
		}
	}
	if needMask {
		cost += 2
	}
	if inv != 0 {
		cost += 2
	}
	if ones != 0 {
		cost += 2
	}
	if cost >= t.size {
		return nil
	}
	c.inCanon++
	defer func() { c.inCanon-- }()
	x := src
	if x.Sort.Signed {
		x = c.Conv(x, IntSort(ws, false))
	}
	if off > 0 {
		x = c.Shift(OShr, x, c.Const(x.Sort, uint64(off)))
	}
	if ws != w {
		x = c.Conv(x, IntSort(w, false))
	}
	if off < 0 {
		x = c.Shift(OShl, x, c.Const(x.Sort, uint64(-off)))
	}
	us := IntSort(w, false)
	if needMask {
		x = c.Bin(OAnd, x, c.Const(us, nmask&m))
	}
	if inv != 0 {
		x = c.Bin(OXor, x, c.Const(us, inv))
	}
	if ones != 0 {
		x = c.Bin(OOr, x, c.Const(us, ones))
	}
	if x.Sort != t.Sort {
		x = c.Conv(x, t.Sort)
	}
	return x
}

// bitsDiffer / bitsEqual decide an equality from the provenance of both sides.
func bitsDecideEq(a, b *Term) (equal, decided bool) {
	if a.bits == nil && b.bits == nil {
		return false, false
	}
	if a.Sort.W != b.Sort.W || a.Sort.W > 64 {
		return false, false
	}
	x, y := bitsOf(a), bitsOf(b)
	all := true
	for j := range x {
		p, q := x[j], y[j]
		if p.src == q.src && (p.src == nil || p.idx == q.idx) {
			if p.inv != q.inv {
				return false, true
			}
			continue
		}
		all = false
	}
	if all {
		return true, true
	}
	return false, false
}
