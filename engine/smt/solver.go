package smt

import (
	"bufio"
	"fmt"
	"io"
	"os"
	"os/exec"
	"strings"
	"sync"
	"time"
)

type Result int

const (
	Unsat Result = iota
	Sat
	Unknown
	Error
)

func (r Result) String() string { return [...]string{"unsat", "sat", "unknown", "error"}[r] }

// Solver is one long-lived SMT solver process driven over stdin/stdout, with the
// asserted path condition kept so that it can be re-established after a restart.
type Solver struct {
	Bin     string
	Args    []string
	P       *Printer
	cmd     *exec.Cmd
	in      io.WriteCloser
	out     *bufio.Reader
	scopes  [][]*Term // asserted terms per push level
	Queries int
	NSat    int
	NUnsat  int
	NUnk    int
	NErr    int
	Time    time.Duration
	LastErr string
	Log     io.Writer
	mu      sync.Mutex
	dead    bool
	lastSat bool
	inModelScope bool
	Restarts int
}

func NewSolver(bin string, enc Enc) *Solver {
	s := &Solver{Bin: bin, P: NewPrinter(enc)}
	switch {
	case strings.Contains(bin, "cvc5"):
		s.Args = []string{"--incremental", "--lang=smt2", "--produce-models"}
	default:
		s.Args = []string{"-in"}
	}
	s.scopes = [][]*Term{nil}
	s.start()
	return s
}

func (s *Solver) start() {
	s.cmd = exec.Command(s.Bin, s.Args...)
	in, _ := s.cmd.StdinPipe()
	out, _ := s.cmd.StdoutPipe()
	s.cmd.Stderr = nil
	if err := s.cmd.Start(); err != nil {
		panic(fmt.Sprintf("cannot start solver %s: %v", s.Bin, err))
	}
	s.in = in
	s.out = bufio.NewReaderSize(out, 1<<16)
	s.dead = false
	if strings.Contains(s.Bin, "cvc5") {
		s.send("(set-logic ALL)\n")
	}
	s.send("(set-option :produce-models true)\n")
}

func (s *Solver) Close() {
	if s.cmd != nil && s.cmd.Process != nil {
		s.in.Close()
		s.cmd.Process.Kill()
		s.cmd.Wait()
	}
}

func (s *Solver) send(x string) {
	if s.Log != nil {
		io.WriteString(s.Log, x)
	}
	io.WriteString(s.in, x)
}

func (s *Solver) restart() {
	s.Restarts++
	s.cmd.Process.Kill()
	s.cmd.Wait()
	s.P.ResetAll()
	s.inModelScope = false
	s.start()
}

func (s *Solver) Push() {
	s.scopes = append(s.scopes, nil)
	s.P.Push()
	s.send("(push 1)\n")
}
func (s *Solver) Pop() {
	s.scopes = s.scopes[:len(s.scopes)-1]
	s.P.Pop()
	s.send("(pop 1)\n")
}

// Assert adds t to the current scope.
func (s *Solver) Assert(t *Term) {
	s.scopes[len(s.scopes)-1] = append(s.scopes[len(s.scopes)-1], t)
	r := s.P.Ref(t)
	s.send(s.P.Take())
	s.send("(assert " + r + ")\n")
}

func (s *Solver) readResult(timeout time.Duration) (Result, bool) {
	type rr struct {
		r  Result
		ok bool
	}
	ch := make(chan rr, 1)
	go func() {
		for {
			line, err := s.out.ReadString('\n')
			if err != nil {
				ch <- rr{Error, false}
				return
			}
			line = strings.TrimSpace(line)
			switch {
			case line == "sat":
				ch <- rr{Sat, true}
				return
			case line == "unsat":
				ch <- rr{Unsat, true}
				return
			case line == "unknown" || line == "timeout":
				ch <- rr{Unknown, true}
				return
			case strings.HasPrefix(line, "(error"):
				s.LastErr = line
				// keep reading: the check-sat answer still follows, but the result is not trusted
				s.NErr++
			}
		}
	}()
	select {
	case r := <-ch:
		return r.r, r.ok
	case <-time.After(timeout + 5*time.Second):
		return Unknown, false
	}
}

// Check asks whether the conjunction of asserts is satisfiable. Definitions are emitted at the
// base level (they are only macros); the assertions live in a scope that is popped afterwards,
// except after a Sat answer, where it is kept until EndModel so that values can be read.
func (s *Solver) Check(timeout time.Duration, asserts ...*Term) Result {
	s.mu.Lock()
	defer s.mu.Unlock()
	s.EndModel()
	t0 := time.Now()
	s.Queries++
	nerr := s.NErr
	refs := make([]string, len(asserts))
	for i, t := range asserts {
		refs[i] = s.P.Ref(t)
	}
	var sb strings.Builder
	sb.WriteString(s.P.Take())
	sb.WriteString("(push 1)\n")
	for _, r := range refs {
		sb.WriteString("(assert " + r + ")\n")
	}
	ms := int(timeout / time.Millisecond)
	if ms < 1 {
		ms = 1
	}
	if strings.Contains(s.Bin, "cvc5") {
		sb.WriteString(fmt.Sprintf("(set-option :tlimit-per %d)\n", ms))
	} else {
		sb.WriteString(fmt.Sprintf("(set-option :timeout %d)\n", ms))
	}
	sb.WriteString("(check-sat)\n")
	s.send(sb.String())
	res, ok := s.readResult(timeout)
	if !ok {
		s.restart()
		s.NUnk++
		s.Time += time.Since(t0)
		return Unknown
	}
	if s.NErr != nerr {
		res = Error
	}
	if res != Sat {
		s.send("(pop 1)\n")
		s.inModelScope = false
	} else {
		s.inModelScope = true
	}
	switch res {
	case Sat:
		s.NSat++
	case Unsat:
		s.NUnsat++
	default:
		s.NUnk++
	}
	s.Time += time.Since(t0)
	return res
}

// Reset clears the solver state (between runs: term ids are per run).
func (s *Solver) Reset() {
	s.EndModel()
	s.P.ResetAll()
	s.send("(reset)\n")
	if strings.Contains(s.Bin, "cvc5") {
		s.send("(set-logic ALL)\n")
	}
	s.send("(set-option :produce-models true)\n")
}

// after a Sat answer the query scope is kept open until Model / EndModel is called.
var _ = os.Getenv

func (s *Solver) EndModel() {
	if s.inModelScope {
		s.send("(pop 1)\n")
		s.inModelScope = false
	}
}

// Values evaluates terms in the model of the last Sat answer. Returns raw SMT-LIB value strings.
func (s *Solver) Values(ts []*Term) ([]string, error) {
	if !s.inModelScope {
		return nil, fmt.Errorf("no model")
	}
	res := make([]string, len(ts))
	for i, t := range ts {
		if t.Op == OConst {
			res[i] = s.P.constStr(t)
			continue
		}
		if !s.P.IsEmitted(t) {
			// nothing may be declared or defined inside the query scope (it is popped afterwards):
			// an undeclared variable is unconstrained, other terms are evaluated by the caller
			res[i] = ""
			continue
		}
		r := s.P.Ref(t)
		s.send("(get-value (" + r + "))\n")
		v, err := s.readSexp()
		if err != nil {
			return nil, err
		}
		// v = ((name value))
		v = strings.TrimSpace(v)
		v = strings.TrimPrefix(v, "((")
		v = strings.TrimSuffix(v, "))")
		v = strings.TrimSpace(strings.TrimPrefix(v, r))
		res[i] = v
	}
	return res, nil
}

func (s *Solver) readSexp() (string, error) {
	var sb strings.Builder
	depth := 0
	started := false
	for {
		line, err := s.out.ReadString('\n')
		if err != nil {
			return "", err
		}
		sb.WriteString(line)
		for _, ch := range line {
			if ch == '(' {
				depth++
				started = true
			} else if ch == ')' {
				depth--
			}
		}
		if started && depth <= 0 {
			break
		}
	}
	out := sb.String()
	if strings.HasPrefix(strings.TrimSpace(out), "(error") {
		return "", fmt.Errorf("solver: %s", out)
	}
	return out, nil
}

// ParseValue decodes an SMT-LIB value string of the given sort into constant bits.
func ParseValue(v string, srt Sort) (uint64, bool) {
	v = strings.TrimSpace(v)
	switch srt.K {
	case KBool:
		return map[string]uint64{"true": 1, "false": 0}[v], v == "true" || v == "false"
	case KInt:
		if strings.HasPrefix(v, "#x") {
			var x uint64
			_, err := fmt.Sscanf(v[2:], "%x", &x)
			return x, err == nil
		}
		if strings.HasPrefix(v, "#b") {
			var x uint64
			for _, ch := range v[2:] {
				x = x<<1 | uint64(ch-'0')
			}
			return x, true
		}
		if strings.HasPrefix(v, "(_ bv") {
			var x uint64
			var w int
			_, err := fmt.Sscanf(v, "(_ bv%d %d)", &x, &w)
			return x, err == nil
		}
		neg := false
		if strings.HasPrefix(v, "(-") {
			neg = true
			v = strings.TrimSpace(strings.TrimSuffix(strings.TrimPrefix(v, "(-"), ")"))
		}
		var x uint64
		_, err := fmt.Sscanf(v, "%d", &x)
		if err != nil {
			return 0, false
		}
		if neg {
			x = -x
		}
		return x & mask(int(srt.W)), true
	case KF64, KF32:
		eb, sb := 11, 52
		if srt.K == KF32 {
			eb, sb = 8, 23
		}
		bits := func(sign, exp, sig uint64) uint64 { return sign<<uint(eb+sb) | exp<<uint(sb) | sig }
		emax := uint64(1)<<uint(eb) - 1
		switch {
		case strings.HasPrefix(v, "(_ NaN"):
			return bits(0, emax, 1<<uint(sb-1)), true
		case strings.HasPrefix(v, "(_ +oo"):
			return bits(0, emax, 0), true
		case strings.HasPrefix(v, "(_ -oo"):
			return bits(1, emax, 0), true
		case strings.HasPrefix(v, "(_ +zero"):
			return 0, true
		case strings.HasPrefix(v, "(_ -zero"):
			return bits(1, 0, 0), true
		case strings.HasPrefix(v, "(fp "):
			f := strings.Fields(strings.TrimSuffix(strings.TrimPrefix(v, "(fp "), ")"))
			if len(f) != 3 {
				return 0, false
			}
			var parts [3]uint64
			for i, x := range f {
				u, ok := ParseValue(x, U64)
				if !ok {
					return 0, false
				}
				parts[i] = u
			}
			return bits(parts[0], parts[1], parts[2]), true
		}
	}
	return 0, false
}
