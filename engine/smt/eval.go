package smt

// Eval evaluates a term under an assignment of the variables (bit patterns). ok=false when the term
// contains something the evaluator does not cover (floats, arrays, uninterpreted functions, an
// unassigned variable); callers then fall back to the solver.
type Evaluator struct {
	Model map[*Term]uint64
	memo  map[int]uint64
	bad   map[int]bool
}

func NewEvaluator(model map[*Term]uint64) *Evaluator {
	return &Evaluator{Model: model, memo: map[int]uint64{}, bad: map[int]bool{}}
}

func (ev *Evaluator) Eval(t *Term) (uint64, bool) {
	if t.Op == OConst {
		return t.K, true
	}
	if v, ok := ev.memo[t.ID]; ok {
		return v, true
	}
	if ev.bad[t.ID] {
		return 0, false
	}
	v, ok := ev.eval(t)
	if ok {
		ev.memo[t.ID] = v
	} else {
		ev.bad[t.ID] = true
	}
	return v, ok
}

func (ev *Evaluator) eval(t *Term) (uint64, bool) {
	switch t.Op {
	case OVar:
		if t.Sort.K != KInt && t.Sort.K != KBool {
			return 0, false
		}
		v, ok := ev.Model[t]
		return v, ok
	case OAdd, OSub, OMul, OQuo, ORem, OAnd, OOr, OXor:
		a, ok1 := ev.Eval(t.Args[0])
		b, ok2 := ev.Eval(t.Args[1])
		if !ok1 || !ok2 {
			return 0, false
		}
		return foldBin(t.Op, t.Sort, a, b)
	case OShl, OShr:
		a, ok1 := ev.Eval(t.Args[0])
		k, ok2 := ev.Eval(t.Args[1])
		if !ok1 || !ok2 {
			return 0, false
		}
		w := uint64(t.Sort.W)
		m := mask(int(w))
		if t.Op == OShl {
			if k >= w {
				return 0, true
			}
			return (a << k) & m, true
		}
		if t.Sort.Signed {
			if k >= 64 {
				k = 63
			}
			return uint64(signExt(a, int(w))>>k) & m, true
		}
		if k >= w {
			return 0, true
		}
		return a >> k, true
	case OEq:
		if t.Args[0].Sort.K != KInt && t.Args[0].Sort.K != KBool {
			return 0, false
		}
		a, ok1 := ev.Eval(t.Args[0])
		b, ok2 := ev.Eval(t.Args[1])
		if !ok1 || !ok2 {
			return 0, false
		}
		return b2u(a == b), true
	case OLt, OLe:
		a, ok1 := ev.Eval(t.Args[0])
		b, ok2 := ev.Eval(t.Args[1])
		if !ok1 || !ok2 {
			return 0, false
		}
		s := t.Args[0].Sort
		var lt, eq bool
		if s.Signed {
			x, y := signExt(a, int(s.W)), signExt(b, int(s.W))
			lt, eq = x < y, x == y
		} else {
			lt, eq = a < b, a == b
		}
		if t.Op == OLt {
			return b2u(lt), true
		}
		return b2u(lt || eq), true
	case ONot:
		a, ok := ev.Eval(t.Args[0])
		return a ^ 1, ok
	case OBAnd:
		a, ok1 := ev.Eval(t.Args[0])
		if ok1 && a == 0 {
			return 0, true
		}
		b, ok2 := ev.Eval(t.Args[1])
		if ok2 && b == 0 {
			return 0, true
		}
		return a & b, ok1 && ok2
	case OBOr:
		a, ok1 := ev.Eval(t.Args[0])
		if ok1 && a == 1 {
			return 1, true
		}
		b, ok2 := ev.Eval(t.Args[1])
		if ok2 && b == 1 {
			return 1, true
		}
		return a | b, ok1 && ok2
	case OIte:
		g, ok := ev.Eval(t.Args[0])
		if !ok {
			return 0, false
		}
		if g == 1 {
			return ev.Eval(t.Args[1])
		}
		return ev.Eval(t.Args[2])
	case OConv:
		a, ok := ev.Eval(t.Args[0])
		if !ok {
			return 0, false
		}
		from := t.Args[0].Sort
		if from.Signed {
			return uint64(signExt(a, int(from.W))) & mask(int(t.Sort.W)), true
		}
		return a & mask(int(t.Sort.W)), true
	case OLin:
		var acc uint64
		acc = signedRep(t.K0).Uint64()
		if t.K0.Sign() < 0 {
			acc = uint64(signedRep(t.K0).Int64())
		}
		for i, a := range t.Args {
			v, ok := ev.Eval(a)
			if !ok {
				return 0, false
			}
			var x uint64
			if a.Sort.Signed {
				x = uint64(signExt(v, int(a.Sort.W)))
			} else {
				x = v
			}
			co := signedRep(t.Coefs[i])
			var cu uint64
			if co.Sign() < 0 {
				cu = uint64(co.Int64())
			} else {
				cu = co.Uint64()
			}
			acc += cu * x
		}
		return acc & mask(int(t.Sort.W)), true
	}
	return 0, false
}

func b2u(b bool) uint64 {
	if b {
		return 1
	}
	return 0
}
