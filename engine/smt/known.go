package smt

import "math/big"

// Known-bits analysis over the two's-complement representation of integer terms: kz has a bit set
// where the bit is provably 0, ko where it is provably 1 (both within the width of the sort).
// It folds the bit tests of bit-stream readers and writers (masks, shifts, ors of constants) that
// interval reasoning cannot decide.

func (t *Term) knownBits() (kz, ko uint64) {
	if t.kbDone {
		return t.kz, t.ko
	}
	t.kbDone = true
	if t.Sort.K != KInt {
		return 0, 0
	}
	w := int(t.Sort.W)
	m := mask(w)
	switch t.Op {
	case OConst:
		ko = t.K & m
		kz = ^t.K & m
	case OAnd:
		az, ao := t.Args[0].knownBits()
		bz, bo := t.Args[1].knownBits()
		kz, ko = az|bz, ao&bo
	case OOr:
		az, ao := t.Args[0].knownBits()
		bz, bo := t.Args[1].knownBits()
		kz, ko = az&bz, ao|bo
	case OXor:
		az, ao := t.Args[0].knownBits()
		bz, bo := t.Args[1].knownBits()
		kz, ko = (az&bz)|(ao&bo), (ao&bz)|(az&bo)
	case OShl:
		if t.Args[1].IsConst() {
			k := t.Args[1].K
			az, ao := t.Args[0].knownBits()
			if k >= uint64(w) {
				kz = m
			} else {
				kz = (az<<k | (uint64(1)<<k - 1)) & m
				ko = (ao << k) & m
			}
		}
	case OShr:
		if t.Args[1].IsConst() {
			k := t.Args[1].K
			az, ao := t.Args[0].knownBits()
			signKnownZero := az&(uint64(1)<<uint(w-1)) != 0
			if !t.Sort.Signed || signKnownZero {
				if k >= uint64(w) {
					kz = m
				} else {
					kz = (az>>k | ^(m >> k)) & m
					ko = ao >> k
				}
			}
		}
	case OConv:
		a := t.Args[0]
		az, ao := a.knownBits()
		wa := int(a.Sort.W)
		if w <= wa {
			kz, ko = az&m, ao&m
		} else {
			ma := mask(wa)
			sign := uint64(1) << uint(wa-1)
			switch {
			case !a.Sort.Signed || az&sign != 0:
				kz = (az | ^ma) & m
				ko = ao
			case ao&sign != 0:
				kz = az
				ko = (ao | ^ma) & m
			default:
				kz, ko = az&^sign, ao
			}
		}
	case OIte:
		az, ao := t.Args[1].knownBits()
		bz, bo := t.Args[2].knownBits()
		kz, ko = az&bz, ao&bo
	}
	// interval: a non-negative value below 2^n has zeros from bit n upwards
	if t.Lo != nil && t.Lo.Sign() >= 0 && t.Hi != nil {
		n := t.Hi.BitLen()
		if n < 64 {
			kz |= ^(uint64(1)<<uint(n) - 1) & m
		}
	}
	kz &^= ko // defensive: never claim both
	t.kz, t.ko = kz, ko
	return kz, ko
}

// refineInterval tightens [lo,hi] of a freshly built term with what its known bits say.
func (t *Term) refineInterval() {
	if t.Sort.K != KInt || t.Op == OConst {
		return
	}
	kz, ko := t.knownBits()
	if kz == 0 && ko == 0 {
		return
	}
	w := int(t.Sort.W)
	m := mask(w)
	if t.Sort.Signed && kz&(uint64(1)<<uint(w-1)) == 0 {
		return // sign not known to be clear
	}
	hi := new(big.Int).SetUint64(^kz & m)
	lo := new(big.Int).SetUint64(ko)
	if t.Lo == nil || t.Lo.Cmp(lo) < 0 {
		t.Lo = lo
	}
	if t.Hi == nil || t.Hi.Cmp(hi) > 0 {
		t.Hi = hi
	}
}
