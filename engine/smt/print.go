package smt

import (
	"fmt"
	"math/big"
	"strings"
)

// Enc selects how Go integers are encoded.
type Enc int

const (
	EncBV  Enc = iota // (_ BitVec w), exact
	EncInt            // mathematical integers, exact mod-2^w wrap where the interval does not exclude it
)

func (e Enc) String() string {
	if e == EncBV {
		return "bv"
	}
	return "int"
}

// Printer turns terms into SMT-LIB2 define-funs. It remembers what it has emitted, per push level.
type Printer struct {
	Enc     Enc
	emitted map[int]int // term id -> level
	level   int
	out     *strings.Builder
	ufs     map[string]int
}

func NewPrinter(enc Enc) *Printer {
	return &Printer{Enc: enc, emitted: map[int]int{}, out: &strings.Builder{}, ufs: map[string]int{}}
}

func (p *Printer) Push() { p.level++ }
func (p *Printer) Pop() {
	for id, l := range p.emitted {
		if l >= p.level {
			delete(p.emitted, id)
		}
	}
	for k, l := range p.ufs {
		if l >= p.level {
			delete(p.ufs, k)
		}
	}
	p.level--
}
func (p *Printer) IsEmitted(t *Term) bool { _, ok := p.emitted[t.ID]; return ok }
func (p *Printer) ResetAll() {
	p.emitted = map[int]int{}
	p.ufs = map[string]int{}
	p.level = 0
}

func (p *Printer) sortStr(s Sort) string {
	switch s.K {
	case KBool:
		return "Bool"
	case KInt:
		if p.Enc == EncInt {
			return "Int"
		}
		return fmt.Sprintf("(_ BitVec %d)", s.W)
	case KF64:
		return "(_ FloatingPoint 11 53)"
	case KF32:
		return "(_ FloatingPoint 8 24)"
	case KArr:
		if p.Enc == EncInt {
			return "(Array Int Int)"
		}
		return fmt.Sprintf("(Array (_ BitVec %d) (_ BitVec %d))", s.IdxW, s.ElemW)
	}
	panic("sort")
}

func bigStr(b *big.Int) string {
	if b.Sign() < 0 {
		return "(- " + new(big.Int).Neg(b).String() + ")"
	}
	return b.String()
}

func (p *Printer) constStr(t *Term) string {
	switch t.Sort.K {
	case KBool:
		if t.K == 1 {
			return "true"
		}
		return "false"
	case KInt:
		if p.Enc == EncInt {
			return bigStr(constBig(t.Sort, t.K))
		}
		return fmt.Sprintf("(_ bv%d %d)", t.K, t.Sort.W)
	case KF64:
		return fmt.Sprintf("((_ to_fp 11 53) (_ bv%d 64))", t.K)
	case KF32:
		return fmt.Sprintf("((_ to_fp 8 24) (_ bv%d 32))", t.K)
	}
	panic("const")
}

// Ref returns the SMT-LIB name of t, emitting definitions as needed into the pending buffer.
func (p *Printer) Ref(t *Term) string {
	if t.Op == OConst {
		return p.constStr(t)
	}
	name := fmt.Sprintf("t%d", t.ID)
	if t.Op == OVar {
		name = t.Name
	}
	if _, ok := p.emitted[t.ID]; ok {
		return name
	}
	// iterative post-order to avoid deep recursion
	type fr struct {
		t *Term
		i int
	}
	stack := []fr{{t, 0}}
	for len(stack) > 0 {
		f := &stack[len(stack)-1]
		if f.i < len(f.t.Args) {
			a := f.t.Args[f.i]
			f.i++
			if a.Op != OConst {
				if _, ok := p.emitted[a.ID]; !ok {
					stack = append(stack, fr{a, 0})
				}
			}
			continue
		}
		x := f.t
		stack = stack[:len(stack)-1]
		if _, ok := p.emitted[x.ID]; ok {
			continue
		}
		p.emit(x)
		p.emitted[x.ID] = p.level
	}
	return name
}

func (p *Printer) nm(t *Term) string {
	if t.Op == OConst {
		return p.constStr(t)
	}
	if t.Op == OVar {
		return t.Name
	}
	return fmt.Sprintf("t%d", t.ID)
}

// Take returns and clears the pending definitions.
func (p *Printer) Take() string {
	s := p.out.String()
	p.out.Reset()
	return s
}

func pow2(k uint) *big.Int { return new(big.Int).Lsh(bigOne, k) }

// wrapInt wraps an integer expression into the range of s unless [lo,hi] shows it fits.
func (p *Printer) wrapInt(expr string, s Sort, lo, hi *big.Int) string {
	if lo != nil && hi != nil && fits(s, lo, hi) {
		return expr
	}
	m := pow2(uint(s.W)).String()
	if !s.Signed {
		return "(mod " + expr + " " + m + ")"
	}
	h := pow2(uint(s.W) - 1).String()
	return "(- (mod (+ " + expr + " " + h + ") " + m + ") " + h + ")"
}

func (p *Printer) emit(t *Term) {
	if t.Op == OVar {
		fmt.Fprintf(p.out, "(declare-const %s %s)\n", t.Name, p.sortStr(t.Sort))
		if p.Enc == EncInt && t.Sort.K == KInt {
			fmt.Fprintf(p.out, "(assert (and (<= %s %s) (<= %s %s)))\n", bigStr(t.Lo), t.Name, t.Name, bigStr(t.Hi))
		}
		if p.Enc == EncBV && t.Sort.K == KInt {
			tl, th := typeRange(t.Sort)
			if t.Lo.Cmp(tl) > 0 || t.Hi.Cmp(th) < 0 {
				le := "bvule"
				if t.Sort.Signed {
					le = "bvsle"
				}
				w := uint(t.Sort.W)
				lo := new(big.Int).Mod(t.Lo, pow2(w))
				hi := new(big.Int).Mod(t.Hi, pow2(w))
				fmt.Fprintf(p.out, "(assert (and (%s (_ bv%s %d) %s) (%s %s (_ bv%s %d))))\n", le, lo, w, t.Name, le, t.Name, hi, w)
			}
		}
		return
	}
	if t.Op == OUF {
		key := t.Name
		if _, ok := p.ufs[key]; !ok {
			p.ufs[key] = p.level
			var as []string
			for _, a := range t.Args {
				as = append(as, p.sortStr(a.Sort))
			}
			// declared at level 0 semantics: we re-declare after pops by tracking in emitted map under negative ids
			fmt.Fprintf(p.out, "(declare-fun %s (%s) %s)\n", t.Name, strings.Join(as, " "), p.sortStr(t.Sort))
		}
	}
	var body string
	if p.Enc == EncBV {
		body = p.bodyBV(t)
	} else {
		body = p.bodyInt(t)
	}
	fmt.Fprintf(p.out, "(define-fun t%d () %s %s)\n", t.ID, p.sortStr(t.Sort), body)
	if p.Enc == EncInt && t.Op == OUF && t.Sort.K == KInt {
		fmt.Fprintf(p.out, "(assert (and (<= %s t%d) (<= t%d %s)))\n", bigStr(t.Lo), t.ID, t.ID, bigStr(t.Hi))
	}
}

func (p *Printer) common(t *Term) (string, bool) {
	a := t.Args
	switch t.Op {
	case ONot:
		return "(not " + p.nm(a[0]) + ")", true
	case OBAnd:
		return "(and " + p.nm(a[0]) + " " + p.nm(a[1]) + ")", true
	case OBOr:
		return "(or " + p.nm(a[0]) + " " + p.nm(a[1]) + ")", true
	case OIte:
		return "(ite " + p.nm(a[0]) + " " + p.nm(a[1]) + " " + p.nm(a[2]) + ")", true
	case OSelect:
		return "(select " + p.nm(a[0]) + " " + p.nm(a[1]) + ")", true
	case OStore:
		return "(store " + p.nm(a[0]) + " " + p.nm(a[1]) + " " + p.nm(a[2]) + ")", true
	case OConstArr:
		return "((as const " + p.sortStr(t.Sort) + ") " + p.nm(a[0]) + ")", true
	case OUF:
		if len(a) == 0 {
			return t.Name, true
		}
		var as []string
		for _, x := range a {
			as = append(as, p.nm(x))
		}
		return "(" + t.Name + " " + strings.Join(as, " ") + ")", true
	case OFAdd:
		return "(fp.add RNE " + p.nm(a[0]) + " " + p.nm(a[1]) + ")", true
	case OFSub:
		return "(fp.sub RNE " + p.nm(a[0]) + " " + p.nm(a[1]) + ")", true
	case OFMul:
		return "(fp.mul RNE " + p.nm(a[0]) + " " + p.nm(a[1]) + ")", true
	case OFDiv:
		return "(fp.div RNE " + p.nm(a[0]) + " " + p.nm(a[1]) + ")", true
	case OFNeg:
		return "(fp.neg " + p.nm(a[0]) + ")", true
	case OFEq:
		return "(fp.eq " + p.nm(a[0]) + " " + p.nm(a[1]) + ")", true
	case OFLt:
		return "(fp.lt " + p.nm(a[0]) + " " + p.nm(a[1]) + ")", true
	case OFLe:
		return "(fp.leq " + p.nm(a[0]) + " " + p.nm(a[1]) + ")", true
	case OFIsNaN:
		return "(fp.isNaN " + p.nm(a[0]) + ")", true
	case OFIsInf:
		return "(fp.isInfinite " + p.nm(a[0]) + ")", true
	case OF2F:
		if t.Sort.K == KF32 {
			return "((_ to_fp 8 24) RNE " + p.nm(a[0]) + ")", true
		}
		return "((_ to_fp 11 53) RNE " + p.nm(a[0]) + ")", true
	}
	return "", false
}

func (p *Printer) fpSortArgs(s Sort) string {
	if s.K == KF32 {
		return "8 24"
	}
	return "11 53"
}

func (p *Printer) bodyBV(t *Term) string {
	if s, ok := p.common(t); ok {
		return s
	}
	a := t.Args
	bin := func(op string) string { return "(" + op + " " + p.nm(a[0]) + " " + p.nm(a[1]) + ")" }
	sg := len(a) > 0 && a[0].Sort.Signed
	switch t.Op {
	case OAdd:
		return bin("bvadd")
	case OSub:
		return bin("bvsub")
	case OMul:
		return bin("bvmul")
	case OQuo:
		if sg {
			return bin("bvsdiv")
		}
		return bin("bvudiv")
	case ORem:
		if sg {
			return bin("bvsrem")
		}
		return bin("bvurem")
	case OAnd:
		return bin("bvand")
	case OOr:
		return bin("bvor")
	case OXor:
		return bin("bvxor")
	case OShl:
		return bin("bvshl")
	case OShr:
		if sg {
			return bin("bvashr")
		}
		return bin("bvlshr")
	case OEq:
		return bin("=")
	case OLt:
		if sg {
			return bin("bvslt")
		}
		return bin("bvult")
	case OLe:
		if sg {
			return bin("bvsle")
		}
		return bin("bvule")
	case OConv:
		from, to := a[0].Sort, t.Sort
		if to.W == from.W {
			return p.nm(a[0])
		}
		if to.W < from.W {
			return fmt.Sprintf("((_ extract %d 0) %s)", to.W-1, p.nm(a[0]))
		}
		if from.Signed {
			return fmt.Sprintf("((_ sign_extend %d) %s)", to.W-from.W, p.nm(a[0]))
		}
		return fmt.Sprintf("((_ zero_extend %d) %s)", to.W-from.W, p.nm(a[0]))
	case OLin:
		w := int(t.Sort.W)
		acc := fmt.Sprintf("(_ bv%d %d)", new(big.Int).Mod(t.K0, pow2(uint(w))), w)
		for i, x := range a {
			xs := p.nm(x)
			if int(x.Sort.W) < w {
				if x.Sort.Signed {
					xs = fmt.Sprintf("((_ sign_extend %d) %s)", w-int(x.Sort.W), xs)
				} else {
					xs = fmt.Sprintf("((_ zero_extend %d) %s)", w-int(x.Sort.W), xs)
				}
			}
			co := new(big.Int).Mod(t.Coefs[i], pow2(uint(w)))
			acc = fmt.Sprintf("(bvadd %s (bvmul (_ bv%d %d) %s))", acc, co, w, xs)
		}
		return acc
	case OFBits:
		return "(fp.to_ieee_bv " + p.nm(a[0]) + ")"
	case OFFromBits:
		return fmt.Sprintf("((_ to_fp %s) %s)", p.fpSortArgs(t.Sort), p.nm(a[0]))
	case OI2F:
		if a[0].Sort.Signed {
			return fmt.Sprintf("((_ to_fp %s) RNE %s)", p.fpSortArgs(t.Sort), p.nm(a[0]))
		}
		return fmt.Sprintf("((_ to_fp_unsigned %s) RNE %s)", p.fpSortArgs(t.Sort), p.nm(a[0]))
	case OF2I:
		if t.Sort.Signed {
			return fmt.Sprintf("((_ fp.to_sbv %d) RTZ %s)", t.Sort.W, p.nm(a[0]))
		}
		return fmt.Sprintf("((_ fp.to_ubv %d) RTZ %s)", t.Sort.W, p.nm(a[0]))
	}
	panic("bodyBV: " + t.Op.String())
}

func (p *Printer) bodyInt(t *Term) string {
	if s, ok := p.common(t); ok {
		return s
	}
	a := t.Args
	bin := func(op string) string { return "(" + op + " " + p.nm(a[0]) + " " + p.nm(a[1]) + ")" }
	s := t.Sort
	switch t.Op {
	case OAdd:
		lo := new(big.Int).Add(a[0].Lo, a[1].Lo)
		hi := new(big.Int).Add(a[0].Hi, a[1].Hi)
		return p.wrapInt(bin("+"), s, lo, hi)
	case OSub:
		lo := new(big.Int).Sub(a[0].Lo, a[1].Hi)
		hi := new(big.Int).Sub(a[0].Hi, a[1].Lo)
		return p.wrapInt(bin("-"), s, lo, hi)
	case OMul:
		ps := []*big.Int{new(big.Int).Mul(a[0].Lo, a[1].Lo), new(big.Int).Mul(a[0].Lo, a[1].Hi), new(big.Int).Mul(a[0].Hi, a[1].Lo), new(big.Int).Mul(a[0].Hi, a[1].Hi)}
		lo, hi := ps[0], ps[0]
		for _, x := range ps[1:] {
			if x.Cmp(lo) < 0 {
				lo = x
			}
			if x.Cmp(hi) > 0 {
				hi = x
			}
		}
		return p.wrapInt(bin("*"), s, lo, hi)
	case OQuo, ORem:
		x, y := p.nm(a[0]), p.nm(a[1])
		var q string
		xpos := a[0].Lo.Sign() >= 0
		ypos := a[1].Lo.Sign() > 0
		yneg := a[1].Hi.Sign() < 0
		switch {
		case xpos && ypos:
			if t.Op == ORem {
				return "(mod " + x + " " + y + ")"
			}
			return "(div " + x + " " + y + ")"
		case ypos:
			q = "(ite (>= " + x + " 0) (div " + x + " " + y + ") (- (div (- " + x + ") " + y + ")))"
		case xpos && yneg:
			q = "(- (div " + x + " (- " + y + ")))"
		default:
			q = "(ite (>= " + x + " 0) (ite (> " + y + " 0) (div " + x + " " + y + ") (- (div " + x + " (- " + y + ")))) (ite (> " + y + " 0) (- (div (- " + x + ") " + y + ")) (div (- " + x + ") (- " + y + "))))"
		}
		if t.Op == OQuo {
			// MinInt / -1 wraps
			if s.Signed && a[1].Lo.Sign() < 0 {
				return p.wrapInt(q, s, nil, nil)
			}
			return q
		}
		return "(- " + x + " (* " + y + " " + q + "))"
	case OShl:
		k := a[1]
		if k.IsConst() {
			lo := new(big.Int).Lsh(a[0].Lo, uint(k.K))
			hi := new(big.Int).Lsh(a[0].Hi, uint(k.K))
			return p.wrapInt("(* "+p.nm(a[0])+" "+pow2(uint(k.K)).String()+")", s, lo, hi)
		}
		return p.viaBV(t)
	case OShr:
		k := a[1]
		if k.IsConst() {
			return "(div " + p.nm(a[0]) + " " + pow2(uint(k.K)).String() + ")"
		}
		return p.viaBV(t)
	case OAnd:
		if a[1].IsConst() && isLowMask(a[1].K) && (!a[1].Sort.Signed || a[1].Int64() >= 0) {
			return "(mod " + p.nm(a[0]) + " " + new(big.Int).SetUint64(a[1].K+1).String() + ")"
		}
		return p.viaBV(t)
	case OOr, OXor:
		return p.viaBV(t)
	case OLin:
		acc := bigStr(t.K0)
		for i, x := range a {
			acc = "(+ " + acc + " (* " + bigStr(t.Coefs[i]) + " " + p.nm(x) + "))"
		}
		return acc
	case OEq:
		return bin("=")
	case OLt:
		return bin("<")
	case OLe:
		return bin("<=")
	case OConv:
		return p.wrapInt(p.nm(a[0]), s, a[0].Lo, a[0].Hi)
	case OFFromBits:
		return fmt.Sprintf("((_ to_fp %s) ((_ int2bv %d) %s))", p.fpSortArgs(t.Sort), a[0].Sort.W, p.nm(a[0]))
	case OI2F:
		return fmt.Sprintf("((_ to_fp %s) RNE (to_real %s))", p.fpSortArgs(t.Sort), p.nm(a[0]))
	case OF2I:
		panic("float to int in int encoding")
	}
	panic("bodyInt: " + t.Op.String())
}

// viaBV encodes a bit operation in the integer encoding through int2bv / bv2nat.
func (p *Printer) viaBV(t *Term) string {
	a := t.Args
	w := int(t.Sort.W)
	tb := func(x *Term) string { return fmt.Sprintf("((_ int2bv %d) %s)", w, p.nm(x)) }
	var op string
	switch t.Op {
	case OAnd:
		op = "bvand"
	case OOr:
		op = "bvor"
	case OXor:
		op = "bvxor"
	case OShl:
		op = "bvshl"
	case OShr:
		if t.Sort.Signed {
			op = "bvashr"
		} else {
			op = "bvlshr"
		}
	}
	r := "(bv2nat (" + op + " " + tb(a[0]) + " " + tb(a[1]) + "))"
	if t.Sort.Signed {
		h := pow2(uint(w) - 1).String()
		m := pow2(uint(w)).String()
		return "(ite (>= " + r + " " + h + ") (- " + r + " " + m + ") " + r + ")"
	}
	return r
}
