package smt

import "math/big"

// Byte-lane recomposition: a word that is put together from the bytes of another word
// (binary.LittleEndian.Uint64 over bytes written by PutUint64, unsafe views, page models ...) is
// that word.

type laneSrc struct {
	x    *Term // source word (nil = zero lane)
	lane int   // which byte of x
}

func byteIsZero(x *Term, lane int) bool {
	// byte `lane` of a non-negative value below 2^(8*lane) is zero
	if x.Lo.Sign() < 0 {
		return false
	}
	return x.Hi.Cmp(new(big.Int).Lsh(bigOne, uint(8*lane))) < 0
}

func normLane(ls laneSrc) laneSrc {
	if ls.x != nil && (ls.lane >= int(ls.x.Sort.W)/8 || byteIsZero(ls.x, ls.lane)) {
		return laneSrc{}
	}
	return ls
}

// lanes returns for a w-bit unsigned-interpreted term the source of each of its bytes.
func (c *Ctx) lanes(t *Term, depth int) ([]laneSrc, bool) {
	n := int(t.Sort.W) / 8
	if t.Sort.K != KInt || n == 0 || depth > 24 {
		return nil, false
	}
	atom := func() ([]laneSrc, bool) {
		if t.Sort.Signed && t.Lo.Sign() < 0 {
			return nil, false
		}
		l := make([]laneSrc, n)
		for i := range l {
			l[i] = normLane(laneSrc{t, i})
		}
		return l, true
	}
	switch t.Op {
	case OConst:
		if t.K == 0 {
			return make([]laneSrc, n), true
		}
		return nil, false
	case OConv:
		in := t.Args[0]
		if in.Sort.K != KInt {
			return nil, false
		}
		if in.Sort.Signed && in.Lo.Sign() < 0 {
			return atom()
		}
		li, ok := c.lanes(in, depth+1)
		if !ok {
			return atom()
		}
		l := make([]laneSrc, n)
		for i := 0; i < n && i < len(li); i++ {
			l[i] = li[i]
		}
		return l, true
	case OShr:
		if !t.Args[1].IsConst() || t.Args[1].K%8 != 0 || (t.Sort.Signed && t.Args[0].Lo.Sign() < 0) {
			return atom()
		}
		k := int(t.Args[1].K / 8)
		li, ok := c.lanes(t.Args[0], depth+1)
		if !ok {
			return atom()
		}
		l := make([]laneSrc, n)
		for i := 0; i+k < n; i++ {
			l[i] = li[i+k]
		}
		return l, true
	case OShl:
		if !t.Args[1].IsConst() || t.Args[1].K%8 != 0 {
			return atom()
		}
		k := int(t.Args[1].K / 8)
		li, ok := c.lanes(t.Args[0], depth+1)
		if !ok {
			return atom()
		}
		l := make([]laneSrc, n)
		for i := 0; i+k < n; i++ {
			l[i+k] = li[i]
		}
		return l, true
	case OOr, OXor:
		la, ok := c.lanes(t.Args[0], depth+1)
		if !ok {
			return atom()
		}
		lb, ok := c.lanes(t.Args[1], depth+1)
		if !ok {
			return atom()
		}
		l := make([]laneSrc, n)
		for i := 0; i < n; i++ {
			switch {
			case la[i].x != nil && lb[i].x != nil:
				return atom()
			case la[i].x != nil:
				l[i] = la[i]
			default:
				l[i] = lb[i]
			}
		}
		return l, true
	}
	return atom()
}

// recompose returns x when t is exactly the little-endian concatenation of the bytes of x.
func (c *Ctx) recompose(t *Term) *Term {
	l, ok := c.lanes(t, 0)
	if !ok {
		return nil
	}
	var src *Term
	for i, b := range l {
		if b.x == nil {
			continue
		}
		if b.lane != i {
			return nil
		}
		if src == nil {
			src = b.x
		} else if src != b.x {
			return nil
		}
	}
	if src == nil || src == t {
		return nil
	}
	// zero lanes must be zero bytes of src as well
	for i, b := range l {
		if b.x == nil && normLane(laneSrc{src, i}).x != nil {
			return nil
		}
	}
	if src.Sort.Signed && src.Lo.Sign() < 0 {
		return nil
	}
	if src.Sort != t.Sort {
		if src.Sort.W > t.Sort.W && !fits(t.Sort, src.Lo, src.Hi) {
			return nil
		}
		return c.Conv(src, t.Sort)
	}
	return src
}
