package smt

// Byte-lane recomposition: a word that is put together from the bytes of another word
// (binary.LittleEndian.Uint64 over bytes written by PutUint64, unsafe views, ...) is that word.

type laneSrc struct {
	x    *Term // source word
	lane int   // which byte of x
}

// laneOfByte recognises  byte(x >> 8k)  (as built by Conv(U8, Shift(OShr, x, 8k)) or Conv(U8, x)).
func laneOfByte(b *Term) (laneSrc, bool) {
	if b.Op != OConv || b.Sort.W != 8 {
		return laneSrc{}, false
	}
	in := b.Args[0]
	if in.Sort.K != KInt {
		return laneSrc{}, false
	}
	if in.Op == OShr && in.Args[1].IsConst() && in.Args[1].K%8 == 0 && !in.Sort.Signed {
		return laneSrc{in.Args[0], int(in.Args[1].K / 8)}, true
	}
	return laneSrc{in, 0}, true
}

// lanes returns, for a w-bit term built by or-ing shifted zero-extended bytes, the byte term of every lane
// (nil = zero lane).
func (c *Ctx) lanes(t *Term, depth int) ([]*Term, bool) {
	n := int(t.Sort.W) / 8
	if t.Sort.K != KInt || n == 0 || depth > 20 {
		return nil, false
	}
	switch t.Op {
	case OConst:
		if t.K == 0 {
			return make([]*Term, n), true
		}
		return nil, false
	case OConv:
		in := t.Args[0]
		if in.Sort.K == KInt && in.Sort.W == 8 && !in.Sort.Signed {
			l := make([]*Term, n)
			l[0] = in
			return l, true
		}
		if in.Sort.K == KInt && !in.Sort.Signed && in.Sort.W < t.Sort.W {
			// zero extension of a narrower composed word
			li, ok := c.lanes(in, depth+1)
			if !ok {
				return nil, false
			}
			l := make([]*Term, n)
			copy(l, li)
			return l, true
		}
		return nil, false
	case OShl:
		if !t.Args[1].IsConst() || t.Args[1].K%8 != 0 {
			return nil, false
		}
		k := int(t.Args[1].K / 8)
		li, ok := c.lanes(t.Args[0], depth+1)
		if !ok {
			return nil, false
		}
		l := make([]*Term, n)
		for i := 0; i+k < n; i++ {
			l[i+k] = li[i]
		}
		return l, true
	case OOr, OAdd, OXor:
		la, ok := c.lanes(t.Args[0], depth+1)
		if !ok {
			return nil, false
		}
		lb, ok := c.lanes(t.Args[1], depth+1)
		if !ok {
			return nil, false
		}
		l := make([]*Term, n)
		for i := 0; i < n; i++ {
			switch {
			case la[i] != nil && lb[i] != nil:
				return nil, false
			case la[i] != nil:
				l[i] = la[i]
			default:
				l[i] = lb[i]
			}
		}
		return l, true
	}
	return nil, false
}

// recompose returns x when t is exactly the little-endian concatenation of all bytes of x.
func (c *Ctx) recompose(t *Term) *Term {
	l, ok := c.lanes(t, 0)
	if !ok {
		return nil
	}
	var src *Term
	for i, b := range l {
		if b == nil {
			return nil
		}
		ls, ok := laneOfByte(b)
		if !ok || ls.lane != i {
			return nil
		}
		if src == nil {
			src = ls.x
		} else if src != ls.x {
			return nil
		}
	}
	if src == nil || src.Sort.W != t.Sort.W {
		return nil
	}
	if src.Sort != t.Sort {
		return c.Conv(src, t.Sort)
	}
	return src
}
