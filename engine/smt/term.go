// Package smt is the term layer of gosmt: hash-consed, simplified, interval-annotated
// terms with Go-level integer semantics, printable either in a bit-vector encoding or
// in an integer encoding that keeps the mod-2^w semantics (wrap is elided where the
// interval of a term proves that it cannot wrap).
package smt

import (
	"os"
	"fmt"
	"math"
	"math/big"
	"strings"
)

type Kind uint8

const (
	KBool Kind = iota
	KInt       // fixed-width Go integer (W bits, Signed)
	KF64
	KF32
	KArr // SMT array Idx -> Elem (both KInt sorts)
)

type Sort struct {
	K      Kind
	W      uint8
	Signed bool
	// for arrays
	IdxW  uint8
	ElemW uint8
}

var (
	Bool = Sort{K: KBool}
	F64  = Sort{K: KF64}
	F32  = Sort{K: KF32}
	I64  = Sort{K: KInt, W: 64, Signed: true}
	U64  = Sort{K: KInt, W: 64}
	I32  = Sort{K: KInt, W: 32, Signed: true}
	U32  = Sort{K: KInt, W: 32}
	I16  = Sort{K: KInt, W: 16, Signed: true}
	U16  = Sort{K: KInt, W: 16}
	I8   = Sort{K: KInt, W: 8, Signed: true}
	U8   = Sort{K: KInt, W: 8}
)

func IntSort(w int, signed bool) Sort { return Sort{K: KInt, W: uint8(w), Signed: signed} }
func ArrSort(idxW, elemW int) Sort {
	return Sort{K: KArr, IdxW: uint8(idxW), ElemW: uint8(elemW)}
}

func (s Sort) String() string {
	switch s.K {
	case KBool:
		return "bool"
	case KInt:
		if s.Signed {
			return fmt.Sprintf("i%d", s.W)
		}
		return fmt.Sprintf("u%d", s.W)
	case KF64:
		return "f64"
	case KF32:
		return "f32"
	case KArr:
		return fmt.Sprintf("arr%d_%d", s.IdxW, s.ElemW)
	}
	return "?"
}

type Op uint8

const (
	OConst Op = iota
	OVar
	OAdd
	OSub
	OMul
	OQuo
	ORem
	OAnd
	OOr
	OXor
	OShl
	OShr
	ONeg
	OBNot // bitwise not
	OEq
	OLt
	OLe
	ONot // boolean
	OBAnd
	OBOr
	OIte
	OConv // int -> int
	OSelect
	OStore
	OConstArr
	// floats
	OFAdd
	OFSub
	OFMul
	OFDiv
	OFNeg
	OFEq // Go ==
	OFLt
	OFLe
	OFIsNaN
	OFIsInf
	OI2F  // int -> float (sort of result float)
	OF2I  // float -> int (truncate)
	OFBits // f64 -> u64 bits
	OFFromBits
	OF2F   // float32<->float64
	OUF    // uninterpreted function application; Name = function name
	OLin   // Σ Coefs[i]·Args[i] + K0 over the mathematical values of the arguments; known to fit the sort
)

var opNames = [...]string{"const", "var", "add", "sub", "mul", "quo", "rem", "and", "or", "xor", "shl", "shr", "neg", "bnot", "eq", "lt", "le", "not", "band", "bor", "ite", "conv", "select", "store", "constarr",
	"fadd", "fsub", "fmul", "fdiv", "fneg", "feq", "flt", "fle", "fisnan", "fisinf", "i2f", "f2i", "fbits", "ffrombits", "f2f", "uf", "lin"}

func (o Op) String() string { return opNames[o] }

type Term struct {
	Op   Op
	Sort Sort
	Args []*Term
	K    uint64 // constant bits (masked to width; bool 0/1; float bits)
	Name string // OVar, OUF
	ID   int
	Lo   *big.Int // interval of the mathematical value (KInt only)
	Hi   *big.Int
	size int
	Coefs []*big.Int // OLin
	K0    *big.Int   // OLin
	kz, ko uint64 // known-zero / known-one bits (known.go)
	kbDone bool
	bits   []bitD // bit provenance (bitprov.go), nil = opaque
	canon  *Term  // smaller equal term found by canonBits
}

func (t *Term) IsConst() bool { return t.Op == OConst }
func (t *Term) IsTrue() bool  { return t.Op == OConst && t.Sort.K == KBool && t.K == 1 }
func (t *Term) IsFalse() bool { return t.Op == OConst && t.Sort.K == KBool && t.K == 0 }

// Int64 returns the value of an integer constant interpreted by its sort.
func (t *Term) Int64() int64 {
	if t.Sort.Signed {
		return signExt(t.K, int(t.Sort.W))
	}
	return int64(t.K)
}
func (t *Term) Uint64() uint64 { return t.K }
func (t *Term) Float() float64 {
	if t.Sort.K == KF32 {
		return float64(math.Float32frombits(uint32(t.K)))
	}
	return math.Float64frombits(t.K)
}

var StrDepth = 6

func (t *Term) String() string {
	var sb strings.Builder
	t.str(&sb, 0)
	return sb.String()
}
func (t *Term) str(sb *strings.Builder, depth int) {
	switch t.Op {
	case OConst:
		switch t.Sort.K {
		case KBool:
			if t.K == 1 {
				sb.WriteString("true")
			} else {
				sb.WriteString("false")
			}
		case KInt:
			if t.Sort.Signed {
				fmt.Fprintf(sb, "%d", t.Int64())
			} else {
				fmt.Fprintf(sb, "%d", t.K)
			}
		default:
			fmt.Fprintf(sb, "%v", t.Float())
		}
	case OVar:
		sb.WriteString(t.Name)
	default:
		if depth > StrDepth {
			fmt.Fprintf(sb, "#%d", t.ID)
			return
		}
		sb.WriteString("(")
		sb.WriteString(t.Op.String())
		if t.Op == OUF {
			sb.WriteString(":" + t.Name)
		}
		if t.Op == OConv {
			sb.WriteString(":" + t.Sort.String())
		}
		if t.Op == OLin {
			fmt.Fprintf(sb, ":%v+%v", t.Coefs, t.K0)
		}
		if t.Sort.K == KInt && os.Getenv("GOSMT_IV") != "" {
			fmt.Fprintf(sb, "[%v..%v]", t.Lo, t.Hi)
		}
		for _, a := range t.Args {
			sb.WriteString(" ")
			a.str(sb, depth+1)
		}
		sb.WriteString(")")
	}
}

func mask(w int) uint64 {
	if w >= 64 {
		return ^uint64(0)
	}
	return (uint64(1) << uint(w)) - 1
}
func signExt(v uint64, w int) int64 {
	if w >= 64 {
		return int64(v)
	}
	sh := uint(64 - w)
	return int64(v<<sh) >> sh
}

// Ctx owns the hash-consing table of one execution.
type Ctx struct {
	tab    map[string]*Term
	nextID int
	Vars   []*Term
	Terms  int
	inCanon int
}

func NewCtx() *Ctx { return &Ctx{tab: map[string]*Term{}} }

func (c *Ctx) intern(t *Term) *Term {
	var sb strings.Builder
	fmt.Fprintf(&sb, "%d|%d.%d.%v.%d.%d|%d|%s", t.Op, t.Sort.K, t.Sort.W, t.Sort.Signed, t.Sort.IdxW, t.Sort.ElemW, t.K, t.Name)
	for _, a := range t.Args {
		fmt.Fprintf(&sb, "|%d", a.ID)
	}
	if t.Op == OLin {
		for _, co := range t.Coefs {
			sb.WriteString("*" + co.String())
		}
		sb.WriteString("+" + t.K0.String())
	}
	key := sb.String()
	if x, ok := c.tab[key]; ok {
		return x
	}
	c.nextID++
	t.ID = c.nextID
	c.Terms++
	t.size = 1
	for _, a := range t.Args {
		t.size += a.size
		if t.size > 1<<30 {
			t.size = 1 << 30
		}
	}
	c.tab[key] = t
	return t
}

var bigOne = big.NewInt(1)

func typeRange(s Sort) (*big.Int, *big.Int) {
	w := uint(s.W)
	if s.Signed {
		lo := new(big.Int).Lsh(bigOne, w-1)
		hi := new(big.Int).Sub(lo, bigOne)
		return lo.Neg(lo), hi
	}
	hi := new(big.Int).Lsh(bigOne, w)
	return new(big.Int), hi.Sub(hi, bigOne)
}

func constBig(s Sort, k uint64) *big.Int {
	if s.Signed {
		return big.NewInt(signExt(k, int(s.W)))
	}
	return new(big.Int).SetUint64(k)
}

func (c *Ctx) Const(s Sort, k uint64) *Term {
	if s.K == KInt {
		k &= mask(int(s.W))
	}
	t := &Term{Op: OConst, Sort: s, K: k}
	if s.K == KInt {
		b := constBig(s, k)
		t.Lo, t.Hi = b, b
	}
	return c.intern(t)
}
func (c *Ctx) Int(s Sort, v int64) *Term { return c.Const(s, uint64(v)) }
func (c *Ctx) BoolC(b bool) *Term {
	if b {
		return c.Const(Bool, 1)
	}
	return c.Const(Bool, 0)
}
func (c *Ctx) FloatC(f float64) *Term { return c.Const(F64, math.Float64bits(f)) }
func (c *Ctx) Float32C(f float32) *Term {
	return c.Const(F32, uint64(math.Float32bits(f)))
}

// Var creates a fresh variable; lo/hi (optional) give its interval.
func (c *Ctx) Var(name string, s Sort, lo, hi *big.Int) *Term {
	t := &Term{Op: OVar, Sort: s, Name: name}
	if s.K == KInt {
		tl, th := typeRange(s)
		if lo == nil || lo.Cmp(tl) < 0 {
			lo = tl
		}
		if hi == nil || hi.Cmp(th) > 0 {
			hi = th
		}
		t.Lo, t.Hi = lo, hi
	}
	n := len(c.tab)
	t = c.intern(t)
	if len(c.tab) != n {
		c.Vars = append(c.Vars, t)
	}
	return t
}

func (c *Ctx) mk(op Op, s Sort, args ...*Term) *Term {
	t := &Term{Op: op, Sort: s, Args: args}
	if s.K == KInt {
		t.Lo, t.Hi = typeRange(s)
	}
	return c.intern(t)
}

func (c *Ctx) mkI(op Op, s Sort, lo, hi *big.Int, args ...*Term) *Term {
	t := &Term{Op: op, Sort: s, Args: args}
	tl, th := typeRange(s)
	if lo == nil || hi == nil || lo.Cmp(tl) < 0 || hi.Cmp(th) > 0 {
		lo, hi = tl, th
	}
	t.Lo, t.Hi = lo, hi
	x := c.intern(t)
	if x != t {
		if x.canon != nil && c.inCanon == 0 {
			return x.canon
		}
		return x
	}
	t.computeBits()
	t.refineInterval()
	if c.inCanon == 0 {
		if y := c.canonBits(t); y != nil && y != t {
			t.canon = y
			return y
		}
	}
	return t
}

func fits(s Sort, lo, hi *big.Int) bool {
	tl, th := typeRange(s)
	return lo.Cmp(tl) >= 0 && hi.Cmp(th) <= 0
}

// ---------------------------------------------------------------- booleans

func (c *Ctx) Not(a *Term) *Term {
	if a.IsConst() {
		return c.BoolC(a.K == 0)
	}
	if a.Op == ONot {
		return a.Args[0]
	}
	return c.mk(ONot, Bool, a)
}
func (c *Ctx) And(a, b *Term) *Term {
	if a.IsConst() {
		if a.K == 0 {
			return a
		}
		return b
	}
	if b.IsConst() {
		if b.K == 0 {
			return b
		}
		return a
	}
	if a == b {
		return a
	}
	if (a.Op == ONot && a.Args[0] == b) || (b.Op == ONot && b.Args[0] == a) {
		return c.BoolC(false)
	}
	return c.mk(OBAnd, Bool, a, b)
}
func (c *Ctx) Or(a, b *Term) *Term {
	if a.IsConst() {
		if a.K == 1 {
			return a
		}
		return b
	}
	if b.IsConst() {
		if b.K == 1 {
			return b
		}
		return a
	}
	if a == b {
		return a
	}
	if (a.Op == ONot && a.Args[0] == b) || (b.Op == ONot && b.Args[0] == a) {
		return c.BoolC(true)
	}
	return c.mk(OBOr, Bool, a, b)
}
func (c *Ctx) Implies(a, b *Term) *Term { return c.Or(c.Not(a), b) }

func (c *Ctx) Ite(g, a, b *Term) *Term {
	if g.IsConst() {
		if g.K == 1 {
			return a
		}
		return b
	}
	if a == b {
		return a
	}
	if a.Sort != b.Sort {
		panic(fmt.Sprintf("ite sort mismatch %v %v", a.Sort, b.Sort))
	}
	if a.Sort.K == KBool {
		if a.IsConst() && b.IsConst() {
			if a.K == 1 {
				return g
			}
			return c.Not(g)
		}
		if a.IsConst() {
			if a.K == 1 {
				return c.Or(g, b)
			}
			return c.And(c.Not(g), b)
		}
		if b.IsConst() {
			if b.K == 1 {
				return c.Or(c.Not(g), a)
			}
			return c.And(g, a)
		}
	}
	if g.Op == ONot {
		return c.Ite(g.Args[0], b, a)
	}
	if a.Sort.K == KInt {
		lo, hi := a.Lo, a.Hi
		if b.Lo.Cmp(lo) < 0 {
			lo = b.Lo
		}
		if b.Hi.Cmp(hi) > 0 {
			hi = b.Hi
		}
		return c.mkI(OIte, a.Sort, lo, hi, g, a, b)
	}
	return c.mk(OIte, a.Sort, g, a, b)
}

// ---------------------------------------------------------------- integers

func foldBin(op Op, s Sort, x, y uint64) (uint64, bool) {
	w := int(s.W)
	m := mask(w)
	switch op {
	case OAdd:
		return (x + y) & m, true
	case OSub:
		return (x - y) & m, true
	case OMul:
		return (x * y) & m, true
	case OAnd:
		return x & y, true
	case OOr:
		return x | y, true
	case OXor:
		return x ^ y, true
	case OQuo:
		if y == 0 {
			return 0, false
		}
		if s.Signed {
			a, b := signExt(x, w), signExt(y, w)
			if b == -1 {
				return uint64(-a) & m, true
			}
			return uint64(a/b) & m, true
		}
		return x / y, true
	case ORem:
		if y == 0 {
			return 0, false
		}
		if s.Signed {
			a, b := signExt(x, w), signExt(y, w)
			if b == -1 {
				return 0, true
			}
			return uint64(a%b) & m, true
		}
		return x % y, true
	}
	return 0, false
}

// Bin builds a binary arithmetic/bitwise operation on two terms of the same integer sort.
func (c *Ctx) Bin(op Op, a, b *Term) *Term {
	s := a.Sort
	if s.K != KInt || b.Sort != s {
		panic(fmt.Sprintf("Bin %v on sorts %v %v", op, a.Sort, b.Sort))
	}
	if a.IsConst() && b.IsConst() {
		if v, ok := foldBin(op, s, a.K, b.K); ok {
			return c.Const(s, v)
		}
	}
	// normalise constants to the right for commutative ops
	switch op {
	case OAdd, OMul, OAnd, OOr, OXor:
		if a.IsConst() && !b.IsConst() {
			a, b = b, a
		}
	}
	m := mask(int(s.W))
	if b.IsConst() {
		switch op {
		case OAdd, OSub, OOr, OXor:
			if b.K == 0 {
				return a
			}
			if op == OOr {
				if _, ko := a.knownBits(); b.K&^ko == 0 {
					return a
				}
			}
		case OMul:
			if b.K == 0 {
				return b
			}
			if b.K == 1 {
				return a
			}
		case OAnd:
			if b.K == 0 {
				return b
			}
			if b.K == m {
				return a
			}
			// mask that covers the whole interval
			if a.Lo.Sign() >= 0 && isLowMask(b.K) && a.Hi.Cmp(new(big.Int).SetUint64(b.K)) <= 0 {
				return a
			}
			{
				kz, ko := a.knownBits()
				if b.K&^(kz|ko) == 0 {
					// every selected bit is known
					return c.Const(s, ko&b.K)
				}
				if (^kz&m)&^b.K == 0 {
					// the mask keeps every bit that can be set
					return a
				}
			}
		case OQuo:
			if b.K == 1 {
				return a
			}
		case ORem:
			if b.K == 1 {
				return c.Const(s, 0)
			}
		}
		// (x + c1) + c2
		if op == OAdd && a.Op == OAdd && a.Args[1].IsConst() {
			return c.Bin(OAdd, a.Args[0], c.Const(s, a.Args[1].K+b.K))
		}
	}
	if a.IsConst() && a.K == 0 {
		switch op {
		case OMul, OAnd, OQuo, ORem:
			if op == OQuo || op == ORem {
				// 0 / b: b != 0 is the caller's obligation
				return a
			}
			return a
		}
	}
	if a == b {
		switch op {
		case OSub, OXor:
			return c.Const(s, 0)
		case OAnd, OOr:
			return a
		}
	}
	// xor with constants: (x^c1)^c2 == x^(c1^c2), (x^c1)^(x^c2) == c1^c2
	if op == OXor {
		split := func(t *Term) (*Term, uint64) {
			if t.Op == OXor && len(t.Args) == 2 && t.Args[1].IsConst() {
				return t.Args[0], t.Args[1].K
			}
			return t, 0
		}
		if b.IsConst() {
			if xa, ca := split(a); ca != 0 {
				return c.Bin(OXor, xa, c.Const(s, (ca^b.K)&m))
			}
		} else {
			xa, ca := split(a)
			xb, cb := split(b)
			if xa == xb && (ca != 0 || cb != 0) {
				return c.Const(s, (ca^cb)&m)
			}
			// x ^ (y ^ x) == y
			if a.Op == OXor && len(a.Args) == 2 {
				if a.Args[0] == b {
					return a.Args[1]
				}
				if a.Args[1] == b {
					return a.Args[0]
				}
			}
			if b.Op == OXor && len(b.Args) == 2 {
				if b.Args[0] == a {
					return b.Args[1]
				}
				if b.Args[1] == a {
					return b.Args[0]
				}
			}
		}
	}
	// (x + k1) - (x + k2) == k1 - k2 for exact linear forms
	if op == OSub && !a.IsConst() && !b.IsConst() && (a.Op == OAdd || b.Op == OAdd || a.Op == OLin || b.Op == OLin) {
		la, lb := c.linear(a, 6), c.linear(b, 6)
		same := len(la.coef) == len(lb.coef)
		if same {
			for t, co := range la.coef {
				if o, ok := lb.coef[t]; !ok || o.Cmp(co) != 0 {
					same = false
					break
				}
			}
		}
		if same {
			d := new(big.Int).Sub(la.k, lb.k)
			if fits(s, d, d) {
				if d.Sign() < 0 {
					return c.Const(s, uint64(d.Int64()))
				}
				return c.Const(s, d.Uint64())
			}
		}
	}
	// x - (x/k)*k  ==  x % k   (Go semantics, any sign)
	if op == OSub && b.Op == OMul {
		for i := 0; i < 2; i++ {
			q, kc := b.Args[i], b.Args[1-i]
			if q.Op == OQuo && q.Args[0] == a && q.Args[1] == kc && kc.IsConst() && kc.K != 0 {
				return c.Bin(ORem, a, kc)
			}
			// the quotient may have been rewritten: rebuild a/k and compare (terms are hash-consed)
			if kc.IsConst() && kc.K != 0 && !q.IsConst() && !a.IsConst() && c.Bin(OQuo, a, kc) == q {
				return c.Bin(ORem, a, kc)
			}
		}
	}
	if (op == OQuo || op == ORem) && b.IsConst() && !a.IsConst() && b.Lo.Sign() > 0 {
		if q, r, ok := c.divRemConst(a, b.Lo); ok {
			if op == OQuo {
				return q
			}
			return r
		}
	}
	if op == OAnd && b.IsConst() && isLowMask(b.K) && b.K != 0 && a.Lo.Sign() >= 0 && b.Lo.Sign() > 0 {
		if _, r, ok := c.divRemConst(a, new(big.Int).Add(b.Lo, bigOne)); ok {
			return r
		}
	}
	if op == OOr && s.W >= 16 && (a.Op == OShl || b.Op == OShl) {
		probe := &Term{Op: op, Sort: s, Args: []*Term{a, b}}
		probe.Lo, probe.Hi = typeRange(s)
		if x := c.recompose(probe); x != nil {
			return x
		}
	}
	lo, hi := binInterval(op, s, a, b)
	if lo == nil && (op == OAdd || op == OSub) && s.W == 64 {
		if t := c.tryModLinear(op, s, a, b); t != nil {
			return t
		}
	}
	return c.mkI(op, s, lo, hi, a, b)
}

func isLowMask(k uint64) bool { return k&(k+1) == 0 }

func binInterval(op Op, s Sort, a, b *Term) (*big.Int, *big.Int) {
	switch op {
	case OAdd:
		lo := new(big.Int).Add(a.Lo, b.Lo)
		hi := new(big.Int).Add(a.Hi, b.Hi)
		if fits(s, lo, hi) {
			return lo, hi
		}
	case OSub:
		// a - a/k and a - a>>k are monotone in a (a >= 0)
		if a.Lo.Sign() >= 0 && len(b.Args) == 2 && b.Args[0] == a && b.Args[1].IsConst() && b.Args[1].K > 0 {
			var f func(x *big.Int) *big.Int
			switch b.Op {
			case OQuo:
				k := b.Args[1].Lo
				f = func(x *big.Int) *big.Int { return new(big.Int).Sub(x, new(big.Int).Quo(x, k)) }
			case OShr:
				k := uint(b.Args[1].K)
				f = func(x *big.Int) *big.Int { return new(big.Int).Sub(x, new(big.Int).Rsh(x, k)) }
			}
			if f != nil {
				return f(a.Lo), f(a.Hi)
			}
		}
		lo := new(big.Int).Sub(a.Lo, b.Hi)
		hi := new(big.Int).Sub(a.Hi, b.Lo)
		if fits(s, lo, hi) {
			return lo, hi
		}
	case OMul:
		p := []*big.Int{new(big.Int).Mul(a.Lo, b.Lo), new(big.Int).Mul(a.Lo, b.Hi), new(big.Int).Mul(a.Hi, b.Lo), new(big.Int).Mul(a.Hi, b.Hi)}
		lo, hi := p[0], p[0]
		for _, x := range p[1:] {
			if x.Cmp(lo) < 0 {
				lo = x
			}
			if x.Cmp(hi) > 0 {
				hi = x
			}
		}
		if fits(s, lo, hi) {
			return lo, hi
		}
	case OQuo:
		if a.Lo.Sign() >= 0 && b.Lo.Sign() > 0 {
			return new(big.Int).Quo(a.Lo, b.Hi), new(big.Int).Quo(a.Hi, b.Lo)
		}
		if b.Lo.Sign() > 0 {
			// |a/b| <= |a|/b.lo, sign follows a
			lo := new(big.Int).Quo(a.Lo, b.Lo)
			hi := new(big.Int).Quo(a.Hi, b.Lo)
			if a.Lo.Sign() >= 0 {
				lo = new(big.Int)
			}
			if a.Hi.Sign() <= 0 {
				hi = new(big.Int)
			}
			return lo, hi
		}
	case ORem:
		if b.Lo.Sign() > 0 {
			bm := new(big.Int).Sub(b.Hi, bigOne)
			if a.Lo.Sign() >= 0 {
				hi := bm
				if a.Hi.Cmp(hi) < 0 {
					hi = a.Hi
				}
				return new(big.Int), hi
			}
			lo := new(big.Int).Neg(bm)
			if a.Hi.Sign() <= 0 {
				return lo, new(big.Int)
			}
			return lo, bm
		}
	case OAnd:
		if a.Lo.Sign() >= 0 && b.Lo.Sign() >= 0 {
			hi := a.Hi
			if b.Hi.Cmp(hi) < 0 {
				hi = b.Hi
			}
			return new(big.Int), hi
		}
		if b.Lo.Sign() >= 0 {
			return new(big.Int), b.Hi
		}
		if a.Lo.Sign() >= 0 {
			return new(big.Int), a.Hi
		}
	case OOr, OXor:
		if a.Lo.Sign() >= 0 && b.Lo.Sign() >= 0 {
			// bounded by next power of two above both
			n := a.Hi.BitLen()
			if b.Hi.BitLen() > n {
				n = b.Hi.BitLen()
			}
			hi := new(big.Int).Lsh(bigOne, uint(n))
			hi.Sub(hi, bigOne)
			lo := new(big.Int)
			if op == OOr {
				lo = a.Lo
				if b.Lo.Cmp(lo) > 0 {
					lo = b.Lo
				}
			}
			return lo, hi
		}
	}
	return nil, nil
}

// Shift: cnt may be of any integer sort; Go semantics (count >= width gives 0 / sign fill).
func (c *Ctx) Shift(op Op, a, cnt *Term) *Term {
	s := a.Sort
	w := uint64(s.W)
	if cnt.IsConst() {
		k := cnt.K
		if cnt.Sort.Signed && cnt.Int64() < 0 {
			panic("negative shift count")
		}
		if k == 0 {
			return a
		}
		if a.IsConst() {
			var v uint64
			if op == OShl {
				if k >= w {
					v = 0
				} else {
					v = a.K << k
				}
			} else if s.Signed {
				if k >= 64 {
					k = 63
				}
				v = uint64(signExt(a.K, int(w)) >> k)
			} else {
				if k >= w {
					v = 0
				} else {
					v = a.K >> k
				}
			}
			return c.Const(s, v)
		}
		if k >= w {
			if op == OShl || !s.Signed {
				return c.Const(s, 0)
			}
			k = w - 1
		}
		kc := c.Const(s, k)
		if op == OShr && a.Lo.Sign() >= 0 && k < 62 {
			if q, _, ok := c.divRemConst(a, pow2(uint(k))); ok {
				return q
			}
		}
		var lo, hi *big.Int
		if op == OShl {
			lo = new(big.Int).Lsh(a.Lo, uint(k))
			hi = new(big.Int).Lsh(a.Hi, uint(k))
			if !fits(s, lo, hi) {
				lo, hi = nil, nil
			}
		} else {
			lo = new(big.Int).Rsh(a.Lo, uint(k))
			hi = new(big.Int).Rsh(a.Hi, uint(k))
		}
		return c.mkI(op, s, lo, hi, a, kc)
	}
	// symbolic count: bring it to a's width, saturating at w
	var k *Term
	cs := cnt.Sort
	if cs.W > s.W {
		big := c.Not(c.Cmp(OLt, c.Conv(cnt, IntSort(int(cs.W), false)), c.Const(IntSort(int(cs.W), false), w)))
		k = c.Ite(big, c.Const(s, w), c.Conv(c.Conv(cnt, IntSort(int(cs.W), false)), s))
	} else {
		k = c.Conv(c.Conv(cnt, IntSort(int(cs.W), false)), IntSort(int(s.W), false))
		k = c.Conv(k, s)
	}
	if a.IsConst() && a.K == 0 {
		return a
	}
	var lo, hi *big.Int
	if op == OShr && a.Lo.Sign() >= 0 {
		lo, hi = new(big.Int), a.Hi
	}
	return c.mkI(op, s, lo, hi, a, k)
}

func (c *Ctx) Neg(a *Term) *Term {
	if a.IsConst() {
		return c.Const(a.Sort, -a.K)
	}
	return c.Bin(OSub, c.Const(a.Sort, 0), a)
}
func (c *Ctx) BNot(a *Term) *Term {
	if a.IsConst() {
		return c.Const(a.Sort, ^a.K)
	}
	return c.Bin(OXor, a, c.Const(a.Sort, mask(int(a.Sort.W))))
}

// Cmp builds OEq / OLt / OLe on two terms of equal sort (ints, bools for Eq).
func (c *Ctx) Cmp(op Op, a, b *Term) *Term {
	if a.Sort != b.Sort {
		panic(fmt.Sprintf("Cmp %v on sorts %v %v", op, a.Sort, b.Sort))
	}
	if a.Sort.K == KBool {
		if op != OEq {
			panic("bool compare")
		}
		if a.IsConst() {
			if a.K == 1 {
				return b
			}
			return c.Not(b)
		}
		if b.IsConst() {
			if b.K == 1 {
				return a
			}
			return c.Not(a)
		}
		if a == b {
			return c.BoolC(true)
		}
		return c.mk(OEq, Bool, a, b)
	}
	if a.Sort.K == KArr {
		if a == b {
			return c.BoolC(true)
		}
		return c.mk(OEq, Bool, a, b)
	}
	if a == b {
		return c.BoolC(op != OLt)
	}
	switch op {
	case OEq:
		if a.Hi.Cmp(b.Lo) < 0 || b.Hi.Cmp(a.Lo) < 0 {
			return c.BoolC(false)
		}
		if a.IsConst() && b.IsConst() {
			return c.BoolC(a.K == b.K)
		}
		if a.IsConst() {
			a, b = b, a
		}
		{
			az, ao := a.knownBits()
			bz, bo := b.knownBits()
			if ao&bz != 0 || az&bo != 0 {
				return c.BoolC(false)
			}
			if eq, ok := bitsDecideEq(a, b); ok {
				return c.BoolC(eq)
			}
		}
		// ite(g, c1, c2) == c3
		if a.Op == OIte && b.IsConst() && a.Args[1].IsConst() && a.Args[2].IsConst() {
			return c.Ite(a.Args[0], c.BoolC(a.Args[1].K == b.K), c.BoolC(a.Args[2].K == b.K))
		}
	case OLt:
		if a.Hi.Cmp(b.Lo) < 0 {
			return c.BoolC(true)
		}
		if a.Lo.Cmp(b.Hi) >= 0 {
			return c.BoolC(false)
		}
	case OLe:
		if a.Hi.Cmp(b.Lo) <= 0 {
			return c.BoolC(true)
		}
		if a.Lo.Cmp(b.Hi) > 0 {
			return c.BoolC(false)
		}
	}
	return c.mk(op, Bool, a, b)
}

// Conv converts between integer sorts with Go semantics (truncate / sign- or zero-extend).
func (c *Ctx) Conv(a *Term, to Sort) *Term {
	if a.Sort == to {
		return a
	}
	if a.Sort.K != KInt || to.K != KInt {
		panic(fmt.Sprintf("Conv %v -> %v", a.Sort, to))
	}
	if a.IsConst() {
		if a.Sort.Signed {
			return c.Const(to, uint64(signExt(a.K, int(a.Sort.W))))
		}
		return c.Const(to, a.K)
	}
	// conv of conv where the inner one was value preserving
	if a.Op == OConv {
		in := a.Args[0]
		if fits(a.Sort, in.Lo, in.Hi) && (a.Sort.W >= to.W || fits(to, in.Lo, in.Hi)) {
			return c.Conv(in, to)
		}
	}
	var lo, hi *big.Int
	if fits(to, a.Lo, a.Hi) {
		lo, hi = a.Lo, a.Hi
	} else if to.W == 64 && a.Sort.W == 64 {
		if t := c.tryModLinearConv(a, to); t != nil {
			return t
		}
	}
	return c.mkI(OConv, to, lo, hi, a)
}

// ---------------------------------------------------------------- arrays

func (c *Ctx) ArrVar(name string, idxW, elemW int) *Term {
	t := &Term{Op: OVar, Sort: ArrSort(idxW, elemW), Name: name}
	n := len(c.tab)
	t = c.intern(t)
	if len(c.tab) != n {
		c.Vars = append(c.Vars, t)
	}
	return t
}
func (c *Ctx) ConstArr(idxW, elemW int, v *Term) *Term {
	return c.mk(OConstArr, ArrSort(idxW, elemW), v)
}
func (c *Ctx) Select(arr, idx *Term, elem Sort) *Term {
	// read over write with syntactically decidable indices
	for arr.Op == OStore {
		i := arr.Args[1]
		if i == idx {
			return c.reinterp(arr.Args[2], elem)
		}
		if i.IsConst() && idx.IsConst() {
			arr = arr.Args[0]
			continue
		}
		if i.Hi.Cmp(idx.Lo) < 0 || idx.Hi.Cmp(i.Lo) < 0 {
			arr = arr.Args[0]
			continue
		}
		if baseOffsetDistinct(i, idx) || c.linDistinct(i, idx) {
			arr = arr.Args[0]
			continue
		}
		break
	}
	if arr.Op == OConstArr {
		return c.reinterp(arr.Args[0], elem)
	}
	return c.mk(OSelect, elem, arr, idx)
}
func (c *Ctx) reinterp(v *Term, s Sort) *Term {
	if v.Sort == s {
		return v
	}
	if v.Sort.W == s.W {
		return c.Conv(v, s)
	}
	panic("array element width mismatch")
}
func (c *Ctx) Store(arr, idx, v *Term) *Term {
	if arr.Op == OStore && arr.Args[1] == idx {
		arr = arr.Args[0]
	}
	return c.mk(OStore, arr.Sort, arr, idx, v)
}

// ---------------------------------------------------------------- floats

func (c *Ctx) FBin(op Op, a, b *Term) *Term {
	if a.IsConst() && b.IsConst() {
		x, y := a.Float(), b.Float()
		var r float64
		switch op {
		case OFAdd:
			r = x + y
		case OFSub:
			r = x - y
		case OFMul:
			r = x * y
		case OFDiv:
			r = x / y
		}
		if a.Sort.K == KF32 {
			return c.Float32C(float32(r))
		}
		return c.FloatC(r)
	}
	return c.mk(op, a.Sort, a, b)
}
func (c *Ctx) FCmp(op Op, a, b *Term) *Term {
	if a.IsConst() && b.IsConst() {
		x, y := a.Float(), b.Float()
		switch op {
		case OFEq:
			return c.BoolC(x == y)
		case OFLt:
			return c.BoolC(x < y)
		case OFLe:
			return c.BoolC(x <= y)
		}
	}
	// comparisons against the largest finite values are tests for an infinity: decide them on the bits
	if op == OFLt && a.Sort.K == KF64 {
		if a.IsConst() && a.K == math.Float64bits(math.MaxFloat64) && b.Op == OFFromBits {
			return c.Cmp(OEq, b.Args[0], c.Const(U64, 0x7FF0000000000000))
		}
		if b.IsConst() && b.K == math.Float64bits(-math.MaxFloat64) && a.Op == OFFromBits {
			return c.Cmp(OEq, a.Args[0], c.Const(U64, 0xFFF0000000000000))
		}
	}
	return c.mk(op, Bool, a, b)
}
func (c *Ctx) FNeg(a *Term) *Term {
	if a.IsConst() {
		if a.Sort.K == KF32 {
			return c.Float32C(float32(-a.Float()))
		}
		return c.FloatC(-a.Float())
	}
	return c.mk(OFNeg, a.Sort, a)
}
func (c *Ctx) FIsNaN(a *Term) *Term {
	if a.IsConst() {
		return c.BoolC(math.IsNaN(a.Float()))
	}
	if a.Op == OFFromBits && a.Sort.K == KF64 {
		x := a.Args[0]
		exp := c.Cmp(OEq, c.Bin(OAnd, x, c.Const(U64, 0x7FF0000000000000)), c.Const(U64, 0x7FF0000000000000))
		man := c.Not(c.Cmp(OEq, c.Bin(OAnd, x, c.Const(U64, 0x000FFFFFFFFFFFFF)), c.Const(U64, 0)))
		return c.And(exp, man)
	}
	return c.mk(OFIsNaN, Bool, a)
}
func (c *Ctx) FIsInf(a *Term) *Term {
	if a.IsConst() {
		return c.BoolC(math.IsInf(a.Float(), 0))
	}
	return c.mk(OFIsInf, Bool, a)
}
func (c *Ctx) FBits(a *Term) *Term {
	if a.IsConst() {
		return c.Const(U64, a.K)
	}
	if a.Op == OFFromBits {
		return a.Args[0]
	}
	return c.mk(OFBits, U64, a)
}
func (c *Ctx) FFromBits(a *Term) *Term {
	if a.IsConst() {
		return c.Const(F64, a.K)
	}
	if a.Op == OFBits {
		return a.Args[0]
	}
	return c.mk(OFFromBits, F64, a)
}
func (c *Ctx) I2F(a *Term, to Sort) *Term {
	if a.IsConst() {
		var f float64
		if a.Sort.Signed {
			f = float64(a.Int64())
		} else {
			f = float64(a.K)
		}
		if to.K == KF32 {
			return c.Float32C(float32(f))
		}
		return c.FloatC(f)
	}
	return c.mk(OI2F, to, a)
}
func (c *Ctx) F2I(a *Term, to Sort) *Term {
	if a.IsConst() {
		f := a.Float()
		if to.Signed {
			return c.Const(to, uint64(int64(f)))
		}
		return c.Const(to, uint64(f))
	}
	return c.mk(OF2I, to, a)
}
func (c *Ctx) F2F(a *Term, to Sort) *Term {
	if a.Sort == to {
		return a
	}
	if a.IsConst() {
		if to.K == KF32 {
			return c.Float32C(float32(a.Float()))
		}
		return c.FloatC(a.Float())
	}
	return c.mk(OF2F, to, a)
}

// UF applies an uninterpreted function.
func (c *Ctx) UF(name string, res Sort, args ...*Term) *Term {
	t := &Term{Op: OUF, Sort: res, Args: args, Name: name}
	if res.K == KInt {
		t.Lo, t.Hi = typeRange(res)
	}
	return c.intern(t)
}

// SignExt sign-extends the low w bits of v.
func SignExt(v uint64, w int) int64 { return signExt(v, w) }

// baseOffsetDistinct: a = base + k1 and b = base + k2 (same base term, no wrap) with k1 != k2.
func baseOffsetDistinct(a, b *Term) bool {
	ba, ka, oka := baseOffset(a)
	bb, kb, okb := baseOffset(b)
	return oka && okb && ba == bb && ka != kb
}

func baseOffset(t *Term) (*Term, int64, bool) {
	if t.Op == OAdd && t.Args[1].IsConst() {
		lo, hi := binInterval(OAdd, t.Sort, t.Args[0], t.Args[1])
		if lo == nil || hi == nil {
			return nil, 0, false
		}
		return t.Args[0], t.Args[1].Int64(), true
	}
	return t, 0, true
}

// linDistinct: the exact linear forms of a and b differ by a non-zero constant.
func (c *Ctx) linDistinct(a, b *Term) bool {
	if a.Sort.K != KInt || b.Sort.K != KInt {
		return false
	}
	la := c.linear(a, 8)
	lb := c.linear(b, 8)
	if len(la.coef) != len(lb.coef) || len(la.coef) == 0 {
		return false
	}
	for t, co := range la.coef {
		o, ok := lb.coef[t]
		if !ok || o.Cmp(co) != 0 {
			return false
		}
	}
	return la.k.Cmp(lb.k) != 0
}
