#!/bin/bash
# Builds the gosmt engine offline from /verif/engine.
set -e
cd "$(dirname "$0")"
export GOFLAGS=-mod=mod GOPROXY=off GOSUMDB=off GOTOOLCHAIN=local
mkdir -p bin evidence replays
(cd engine && go build -o ../bin/gosmt ./cmd/gosmt)
echo "setup ok"
