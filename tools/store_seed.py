#!/usr/bin/env python3
"""store_seed.py <ID> "<check result text>" : copies a confirmed seeded change from /tmp/seedwork/<ID>/out
into /verif/seeded/<ID>/ (patch.diff, demonstration, meta.json)."""
import json, os, shutil, sys
sid, result = sys.argv[1], sys.argv[2]
src = "/tmp/seedwork/%s/out" % sid
dst = "/verif/seeded/%s" % sid
os.makedirs(dst, exist_ok=True)
notes = json.load(open(os.path.join(src, "notes.json")))
conf = json.load(open("/tmp/seedwork/%s/confirm.json" % sid))
for f in os.listdir(src):
    if f in ("notes.json",) or f.startswith("preexisting"):
        continue
    shutil.copy(os.path.join(src, f), os.path.join(dst, f))
meta = {
    "summary": notes.get("summary"), "files_changed": notes.get("files_changed"),
    "demo_package": notes.get("demo_package"), "demo_run": notes.get("demo_run"),
    "what_input_triggers_it": notes.get("what_input_triggers_it"),
    "why_existing_tests_miss_it": notes.get("why_existing_tests_miss_it"),
    "property": sid.split("-")[0],
    "confirmed_by_me": {
        "demo_fails_with_change": conf.get("demo_fails_with_change"),
        "demo_passes_without_change": conf.get("demo_passes_without_change"),
        "go_build_ok": conf.get("go_build_ok"),
        "existing_tests_with_change": conf.get("existing_tests_with_change"),
        "how": "tools/confirm_seed.py on a fresh scratch worktree of /repo (" + str(conf.get("demo_cmd")) + ")",
        "check_result": result,
    },
    "produced_by": "fresh sub-agent given the property text and a scratch worktree (batch 7)",
}
json.dump(meta, open(os.path.join(dst, "meta.json"), "w"), indent=1)
print("stored", dst, os.listdir(dst))
