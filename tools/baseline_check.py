#!/usr/bin/env python3
"""Runs the repository's test suite (guard off - there are no hooks) and compares with BASELINE.json's stable_pass."""
import json, os, subprocess, sys
env = dict(os.environ, GOFLAGS="-mod=mod", GOPROXY="off", GOSUMDB="off", GOTOOLCHAIN="local")
base = json.load(open("/root/.vp/BASELINE.json"))
want = set(base["stable_pass"])
r = subprocess.run(["go", "test", "-json", "-vet=off", "-count=1", "-timeout", "25m", "./..."], cwd="/repo", env=env, capture_output=True, text=True)
got = set()
failed = set()
for line in r.stdout.splitlines():
    try:
        e = json.loads(line)
    except Exception:
        continue
    if e.get("Test") and e.get("Action") == "pass":
        got.add("%s::%s" % (e["Package"], e["Test"]))
    if e.get("Test") and e.get("Action") == "fail":
        failed.add("%s::%s" % (e["Package"], e["Test"]))
missing = sorted(want - got)
print("stable_pass:", len(want), "passed now:", len(want & got), "missing:", len(missing))
for m in missing[:40]:
    print("  MISSING", m, "(failed)" if m in failed else "")
sys.exit(1 if missing else 0)
