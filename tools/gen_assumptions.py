#!/usr/bin/env python3
"""Regenerates harness/<id>/assumptions.json (copied into evidence/<id>.json by check.py) from MANIFEST.json's level notes and the stubs / overlays / tags of the harness manifests. Run after tools/gen_manifest.py."""
import json, glob, os
ROOT = os.path.dirname(os.path.dirname(os.path.abspath(__file__)))
m = json.load(open(os.path.join(ROOT, "MANIFEST.json")))
ENGINE = ("Engine-wide: integers are Go-typed bit-vectors or exact integers with wrap checks; crc32 / xxhash / jump hash are uninterpreted functions; "
          "logging, metrics and formatting of non-concrete or composite arguments are opaque; sequentially consistent interleavings at lock / atomic / channel / "
          "wait-group operations within the stated pre-emption bound; loops are unrolled up to the manifest's unwind bound with an unwinding assertion; a solver "
          "unknown, an unsupported construct or a counterexample that does not replay natively (or, for schedule-dependent ones, by concrete re-execution of the "
          "SSA under the recorded schedule) makes the run inconclusive, never held.")
for c in m["checks"]:
    pid = c["property_id"]
    stubs, overlays, tags = set(), set(), set()
    for mp in sorted(glob.glob(os.path.join(ROOT, "harness", pid, "manifest*.json"))):
        mm = json.load(open(mp))
        for h in mm["harnesses"]:
            for k, v in (h.get("stubs") or {}).items():
                stubs.add("%s -> %s" % (k.split("/")[-1], v.split(".")[-1]))
        for k, v in (mm.get("overlays") or {}).items():
            overlays.add("%s (from %s)" % (k, os.path.basename(v)))
        if mm.get("tags"):
            tags.add(mm["tags"])
    a = [c["level_note"], ENGINE]
    if stubs:
        a.append("Function stubs (engine only; native replays use the real functions unless stated): " + "; ".join(sorted(stubs)))
    if overlays:
        a.append("Seam / stand-in files overlaid into other packages: " + "; ".join(sorted(overlays)))
    if tags:
        a.append("Build tags: " + ", ".join(sorted(tags)))
    a.append("Bounds per harness are in coverage.harnesses[].bounds of this file and in harness/%s/manifest*.json; what lies outside them is outside the claim." % pid)
    json.dump(a, open(os.path.join(ROOT, "harness", pid, "assumptions.json"), "w"), indent=1)
