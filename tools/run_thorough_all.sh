#!/bin/bash
# runs the thorough command of every claimed property once, sequentially; prints exit code and wall time
cd "$(dirname "$0")/.."
./setup.sh >/dev/null 2>&1
for id in ${@:-C14 C15 C11 C05 C06 C08 C20 C10 C09 C12 C16 C18 C19 C07 C01 C02 C03 C13 C04}; do
  s=$(date +%s)
  timeout ${THOROUGH_CAP:-5400} ./check $id --tier thorough > thorough_$id.log 2>&1
  echo "$id exit=$? wall=$(( $(date +%s) - s ))s"
  grep -E "VIOLATION|INCONCLUSIVE" thorough_$id.log | cut -c1-300 | head -5
done
