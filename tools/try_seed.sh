#!/bin/bash
# try_seed.sh <seed-id> <manifest> [entry,...] : applies the seeded change to a scratch worktree and runs one manifest on it
# (patch from /tmp/seedwork/<id>/out or /verif/seeded/<id>)
export GOFLAGS=-mod=mod GOPROXY=off GOSUMDB=off GOTOOLCHAIN=local
k=$1; man=$2; only=$3
p=/tmp/seedwork/$k/out/patch.diff; [ -f $p ] || p=/verif/seeded/$k/patch.diff
wt=/tmp/st_$k; rm -rf $wt; git -C /repo worktree add --detach $wt HEAD >/dev/null 2>&1
git -C $wt apply $p || { echo "patch does not apply"; git -C /repo worktree remove --force $wt; exit 3; }
args=""; [ -n "$only" ] && args="-only $only"
GOSMT_STOP_GRACE=20 /verif/bin/gosmt run -manifest $man $args -tier quick -repo $wt -out /tmp/o_$k.json 2>&1 | grep -v "^    viol" | tail -6
python3 -c "
import json;r=json.load(open('/tmp/o_$k.json'))
if r.get('load_error'): print('LOAD ERROR', r['load_error'][:400])
for h in r['harnesses']: print(' ', h['entry'],h['verdict'],sorted(set((v['kind'],v['label']) for v in (h.get('violations') or [])))[:4], (h.get('inconclusive') or [])[:2])"
git -C /repo worktree remove --force $wt
