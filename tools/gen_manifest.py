#!/usr/bin/env python3
"""Regenerates MANIFEST.json from the table below (claimed checks) – run after adding a property."""
import json, os
ROOT = os.path.dirname(os.path.dirname(os.path.abspath(__file__)))
TECH = "bounded symbolic execution of the real Go code (go/ssa -> SMT-LIB2, gosmt) decided by z3; counterexamples replayed natively"
CLAIMED = {
 "C13": ("5 C13", "For every zone offset (multiples of 15 min in [-12h,+14h]) and every millisecond whose local civil date lies in the partitioned window (quick: 10 listed years for the day-type calculator, 2 years with every day for the year-type calculator; thorough: all of 1970-2099, plus the month-type calculator), the real day/month/year calculators (with Go's time package executed from its own SSA) agree with a closed-form reference of local civil time: segment and family bounds, family contains t, end = next start - 1 (tiling), idempotence inside a cell; slot arithmetic for every listed interval value: 0 <= t - (familyStart + slot*interval) < interval, slot < 65536, monotone.",
         "Trusted: the SSA->SMT encoder (validated on every run by replaying a reachability model natively and comparing observed values), z3. Fixed-offset zones only (no DST); the year/month partition of the window is asserted exhaustive inside the harness; interval values are a listed selection per type; query planner (query/context/utils.go) not yet covered."),
 "C14": ("5 C14", "Lossless round trips decided for all values inside the bounds: fixed-offset table (<=3 offsets < 2^32, both modes, minimal width, out-of-range Get), XOR codec whole streams of 2 and 3 arbitrary 64-bit patterns and the one-step lemma from an arbitrary encoder/decoder state (any previous value, leading/trailing window, bit position 3 quick / all 8 thorough) which covers streams of any length, delta bit packing (2 values quick, 3 thorough), TSD blocks of 2-3 slots (4 thorough) with arbitrary presence mask and values, sequential vs slot-addressed reads, pooled reuse of encoder/decoder.",
         "Trusted: encoder + z3. Roaring bitmap serialisation and snappy are third-party code and not encoded; streams longer than the bounds only through the XOR step lemma."),
 "C16": ("5 C16", "Kernels: write-window eviction (a row is dropped iff outside [now-behind, now+ahead], <=3 rows, symbolic clock), shard x family partition of a batch (<=3 rows, <=4 shards, timestamps in a 3-hour window, arbitrary hashes; jump hash as uninterpreted function with 0<=r<n): every row in exactly one group, shard below count, family range contains the timestamp; tag canonicalisation (3 tags of 1-byte symbolic keys/values, all 6 permutations): sorted, one entry per key, independent of order for distinct keys, hash and serialised form equal.",
         "Trusted: encoder + z3; flat-buffer accessors Timestamp/KvsHash are stubbed in the engine (real flat buffers in native replays); xxhash and jump hash are uninterpreted functions. The three text/binary parsers and field conversion are not covered."),
 "C18": ("5 C18", "Shard placement for every cluster size <=4 (6 thorough), shard count <=5 (8), replica factor and every start index in [0,1000]: exactly replica-factor distinct replicas among the given nodes, first replicas round-robin (counts differ by <=1), growth keeps existing shards and numbers new ones consecutively. Leadership: inductive step from an arbitrary cluster state that satisfies the invariant (<=3 nodes, <=2 shards, any liveness, symbolic shard state and leader) under node-up / node-down, and database creation on any live set: online iff some replica alive, leader of an online shard is an alive replica.",
         "Trusted: encoder + z3. Event handlers are driven at the level of the state functions they call (NodeOffline+onNodeFailure, NodeOnline+onNodeStartup); repository writes, JSON and logging are not part of the model; rand.Intn start positions are covered by the symbolic fixed start index."),
 "C11": ("5 C11", "Kernel only (field store of the memory database): 3 writes to one field window in every slot order (every position of an 8-slot window, 3 window origins incl. the uint16 end), arbitrary finite values, all 5 simple field types: a slot is readable iff written and holds the write-order fold; 2 writes (3 thorough) across window changes with real compaction into the TSD block and a real flush: the decoded block holds exactly the folds. Found and fixed: out-of-order write moved the window end backwards.",
         "Trusted: encoder + z3. Slot positions are enumerated (case split), values symbolic. Family selection, down-sampling into query slots, the query pipeline, functions/expressions and queries concurrent with flush are not covered by this check."),
}
NA = {
 "C17": "ANTLR table-driven parser and reflection-based JSON codec cannot be encoded by an SSA-to-SMT executor within reach (DESIGN.md section 6)",
}
PENDING = "harness not built yet in this session (claimed only after it ran clean on the unchanged tree); see DESIGN.md section 5"
def main():
    props = [json.loads(l)["id"] for l in open(os.path.join(ROOT, "properties.jsonl"))]
    checks = []
    for pid in props:
        if pid in CLAIMED:
            ref, text, note = CLAIMED[pid]
            checks.append({"property_id": pid, "quick_cmd": "./check %s --tier quick" % pid, "thorough_cmd": "./check %s --tier thorough" % pid,
                           "evidence_file": "evidence/%s.json" % pid, "replay_cmd_template": "./check replay {path}", "engine": "gosmt",
                           "level_claimed": {"category": "model_checking", "text": text, "design_ref": "DESIGN.md section " + ref},
                           "level_note": note, "technique": TECH})
    na = []
    for pid in props:
        if pid not in CLAIMED:
            na.append({"property_id": pid, "reason": NA.get(pid, PENDING)})
    m = {"version": 1, "setup_cmd": "./setup.sh",
         "hooks": {"guard": "verif", "enable": "none needed: harnesses are injected with Go build overlays (packages.Config.Overlay / go test -overlay); /repo carries no hook code",
                   "baseline_off_cmd": "cd /repo && go test -vet=off -count=1 -timeout 25m ./...", "source_commits": [], "add_only": True},
         "engines": [{"name": "gosmt", "path": "engine", "serves_properties": sorted(CLAIMED), "kind_free_text": "bounded symbolic execution of Go SSA (golang.org/x/tools/go/ssa v0.29.0) with SMT back end (z3 5.1 / 4.8.12); native replay of counterexamples through go test -overlay"}],
         "checks": checks, "not_applicable": na,
         "notes": "exit codes of ./check: 0 held (possibly with KNOWN-FINDING lines), 1 replayed violation, 2 inconclusive (solver unknown / unsupported construct / harness does not compile against the tree) - never reported as held"}
    json.dump(m, open(os.path.join(ROOT, "MANIFEST.json"), "w"), indent=1)
if __name__ == "__main__":
    main()
