#!/usr/bin/env python3
"""confirm_seed.py <ID> [--check] [--keep]
Confirms a seeded change delivered by a sub-agent in /tmp/seedwork/<ID>/out (patch.diff, demo_test.go,
notes.json) on a fresh scratch worktree of /repo: the demonstration passes on the unchanged tree, the
patch applies, `go build ./...` succeeds, the demonstration fails with the patch. With --check the
property's quick check is then run against the patched worktree (VERIF_REPO / VERIF_OUT), and once
more after the patch was reverted. The worktree is removed at the end unless --keep is given.
Prints a JSON summary (also written to /tmp/seedwork/<ID>/confirm.json)."""
import json, os, re, subprocess, sys, glob, shutil, time

GOENV = dict(os.environ, GOFLAGS="-mod=mod", GOPROXY="off", GOSUMDB="off", GOTOOLCHAIN="local")


def sh(cmd, cwd=None, env=None, timeout=1800):
    r = subprocess.run(cmd, cwd=cwd, env=env or GOENV, shell=isinstance(cmd, str), capture_output=True, text=True, timeout=timeout)
    return r.returncode, r.stdout + r.stderr


def main():
    sid = sys.argv[1]
    do_check = "--check" in sys.argv
    keep = "--keep" in sys.argv
    src = os.environ.get("SEED_SRC", "/tmp/seedwork/%s/out" % sid)
    prop = sid.split("-")[0]
    notes = json.load(open(os.path.join(src, "notes.json")))
    wt = "/tmp/seedtry/%s/wt" % sid
    out = "/tmp/seedtry/%s/out" % sid
    if os.path.exists(wt):
        sh(["git", "-C", "/repo", "worktree", "remove", "--force", wt])
    shutil.rmtree("/tmp/seedtry/%s" % sid, ignore_errors=True)
    os.makedirs(out)
    rc, o = sh(["git", "-C", "/repo", "worktree", "add", "--detach", wt, "HEAD"])
    assert rc == 0, o
    res = {"id": sid, "property": prop}
    try:
        pkg = notes["demo_package"].lstrip("./").rstrip("/")
        pkgdir = os.path.join(wt, pkg)
        os.makedirs(pkgdir, exist_ok=True)
        demos = [f for f in os.listdir(src) if f.endswith(".go")]
        tests = []
        for f in demos:
            shutil.copy(os.path.join(src, f), os.path.join(pkgdir, "zz_" + f if not f.endswith("_test.go") else f.replace("_test.go", "_zzseed_test.go")))
            tests += re.findall(r"^func (Test\w+)\(", open(os.path.join(src, f)).read(), re.M)
        placed = [os.path.join(pkgdir, f.replace("_test.go", "_zzseed_test.go")) for f in demos if f.endswith("_test.go")]
        ov = {"Replace": {p: "" for p in glob.glob(pkgdir + "/*_test.go") if p not in placed}}
        # packages whose own tests compile at baseline keep them (a demonstration may use their helpers)
        rc0, _ = sh(["go", "test", "-vet=off", "-count=1", "-run", "^$", "./" + pkg + "/"], cwd=wt)
        if rc0 == 0:
            ov = {"Replace": {}}
        ovp = "/tmp/seedtry/%s/overlay.json" % sid
        json.dump(ov, open(ovp, "w"))
        run = ["go", "test", "-vet=off", "-count=1", "-overlay", ovp, "-run", "^(" + "|".join(tests) + ")$", "./" + pkg + "/"]
        res["demo_cmd"] = " ".join(run)
        rc, o = sh(run, cwd=wt)
        res["demo_passes_without_change"] = rc == 0
        if rc != 0:
            res["demo_without_output"] = o[-1500:]
        rc, o = sh(["git", "apply", os.path.join(src, "patch.diff")], cwd=wt)
        res["patch_applies"] = rc == 0
        if rc != 0:
            res["apply_output"] = o[-800:]
        rc, o = sh(["go", "build", "./..."], cwd=wt)
        res["go_build_ok"] = rc == 0
        rc, o = sh(run, cwd=wt)
        res["demo_fails_with_change"] = rc != 0
        res["demo_with_output"] = o[-1200:]
        # remove the demo before the checks see the tree
        for p in placed:
            os.remove(p)
        for f in demos:
            if not f.endswith("_test.go"):
                os.remove(os.path.join(pkgdir, "zz_" + f))
        # existing tests of the touched packages that compile at baseline
        touched = sorted(set(os.path.dirname(f) for f in notes.get("files_changed", [])))
        et = {}
        for d in touched:
            rc, o = sh(["go", "test", "-vet=off", "-count=1", "./" + d + "/"], cwd=wt, timeout=1500)
            et[d] = "pass" if rc == 0 else ("no-compile-at-baseline-or-fail: " + o[-300:])
        res["existing_tests_with_change"] = et
        if do_check:
            env = dict(GOENV, VERIF_REPO=wt, VERIF_OUT=out)
            t0 = time.time()
            rc, o = sh(["./check", prop, "--tier", "quick"], cwd="/verif", env=env, timeout=5400)
            res["check_exit_with_change"] = rc
            res["check_wall_s"] = round(time.time() - t0)
            res["check_lines"] = [l for l in o.splitlines() if l.startswith(("VIOLATION", "KNOWN-FINDING", "INCONCLUSIVE", "PARTIAL"))][:12]
    finally:
        if not keep:
            sh(["git", "-C", "/repo", "worktree", "remove", "--force", wt])
            shutil.rmtree("/tmp/seedtry/%s" % sid, ignore_errors=True)
    json.dump(res, open("/tmp/seedwork/%s/confirm.json" % sid, "w"), indent=1)
    print(json.dumps(res, indent=1))


if __name__ == "__main__":
    main()
