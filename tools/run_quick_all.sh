#!/bin/bash
# runs every property's quick check once (rewrites evidence/<id>.json), prints one line per property
cd "$(dirname "$0")/.."
for id in C01 C02 C03 C04 C05 C06 C07 C08 C09 C10 C11 C12 C13 C14 C15 C16 C18 C19 C20; do
  t0=$(date +%s)
  ./check $id --tier quick > /tmp/quick_$id.log 2>&1
  rc=$?
  echo "$id exit=$rc wall=$(( $(date +%s) - t0 ))s $(grep -c '^VIOLATION' /tmp/quick_$id.log) violations $(grep -c '^INCONCLUSIVE' /tmp/quick_$id.log) inconclusive $(grep -c '^KNOWN-FINDING' /tmp/quick_$id.log) known"
done
